"""Contracts for auditok.core.AudioRegion and its views  (C16, C17; the
constructor contract is shared with C05 and C18).

Abstract view of a region: (data: bytes, sr, sw, ch, start) with the
representation invariant  len(data) == nsamples * sw * ch.

Spec function for slicing (Python's own rule on a sequence of n samples):
    lo = norm(a, n, 0), hi = norm(b, n, n), norm(x) = max(x+n,0) if x<0 else min(x,n)
    region[a:b].data == data[lo*bps : lo*bps + max(hi-lo,0)*bps]
"""
import z3
from z3 import And, Or, Not, Implies, If, Int, Bool, IntVal, Real

from pyvc.engine import (Engine, PyRaise, PathEnd, Unsupported, LibCallable, GenVal, Closure, SliceVal,
                         BoundMethod, DictVal, new_aid, _Break, _Continue)
# (DictVal is also the model of the dict subclass _AudioRegionMetadata)
from pyvc.values import (imul, Seq, Opq, Ref, Fl, ValS, IntS, BoolS, I, B, R, fresh_name, seq_lit, v_eq_goal, ClassVal,
                         fresh_seq, norm_index, seq_slice, seq_concat, as_seq, is_int, r_trunc, r_round_half_even)
from pyvc.harness import Unit, CheckerError

QC = "auditok.core."
QR = "auditok.core.AudioRegion."


class Ctx:
    def __init__(self, sess):
        self.sess = sess

    def fi(self, q):
        return self.sess.func_info(q)


def make_ctx(sess):
    return Ctx(sess)


# ---------------------------------------------------------------------------
# symbolic regions

class RV:
    """Symbolic view of a region."""

    def __init__(self, tag, start_kind="none"):
        self.sr = Int(fresh_name(tag + ".sr"))
        self.sw = Int(fresh_name(tag + ".sw"))
        self.ch = Int(fresh_name(tag + ".ch"))
        self.ns = Int(fresh_name(tag + ".nsamples"))
        self.bps = self.sw * self.ch
        d = fresh_seq("bytes", tag + ".data")
        # representation invariant by construction: len(data) IS nsamples*sw*ch
        self.data = Seq("bytes", self.ns * self.sw * self.ch, d.at)
        self.start = None if start_kind == "none" else Fl(Real(fresh_name(tag + ".start")))

    def wf(self, eng=None):
        t = self.ns * self.sw * self.ch
        if eng is not None:
            eng.note_product(self.sw, self.ch, self.bps)
            eng.note_product(self.ns, self.bps, t, one_way=True)
        return And(self.sr >= 1, self.sw >= 1, self.ch >= 1, self.ns >= 0)


def region_obj(eng, v):
    """Allocate a region object whose fields are what the constructor contract
    (proved in unit `post_init`) establishes."""
    st = eng.st
    dur = Fl(eng.spec_div(I(v.data.n), v.sr * v.sw * v.ch))
    r = st.new_obj("AudioRegion", {
        "data": v.data, "sampling_rate": v.sr, "sample_width": v.sw, "channels": v.ch, "start": v.start,
        "duration": dur, "end": (Fl(eng.frnd("+", v.start, dur, v.start.t + dur.t)) if v.start is not None else None),
        "meta": Opq(tag="meta") if v.start is not None else None,
    })
    sv = st.new_obj("_SecondsView", {"_region": r})
    mv = st.new_obj("_MillisView", {"_region": r})
    h = st.heap[r.oid]
    h.update({"_seconds_view": sv, "_millis_view": mv, "sec": sv, "s": sv, "ms": mv,
              "splitp": Opq(tag="method")})
    st.ghost.setdefault("regions", {})[r.oid] = v
    return r


def ctor_contract(eng, args, kwargs):
    """AudioRegion(data, sampling_rate, sample_width, channels, start=None):
    raises AudioParameterError iff len(data) is not a multiple of sw*ch;
    otherwise the region with exactly these fields (duration = len/(sr*sw*ch),
    end = start + duration)."""
    names = ["data", "sampling_rate", "sample_width", "channels", "start"]
    vals = dict(zip(names, args))
    vals.update(kwargs)
    vals.setdefault("start", None)
    data = vals["data"]
    if data is None or not isinstance(data, (Seq, bytes)):
        raise PyRaise("TypeError", ("object of type %r has no len()" % type(data).__name__,))
    data = as_seq(data)
    sr, sw, ch = I(vals["sampling_rate"]), I(vals["sample_width"]), I(vals["channels"])
    bps = sw * ch
    if eng.decide(bps == 0):
        raise PyRaise("ZeroDivisionError", ())
    q, r = eng.div_elim(I(data.n), bps)
    if not eng.decide(r == 0):
        raise PyRaise("AudioParameterError", ())
    v = RV.__new__(RV)
    v.sr, v.sw, v.ch, v.bps, v.data = sr, sw, ch, bps, data
    v.ns = q
    eng.assume(v.ns >= 0)      # len(data) >= 0 and bps > 0
    st_ = vals["start"]
    v.start = None if st_ is None else (st_ if isinstance(st_, Fl) else Fl(R(st_)))
    return region_obj(eng, v)


def py_mod_eq0(a, b):
    """a % b == 0 for b != 0, stated multiplicatively (k*b == a)."""
    from pyvc.values import py_mod
    return py_mod(a, b) == 0     # symbolic divisor: eliminated to a == q*b + r by the engine


def view_of(eng, ref):
    v = eng.st.ghost.get("regions", {}).get(ref.oid)
    if v is None:
        raise CheckerError("object %r is not a region with a known view" % (ref,))
    return v


def slice_spec(v, a, b, eng=None):
    """Python slice semantics on the region's sample sequence."""
    n = v.ns
    lo = I(norm_index(a, n, 0))
    hi = I(norm_index(b, n, n))
    cnt = If(hi - lo > 0, hi - lo, 0)
    data = v.data
    bps = v.bps
    from pyvc.values import imul
    cb, lb = imul(cnt, bps), imul(lo, bps)
    return lo, hi, cnt, Seq("bytes", cb, lambda t: data.at(lb + I(t)))


ACCESSORS = [QR + x for x in ("sr", "sw", "ch", "seconds", "millis")]


def setup(sess, inline=()):
    eng = sess.engine()
    eng.inline |= set(inline) | set(ACCESSORS)
    eng.ctor_contracts = {"AudioRegion": ctor_contract,
                          "_AudioRegionMetadata": lambda e, a, k: Opq(tag="meta")}
    eng.lib["warnings.warn"] = lambda e, a, k: None
    return eng


def bound_kinds(eng, label, allow_float=True):
    """A slice bound of any kind: None / int / float / something else."""
    k = eng.choose(5, None, label)
    if k == 0:
        return None, "none"
    if k == 1:
        return Int(fresh_name(label)), "int"
    if k == 2:
        return Fl(Real(fresh_name(label))), "float"
    if k == 4:
        return "0.25", "other"          # a string that SPELLS a number is still a bound of the wrong type
    return "not-a-number", "other"


def expect_region(eng, res, v, data_spec, where, props):
    ok = isinstance(res, Ref) and res.cls == "AudioRegion"
    eng.prove(where + ":returns-a-region", ok, props=props)
    if not ok:
        raise PathEnd()
    h = eng.st.heap[res.oid]
    eng.prove(where + ":audio-parameters-unchanged",
              And(I(h["sampling_rate"]) == v.sr, I(h["sample_width"]) == v.sw, I(h["channels"]) == v.ch), props=props)
    d = h["data"]
    eng.prove(where + ":bytes-are-exactly-the-spec-bytes", v_eq_goal(d, data_spec), props=props)
    return h


# ---------------------------------------------------------------------------
# units

def unit_post_init(sess, ctx):
    """AudioRegion.__post_init__ (+ io.check_audio_data inlined): establishes
    the constructor contract used everywhere else."""
    u = Unit("AudioRegion.__post_init__", [QR + "__post_init__", "auditok.io.check_audio_data",
                                          QC + "_SecondsView.__init__"])
    eng = setup(sess, ["auditok.io.check_audio_data", QC + "_SecondsView.__init__"])
    fi = ctx.fi(QR + "__post_init__")
    metas = []

    def mk_meta(e, a, k):
        r = e.st.new_obj("MetaDict", {"arg": a[0] if a else None})
        metas.append(r)
        return r
    eng.ctor_contracts["_AudioRegionMetadata"] = mk_meta

    def run_(eng):
        st = eng.st
        sr, sw, ch = Int("sr"), Int("sw"), Int("ch")
        eng.assume(And(sr >= 1, sw >= 1, ch >= 1))
        data = fresh_seq("bytes", "data")
        eng.assume(I(data.n) >= 0)
        sk = eng.choose(3, None, "start kind")
        start = None if sk == 0 else (Fl(Real("start")) if sk == 1 else Int("start_i"))
        me = st.new_obj("AudioRegion", {"data": data, "sampling_rate": sr, "sample_width": sw, "channels": ch,
                                        "start": start})
        st.ghost.setdefault("in_init", {})[me.oid] = True
        bps_ = sw * ch
        eng.note_product(sw, ch, bps_)
        whole = eng.div_elim(I(data.n), bps_)[1] == 0
        eng.current_fn = fi
        try:
            eng.run_function(fi, [], {}, me)
        except PyRaise as e:
            if e.exc == "AudioParameterError":
                eng.prove("C17:ctor:rejects-only-partial-samples", Not(whole), props=("C17", "C05", "C16"))
            else:
                eng.prove("C17:ctor:unexpected-%s" % e.exc, False, props=("C17", "C05", "C16"))
            return None
        eng.prove("C17:ctor:accepts-only-whole-samples", whole, props=("C17", "C05", "C16"))
        h = st.heap[me.oid]
        dur = h.get("duration")
        okd = isinstance(dur, Fl)
        eng.prove("C16:ctor:duration-is-samples-over-rate",
                  (dur.t == eng.spec_div(I(data.n), sr * sw * ch)) if okd else False, props=("C16", "C05"))
        if start is None:
            pass     # (end / meta of a region without a start time are outside every statement)
        else:
            en = h.get("end")
            eng.prove("C05:ctor:end-is-start-plus-duration",
                      (en.t == eng.frnd("+", start, dur, R(start) + dur.t)) if isinstance(en, Fl) and okd else False, props=("C05",))
            mt = h.get("meta")
            arg = st.heap[mt.oid]["arg"] if isinstance(mt, Ref) and mt.cls == "MetaDict" else None
            okm = isinstance(arg, DictVal) and set(arg.entries) == {"start", "end"}
            eng.prove("C05:ctor:meta-holds-start-and-end-un-swapped",
                      okm and arg.entries["start"] == (True, h["start"]) and arg.entries["end"][1] is en, props=("C05", "C12", "C15"))
        sv, mv = h.get("_seconds_view"), h.get("_millis_view")
        okv = isinstance(sv, Ref) and sv.cls == "_SecondsView" and isinstance(mv, Ref) and mv.cls == "_MillisView" \
            and st.heap[sv.oid].get("_region") == me and st.heap[mv.oid].get("_region") == me
        eng.prove("C16:ctor:views-refer-to-this-region", okv, props=("C16",))
        for f_, val in (("data", data), ("sampling_rate", sr), ("sample_width", sw), ("channels", ch)):
            eng.prove("C17:ctor:field-%s-untouched" % f_, h.get(f_) is val, props=("C17", "C05"))
        return None
    sess.run_unit(u, eng, run_)
    return u


def getitem_contract(eng, fi_, self_val, args, kwargs):
    """Contract of AudioRegion.__getitem__ used at call sites (proved in unit
    `getitem`)."""
    (index,) = args
    v = view_of(eng, self_val)
    if not isinstance(index, SliceVal) or index.step is not None:
        raise PyRaise("TypeError", ())
    for x in (index.start, index.stop):
        if x is not None and not (is_int(x) and not isinstance(x, bool)):
            raise PyRaise("TypeError", ())
    lo, hi, cnt, dspec = slice_spec(v, index.start, index.stop, eng)
    nv = RV.__new__(RV)
    nv.sr, nv.sw, nv.ch, nv.bps = v.sr, v.sw, v.ch, v.bps
    nv.ns = cnt
    nv.data = dspec
    nv.start = None
    return region_obj(eng, nv)


def unit_getitem(sess, ctx):
    """AudioRegion.__getitem__ (+ _check_convert_index inlined)."""
    u = Unit("AudioRegion.__getitem__", [QR + "__getitem__", QC + "_check_convert_index"])
    eng = setup(sess, [QC + "_check_convert_index"])
    fi = ctx.fi(QR + "__getitem__")

    def run_(eng):
        v = RV("r")
        eng.assume(v.wf(eng))
        me = region_obj(eng, v)
        shape = eng.choose(3, None, "index shape")   # 0 slice without step, 1 slice with step, 2 not a slice
        if shape == 2:
            index = Int("idx")
            a = b = None
            ka = kb = "int"
        else:
            a, ka = bound_kinds(eng, "start")
            b, kb = bound_kinds(eng, "stop")
            index = SliceVal(a, b, None if shape == 0 else Int("step"))
        bad = shape != 0 or ka in ("float", "other") or kb in ("float", "other")
        eng.current_fn = fi
        try:
            res = eng.run_function(fi, [index], {}, me)
        except PyRaise as e:
            if e.exc == "TypeError":
                eng.prove("C16:getitem:TypeError-only-for-step-or-wrong-type", bad, props=("C16",))
            else:
                eng.prove("C16:getitem:unexpected-%s" % e.exc, False, props=("C16",))
            return None
        eng.prove("C16:getitem:accepted-index-is-a-plain-int-slice", not bad, props=("C16",))
        if bad:
            return None
        lo, hi, cnt, dspec = slice_spec(v, a, b, eng)
        h = expect_region(eng, res, v, dspec, "C16:getitem", ("C16", "C17"))
        eng.prove("C16:getitem:whole-samples", I(h["data"].n) == imul(cnt, v.bps), props=("C16",))
        eng.prove("C16:getitem:operand-unchanged", eng.st.heap[me.oid]["data"] is v.data and
                  not any(o == me.oid for (o, _) in eng.st.ghost.get("written", set())), props=("C16", "C17"))
        return None
    sess.run_unit(u, eng, run_)
    return u


def unit_len(sess, ctx):
    u = Unit("AudioRegion.__len__/len, _MillisView.__len__, view.len", [QR + "__len__", QR + "len", QC + "_MillisView.__len__",
                                                                         QC + "_SecondsView.len", QC + "_MillisView.len"])
    eng = setup(sess, [QR + "__len__"])

    def run_(eng):
        v = RV("r")
        eng.assume(v.wf(eng))
        me = region_obj(eng, v)
        which = eng.choose(5, None, "len / .len / millis len / seconds .len / millis .len")
        if which >= 3:
            # the `len` of the two time views: the duration in seconds, resp. the rounded duration in milliseconds
            eng.inline |= {QC + "_SecondsView.len", QC + "_MillisView.len", QC + "_MillisView.__len__"}
            dur = eng.st.heap[me.oid]["duration"]
            if which == 3:
                res = eng.getattr(eng.st.heap[me.oid]["_seconds_view"], "len")
                eng.prove("C16:seconds-view-len-is-the-duration", res is dur or (isinstance(res, Fl) and z3.eq(res.t, dur.t)), props=("C16",))
            else:
                res = eng.getattr(eng.st.heap[me.oid]["_millis_view"], "len")
                eng.prove("C16:millis-view-len-is-rounded-duration-in-ms",
                          I(res) == r_round_half_even(eng.spec_mul(dur, 1000)) if is_int(res) else False, props=("C16",))
            return None
        if which == 0:
            res = eng.run_function(ctx.fi(QR + "__len__"), [], {}, me)
            eng.prove("C16:len-is-the-sample-count", I(res) == v.ns if is_int(res) else False, props=("C16",))
        elif which == 1:
            res = eng.run_function(ctx.fi(QR + "len"), [], {}, me)
            eng.prove("C16:len-property-is-the-sample-count", I(res) == v.ns if is_int(res) else False, props=("C16",))
        else:
            mv = eng.st.heap[me.oid]["_millis_view"]
            res = eng.run_function(ctx.fi(QC + "_MillisView.__len__"), [], {}, mv)
            dur = eng.st.heap[me.oid]["duration"]
            eng.prove("C16:millis-len-is-rounded-duration-in-ms",
                      I(res) == r_round_half_even(eng.spec_mul(dur, 1000)) if is_int(res) else False, props=("C16",))
        return None
    sess.run_unit(u, eng, run_)
    return u


def seconds_getitem_contract(eng, fi_, self_val, args, kwargs):
    """Contract of _SecondsView.__getitem__ for callers (the millis view)."""
    (index,) = args
    reg = eng.st.heap[self_val.oid]["_region"]
    v = view_of(eng, reg)
    if not isinstance(index, SliceVal) or index.step is not None:
        raise PyRaise("TypeError", ())
    for x in (index.start, index.stop):
        if x is not None and not (is_int(x) or isinstance(x, Fl)) or isinstance(x, bool):
            raise PyRaise("TypeError", ())
    a, b = sec_bounds(v, index.start, index.stop, eng)
    return getitem_contract(eng, None, reg, [SliceVal(a, b, None)], {})


def sec_bounds(v, a, b, eng):
    """Sample bounds of a seconds slice: start truncated toward zero, stop
    rounded to nearest (half to even)."""
    if a is None:
        sa = 0
    elif isinstance(a, Fl):
        sa = r_trunc(eng.spec_mul(a, v.sr))
    else:
        sa = I(a) * v.sr
    if b is None:
        sb = None
    elif isinstance(b, Fl):
        sb = r_round_half_even(eng.spec_mul(b, v.sr))
    else:
        sb = I(b) * v.sr
    return sa, sb


def unit_seconds(sess, ctx):
    """_SecondsView.__getitem__: region[int(a*sr) : round(b*sr)] via the
    __getitem__ contract; bounds within one sample period."""
    u = Unit("_SecondsView.__getitem__", [QC + "_SecondsView.__getitem__", QC + "_check_convert_index"])
    eng = setup(sess, [QC + "_check_convert_index"])
    eng.contracts[QR + "__getitem__"] = getitem_contract
    fi = ctx.fi(QC + "_SecondsView.__getitem__")

    def run_(eng):
        v = RV("r")
        eng.assume(v.wf(eng))
        me = region_obj(eng, v)
        sv = eng.st.heap[me.oid]["_seconds_view"]
        shape = eng.choose(3, None, "index shape")
        if shape == 2:
            index, a, b, ka, kb = Int("idx"), None, None, "int", "int"
        else:
            a, ka = bound_kinds(eng, "start")
            b, kb = bound_kinds(eng, "stop")
            index = SliceVal(a, b, None if shape == 0 else Int("step"))
        bad = shape != 0 or ka == "other" or kb == "other"
        eng.current_fn = fi
        try:
            res = eng.run_function(fi, [index], {}, sv)
        except PyRaise as e:
            if e.exc == "TypeError":
                eng.prove("C16:seconds:TypeError-only-for-step-or-wrong-type", bad, props=("C16",))
            else:
                eng.prove("C16:seconds:unexpected-%s" % e.exc, False, props=("C16",))
            return None
        eng.prove("C16:seconds:accepted-index-is-a-numeric-slice", not bad, props=("C16",))
        if bad:
            return None
        sa, sb = sec_bounds(v, a, b, eng)
        lo, hi, cnt, dspec = slice_spec(v, sa, sb, eng)
        expect_region(eng, res, v, dspec, "C16:seconds", ("C16",))
        # each bound within one sample period of the requested instant
        if a is not None:
            xa = Real("exact.a*rate")
            eng.assume(xa == R(a) * R(v.sr))
            eng.prove("C16:seconds:start-within-one-sample-toward-zero",
                      Implies(And(xa <= 2 ** 53, xa >= -(2 ** 53)), And(R(sa) - xa < 1, xa - R(sa) < 1)),
                      props=("C16",))
            pa = eng.spec_mul(a, v.sr)
            eng.prove("C16:seconds:start-truncated-toward-zero(of-the-float-product)",
                      And(Implies(pa >= 0, And(R(sa) <= pa, pa - R(sa) < 1)), Implies(pa <= 0, And(R(sa) >= pa, R(sa) - pa < 1))),
                      props=("C16",))
        if b is not None:
            xb = Real("exact.b*rate")
            eng.assume(xb == R(b) * R(v.sr))
            d = R(sb) - xb
            # the float product lies between floor and ceil of the exact one (DESIGN 2.4), so the rounded bound is
            # within one sample period of the requested instant (instants up to 2**53 samples)
            eng.prove("C16:seconds:stop-within-one-sample-period",
                      Implies(And(xb <= 2 ** 53, xb >= -(2 ** 53)), And(d <= 1, d >= -1)), props=("C16",))
            dp = R(sb) - eng.spec_mul(b, v.sr)
            eng.prove("C16:seconds:stop-rounded-to-nearest(of-the-float-product)", And(dp * 2 <= 1, dp * 2 >= -1), props=("C16",))
        return None
    sess.run_unit(u, eng, run_)
    return u


def unit_millis(sess, ctx):
    """_MillisView.__getitem__ == seconds view at t/1000 (int bounds only)."""
    u = Unit("_MillisView.__getitem__", [QC + "_MillisView.__getitem__", QC + "_check_convert_index"])
    eng = setup(sess, [QC + "_check_convert_index"])
    eng.contracts[QC + "_SecondsView.__getitem__"] = seconds_getitem_contract
    fi = ctx.fi(QC + "_MillisView.__getitem__")

    def run_(eng):
        v = RV("r")
        eng.assume(v.wf(eng))
        me = region_obj(eng, v)
        mv = eng.st.heap[me.oid]["_millis_view"]
        shape = eng.choose(3, None, "index shape")
        if shape == 2:
            index, a, b, ka, kb = Int("idx"), None, None, "int", "int"
        else:
            a, ka = bound_kinds(eng, "start")
            b, kb = bound_kinds(eng, "stop")
            index = SliceVal(a, b, None if shape == 0 else Int("step"))
        bad = shape != 0 or ka in ("float", "other") or kb in ("float", "other")
        eng.current_fn = fi
        try:
            res = eng.run_function(fi, [index], {}, mv)
        except PyRaise as e:
            if e.exc == "TypeError":
                eng.prove("C16:millis:TypeError-only-for-step-or-wrong-type", bad, props=("C16",))
            else:
                eng.prove("C16:millis:unexpected-%s" % e.exc, False, props=("C16",))
            return None
        eng.prove("C16:millis:accepted-index-is-a-plain-int-slice", not bad, props=("C16",))
        if bad:
            return None
        fa = None if a is None else Fl(eng.spec_div(a, 1000))
        fb = None if b is None else Fl(eng.spec_div(b, 1000))
        if a is None:
            fa = Fl(eng.spec_div(0, 1000))
        sa, sb = sec_bounds(v, fa, fb, eng)
        lo, hi, cnt, dspec = slice_spec(v, sa, sb, eng)
        expect_region(eng, res, v, dspec, "C16:millis-equals-seconds-at-t/1000", ("C16",))
        return None
    sess.run_unit(u, eng, run_)
    return u


def unit_meta(sess, ctx):
    """_AudioRegionMetadata: attribute access reads / writes the dict entries."""
    u = Unit("_AudioRegionMetadata.__getattr__/__setattr__", [QC + "_AudioRegionMetadata.__getattr__", QC + "_AudioRegionMetadata.__setattr__"])
    eng = setup(sess)

    def run_(eng):
        a, b = Fl(Real("start")), Fl(Real("end"))
        me = DictVal({"start": (True, a), "end": (True, b)})
        k = eng.choose(4, None, "operation")
        if k < 2:
            nm = ["start", "end"][k]
            r = eng.run_function(ctx.fi(QC + "_AudioRegionMetadata.__getattr__"), [nm], {}, me)
            eng.prove("C12:meta:attribute-%s-reads-the-entry" % nm, r is (a if k == 0 else b), props=("C05", "C12", "C15"))
        elif k == 2:
            try:
                eng.run_function(ctx.fi(QC + "_AudioRegionMetadata.__getattr__"), ["nope"], {}, me)
            except PyRaise as e:
                eng.prove("C12:meta:unknown-attribute-raises-AttributeError", e.exc == "AttributeError", props=("C05",))
                return None
            eng.prove("C12:meta:unknown-attribute-raises-AttributeError", False, props=("C05",))
        else:
            t = Opq(tag="time")
            eng.run_function(ctx.fi(QC + "_AudioRegionMetadata.__setattr__"), ["timestamp", t], {}, me)
            eng.prove("C12:meta:setting-an-attribute-adds-the-entry-and-keeps-the-others",
                      me.entries.get("timestamp") == (True, t) and me.entries["start"] == (True, a) and me.entries["end"] == (True, b),
                      props=("C05", "C12", "C15"))
        return None
    sess.run_unit(u, eng, run_)
    return u


UNITS = {
    "meta": lambda sess, ctx, opts: unit_meta(sess, ctx),
    "post_init": lambda sess, ctx, opts: unit_post_init(sess, ctx),
    "getitem": lambda sess, ctx, opts: unit_getitem(sess, ctx),
    "len": lambda sess, ctx, opts: unit_len(sess, ctx),
    "seconds": lambda sess, ctx, opts: unit_seconds(sess, ctx),
    "millis": lambda sess, ctx, opts: unit_millis(sess, ctx),
}


# ===========================================================================
# C17: region algebra

P17 = ("C17",)


def other_region(eng, v, label="other"):
    """A second region: either with exactly self's audio parameters (same
    terms) or differing in at least one of them -- a complete case split."""
    same = eng.choose(2, None, label + " parameters same/different") == 0
    o = RV(label)
    if same:
        o.sr, o.sw, o.ch = v.sr, v.sw, v.ch
        o.bps = v.bps
        d = fresh_seq("bytes", label + ".data")
        o.data = Seq("bytes", o.ns * o.sw * o.ch, d.at)
        eng.assume(o.ns >= 0)
        eng.note_product(o.ns, o.bps, o.ns * o.sw * o.ch, one_way=True)
    else:
        eng.assume(o.wf(eng))
        eng.assume(Or(o.sr != v.sr, o.sw != v.sw, o.ch != v.ch))
    return o, same


def operands_untouched(eng, refs, where):
    w = eng.st.ghost.get("written", set())
    eng.prove(where + ":operands-not-modified", not any(o == r.oid for (o, _) in w for r in refs), props=P17)


def unit_add(sess, ctx):
    """__add__ (+ _check_other_parameters inlined), __radd__."""
    u = Unit("AudioRegion.__add__/__radd__", [QR + "__add__", QR + "__radd__", QR + "_check_other_parameters"])
    eng = setup(sess, [QR + "_check_other_parameters"])

    def run_(eng):
        v = RV("a")
        eng.assume(v.wf(eng))
        me = region_obj(eng, v)
        which = eng.choose(3, None, "add region / add non-region / radd 0")
        if which == 2:
            res = eng.run_function(ctx.fi(QR + "__radd__"), [0], {}, me)
            eng.prove("C17:radd:0+region-is-the-region-itself(sum)", res == me, props=P17)
            return None
        if which == 1:
            try:
                eng.run_function(ctx.fi(QR + "__add__"), [Int("k")], {}, me)
            except PyRaise as e:
                eng.prove("C17:add:non-region-operand-raises-TypeError", e.exc == "TypeError", props=P17)
                return None
            eng.prove("C17:add:non-region-operand-raises-TypeError", False, props=P17)
            return None
        o, same = other_region(eng, v)
        oth = region_obj(eng, o)
        eng.st.ghost["written"] = set()
        try:
            res = eng.run_function(ctx.fi(QR + "__add__"), [oth], {}, me)
        except PyRaise as e:
            eng.prove("C17:add:error-only-for-parameter-mismatch", (not same) and e.exc == "AudioParameterError", props=P17)
            operands_untouched(eng, [me, oth], "C17:add")
            return None
        eng.prove("C17:add:parameter-mismatch-raises-instead-of-producing-data", same, props=P17)
        if not same:
            return None
        expect_region(eng, res, v, seq_concat(v.data, o.data), "C17:add", P17)
        operands_untouched(eng, [me, oth], "C17:add")
        return None
    sess.run_unit(u, eng, run_)
    return u


def unit_mul(sess, ctx):
    """__mul__ / __rmul__."""
    u = Unit("AudioRegion.__mul__/__rmul__", [QR + "__mul__", QR + "__rmul__"])
    eng = setup(sess, [QR + "__mul__"])

    def run_(eng):
        from pyvc.values import seq_repeat
        v = RV("a")
        eng.assume(v.wf(eng))
        me = region_obj(eng, v)
        fn = QR + ("__mul__" if eng.choose(2, None, "mul/rmul") == 0 else "__rmul__")
        k = eng.choose(3, None, "multiplier kind")
        n = Int("n") if k == 0 else (Fl(Real("x")) if k == 1 else "3")
        eng.st.ghost["written"] = set()
        try:
            res = eng.run_function(ctx.fi(fn), [n], {}, me)
        except PyRaise as e:
            eng.prove("C17:mul:TypeError-only-for-non-int", k != 0 and e.exc == "TypeError", props=P17)
            return None
        eng.prove("C17:mul:non-int-multiplier-rejected", k == 0, props=P17)
        if k != 0:
            return None
        expect_region(eng, res, v, seq_repeat(v.data, n), "C17:mul", P17)
        operands_untouched(eng, [me], "C17:mul")
        return None
    sess.run_unit(u, eng, run_)
    return u


def unit_eq(sess, ctx):
    """__eq__: equal iff bytes and the three audio parameters are equal."""
    u = Unit("AudioRegion.__eq__", [QR + "__eq__"])
    eng = setup(sess, [])

    def run_(eng):
        v = RV("a")
        eng.assume(v.wf(eng))
        me = region_obj(eng, v)
        k = eng.choose(3, None, "other: self / region / non-region")
        if k == 0:
            res = eng.run_function(ctx.fi(QR + "__eq__"), [me], {}, me)
            eng.prove("C17:eq:reflexive", res is True, props=P17)
            return None
        if k == 2:
            res = eng.run_function(ctx.fi(QR + "__eq__"), [Int("k")], {}, me)
            eng.prove("C17:eq:non-region-is-unequal", res is False, props=P17)
            return None
        o = RV("b")
        eng.assume(o.wf(eng))
        oth = region_obj(eng, o)
        res = eng.truth(eng.run_function(ctx.fi(QR + "__eq__"), [oth], {}, me))
        kk = Int("kk")
        for (e, a, b) in eng.st.ghost.get("seq_eqs", []):
            ea, eb = a.at(kk), b.at(kk)
            eng.assume(Implies(And(e, kk >= 0, kk < I(a.n)), I(ea) == I(eb)))
        params = And(v.sr == o.sr, v.sw == o.sw, v.ch == o.ch)
        same_bytes_at_kk = And(I(v.data.n) == I(o.data.n),
                               Implies(And(kk >= 0, kk < I(v.data.n)), I(v.data.at(kk)) == I(o.data.at(kk))))
        eng.prove("C17:eq:equal-regions-have-equal-bytes-and-parameters",
                  Implies(B(res), And(params, same_bytes_at_kk)), props=P17)
        # converse: if unequal, then a parameter, the length, or some byte differs
        wit = [w for w in []]
        diffs = []
        for h in eng.st.pc:
            pass
        ws = Int("w")
        some_byte_differs = z3.Exists([ws], And(ws >= 0, ws < I(v.data.n), I(v.data.at(ws)) != I(o.data.at(ws))))
        eng.prove("C17:eq:unequal-regions-differ-somewhere",
                  Implies(Not(B(res)), Or(Not(params), I(v.data.n) != I(o.data.n), some_byte_differs)), props=P17)
        return None
    sess.run_unit(u, eng, run_)
    return u


def unit_make_silence(sess, ctx):
    """make_silence(d, sr, sw, ch): round(d*sr) all-zero samples."""
    u = Unit("make_silence", [QC + "make_silence"])
    eng = setup(sess, [])

    def run_(eng):
        sr, sw, ch = Int("sr"), Int("sw"), Int("ch")
        eng.assume(And(sr >= 1, sw >= 1, ch >= 1))
        eng.note_product(sw, ch, sw * ch)
        k = eng.choose(2, None, "duration kind")
        d = Fl(Real("d")) if k == 0 else Int("d")
        eng.assume(R(d) >= 0)
        res = eng.run_function(ctx.fi(QC + "make_silence"), [d, sr, sw, ch], {})
        ok = isinstance(res, Ref) and res.cls == "AudioRegion"
        eng.prove("C17:make_silence:returns-a-region", ok, props=("C17", "C13"))
        if not ok:
            return None
        h = eng.st.heap[res.oid]
        ns = r_round_half_even(eng.spec_mul(d, sr))
        eng.prove("C17:make_silence:round(d*rate)-samples", I(h["data"].n) == imul(imul(ns, sw), ch), props=("C17", "C13"))
        j = Int("j")
        eng.prove("C17:make_silence:all-bytes-zero", Implies(And(j >= 0, j < I(h["data"].n)), I(h["data"].at(j)) == 0),
                  props=("C17", "C13"))
        eng.prove("C17:make_silence:parameters", And(I(h["sampling_rate"]) == sr, I(h["sample_width"]) == sw,
                                                      I(h["channels"]) == ch), props=("C17", "C13"))
        return None
    sess.run_unit(u, eng, run_)
    return u


def unit_truediv(sess, ctx):
    """__truediv__: loop invariant  onset == s(i), rest == max(r0-i,0),
    sub_regions[j] == self[s(j):s(j+1)]  with s(j) = j*q + min(j, r0)."""
    u = Unit("AudioRegion.__truediv__", [QR + "__truediv__", QR + "__len__"])
    eng = setup(sess, [QR + "__len__"])
    eng.contracts[QR + "__getitem__"] = getitem_contract
    fi = ctx.fi(QR + "__truediv__")

    def s_of(j, q, r0):
        return imul(j, q) + If(j <= r0, j, r0)

    class Loop:
        def run_while(self, eng, s, fr):
            gh = eng.st.ghost
            v, n = gh["v"], gh["n"]
            q, r0 = fr.env.get("samples_per_sub_region"), fr.env.get("rest")
            ok = is_int(q) and is_int(r0) and isinstance(fr.env.get("sub_regions"), Seq)
            eng.prove("C17:div:loop-entry-shapes", ok, props=P17)
            if not ok:
                raise PathEnd()
            q, r0 = I(q), I(r0)
            gh["q"], gh["r0"] = q, r0
            # divmod(len, n): len == q*n + r0, 0 <= r0 < n
            eng.prove("C17:div:divmod-of-length", And(v.ns == imul(q, n) + r0, r0 >= 0, r0 < n), props=P17)
            eng.prove("C17:div:loop-entry", And(I(fr.env["onset"]) == 0, I(fr.env["sub_regions"].n) == 0), props=P17)
            A = new_aid()
            k = eng.choose(2, None, "iteration / exit")
            i = Int("i")
            gh["i"] = i
            eng.assume(And(i >= 0, i <= n))
            onset = s_of(i, q, r0)
            eng.assume(onset <= v.ns)
            eng.assume(Implies(i > 0, s_of(i - 1, q, r0) < v.ns))      # the guard held before the last piece
            rest = If(r0 - i > 0, r0 - i, 0)

            def piece(j):
                lo, hi, cnt, dspec = slice_spec(v, s_of(I(j), q, r0), s_of(I(j) + 1, q, r0), eng)
                nv = RV.__new__(RV)
                nv.sr, nv.sw, nv.ch, nv.bps, nv.ns, nv.data, nv.start = v.sr, v.sw, v.ch, v.bps, cnt, dspec, None
                return region_obj(eng, nv)
            eng.havoc_loop_locals(s, fr)
            fr.env["onset"] = onset
            fr.env["rest"] = rest
            fr.env["sub_regions"] = Seq("list", i, piece, A)
            cond = eng.truth(eng.eval(s.test, fr))
            if k == 1:
                eng.assume(Not(B(cond)))
                gh["exit_i"] = i
                return
            eng.assume(B(cond))
            try:
                eng.exec_block(s.body, fr)
            except (_Break, _Continue):
                eng.prove("C17:div:no-break-or-continue", False, props=P17)
                raise PathEnd()
            sub = fr.env.get("sub_regions")
            ok = isinstance(sub, Seq) and sub.aid == A and is_int(fr.env.get("onset")) and is_int(fr.env.get("rest"))
            eng.prove("C17:div:loop-body-shapes", ok, props=P17)
            if not ok:
                raise PathEnd()
            eng.prove("C17:div:inv:i-stays-below-n", i + 1 <= n, props=P17)
            eng.prove("C17:div:inv:onset", I(fr.env["onset"]) == s_of(i + 1, q, r0), props=P17)
            eng.prove("C17:div:inv:onset-in-range", I(fr.env["onset"]) <= v.ns, props=P17)
            eng.prove("C17:div:inv:rest", I(fr.env["rest"]) == If(r0 - (i + 1) > 0, r0 - (i + 1), 0), props=P17)
            eng.prove("C17:div:inv:one-piece-appended", I(sub.n) == i + 1, props=P17)
            eng.prove("C17:div:terminates(onset-increases)", I(fr.env["onset"]) > onset, props=P17)
            new = sub.at(i)
            okp = isinstance(new, Ref) and new.cls == "AudioRegion"
            eng.prove("C17:div:appended-piece-is-a-region", okp, props=P17)
            if okp:
                lo, hi, cnt, dspec = slice_spec(v, s_of(i, q, r0), s_of(i + 1, q, r0), eng)
                expect_region(eng, new, v, dspec, "C17:div:piece-i-is-self[s(i):s(i+1)]", P17)
            raise PathEnd()
    eng.loop_specs = {(fi.qualname, 0): Loop()}

    def run_(eng):
        v = RV("a")
        eng.assume(v.wf(eng))
        me = region_obj(eng, v)
        k = eng.choose(4, None, "divisor kind")
        n = Int("n")
        if k == 0:
            eng.assume(n > 0)
            arg = n
        elif k == 1:
            eng.assume(n <= 0)
            arg = n
        elif k == 2:
            arg = Fl(Real("x"))
        else:
            arg = "2"
        eng.st.ghost.update({"v": v, "n": n})
        eng.st.ghost["written"] = set()
        eng.current_fn = fi
        try:
            res = eng.run_function(fi, [arg], {}, me)
        except PyRaise as e:
            eng.prove("C17:div:TypeError-only-for-non-positive-int", k != 0 and e.exc == "TypeError", props=P17)
            return None
        eng.prove("C17:div:bad-divisor-rejected", k == 0, props=P17)
        if k != 0:
            return None
        gh = eng.st.ghost
        ok = isinstance(res, Seq) and res.kind == "list" and "exit_i" in gh
        eng.prove("C17:div:returns-the-list-of-pieces", ok, props=P17)
        if not ok:
            return None
        i, q, r0 = gh["exit_i"], gh["q"], gh["r0"]
        cnt = I(res.n)
        eng.prove("C17:div:result-is-the-loop-list", cnt == i, props=P17)
        # at loop exit: onset >= len, with the invariant: the pieces tile [0, len)
        eng.prove("C17:div:pieces-cover-the-whole-region", s_of(i, q, r0) == v.ns, props=P17)
        eng.prove("C17:div:number-of-pieces-is-min(n,len)",
                  Implies(v.ns > 0, cnt == If(n <= v.ns, n, v.ns)), props=P17)
        j = Int("jj")
        lenj = s_of(j + 1, q, r0) - s_of(j, q, r0)
        eng.assume(And(j >= 0, j < cnt))
        imul(j, q)
        imul(j + 1, q)
        eng.prove("C17:div:piece-lengths-differ-by-at-most-one", Or(lenj == q, lenj == q + 1), props=P17)
        eng.prove("C17:div:pieces-are-contiguous-from-0", s_of(IntVal(0), q, r0) == 0, props=P17)
        operands_untouched(eng, [me], "C17:div")
        return None
    sess.run_unit(u, eng, run_)
    return u


def unit_concat_lemma(sess, ctx):
    """Telescoping lemma used by C17 (division) and C05: for a byte sequence D,
    D[a:b] + D[b:c] == D[a:c] whenever 0 <= a <= b <= c <= len(D); by induction
    the concatenation of contiguous pieces covering [0, len) is D itself."""
    u = Unit("lemma(concat-of-contiguous-slices)", [], kind="lemma")
    eng = sess.engine()

    def run_(eng):
        D = fresh_seq("bytes", "D")
        a, b, c = Int("a"), Int("b"), Int("c")
        eng.assume(And(0 <= a, a <= b, b <= c, c <= I(D.n)))
        lhs = seq_concat(seq_slice(D, a, b), seq_slice(D, b, c))
        eng.prove("lemma:D[a:b]+D[b:c]==D[a:c]", v_eq_goal(lhs, seq_slice(D, a, c)), props=("C17", "C05", "C10"))
    sess.run_unit(u, eng, run_)
    return u


def unit_frozen(sess, ctx):
    """Structural obligations: AudioRegion is a frozen dataclass and no method
    under contract assigns to a field of self / other (object.__setattr__ only
    inside __post_init__)."""
    import ast
    u = Unit("AudioRegion(structure)", [], kind="lemma")
    eng = sess.engine()
    cls = sess.prog.classes.get("AudioRegion")

    def run_(eng):
        eng.prove("C17:structure:frozen-dataclass", cls is not None and any(
            d.replace(" ", "") == "dataclass(frozen=True)" for d in cls.decorators), props=P17)
        offenders = []
        for name, fi in list(cls.methods.items()) + [(k, v.get("get")) for k, v in cls.properties.items() if v.get("get")]:
            for node in ast.walk(fi.node):
                if isinstance(node, (ast.Assign, ast.AugAssign, ast.AnnAssign)):
                    tg = node.targets if isinstance(node, ast.Assign) else [node.target]
                    for t in tg:
                        for tt in ast.walk(t):
                            if isinstance(tt, ast.Attribute) and isinstance(tt.value, ast.Name) and tt.value.id in ("self", "other"):
                                offenders.append("%s:%d" % (name, node.lineno))
                if isinstance(node, ast.Call) and ast.unparse(node.func) in ("object.__setattr__", "setattr") and name != "__post_init__":
                    offenders.append("%s:%d" % (name, node.lineno))
        eng.prove("C17:structure:no-method-assigns-a-field-of-an-operand %s" % offenders, not offenders, props=P17)
        eng.prove("C17:structure:no-__setattr__-or-__delattr__-override", cls is not None and
                  "__setattr__" not in cls.methods and "__delattr__" not in cls.methods, props=P17)
    sess.run_unit(u, eng, run_)
    return u


UNITS.update({
    "add": lambda sess, ctx, opts: unit_add(sess, ctx),
    "mul": lambda sess, ctx, opts: unit_mul(sess, ctx),
    "eq": lambda sess, ctx, opts: unit_eq(sess, ctx),
    "make_silence": lambda sess, ctx, opts: unit_make_silence(sess, ctx),
    "truediv": lambda sess, ctx, opts: unit_truediv(sess, ctx),
    "concat_lemma": lambda sess, ctx, opts: unit_concat_lemma(sess, ctx),
    "frozen": lambda sess, ctx, opts: unit_frozen(sess, ctx),
})


# ---------------------------------------------------------------------------
# join: others is an abstract sequence of K regions (K symbolic)

class Others:
    """Abstract list of K regions; element j has view (osr(j), osw(j), och(j), data_j)."""

    def __init__(self, v):
        self.K = Int("K")
        self.osr = z3.Function("osr", IntS, IntS)
        self.osw = z3.Function("osw", IntS, IntS)
        self.och = z3.Function("och", IntS, IntS)
        self.ons = z3.Function("ons", IntS, IntS)
        self.obyte = z3.Function("obyte", IntS, IntS, IntS)
        self.v = v
        self.cache = {}

    def match(self, j):
        return And(self.osr(j) == self.v.sr, self.osw(j) == self.v.sw, self.och(j) == self.v.ch)

    def elem(self, eng, j):
        key = j.get_id() if z3.is_expr(j) else j
        if key in self.cache:
            return self.cache[key]
        o = RV.__new__(RV)
        o.sr, o.sw, o.ch, o.ns = self.osr(j), self.osw(j), self.och(j), self.ons(j)
        o.bps = o.sw * o.ch
        o.start = None
        o.data = Seq("bytes", o.ns * o.sw * o.ch, lambda t, j=j: self.obyte(j, I(t)))
        eng.assume(And(o.sr >= 1, o.sw >= 1, o.ch >= 1, o.ns >= 0))
        r = region_obj(eng, o)
        self.cache[key] = (r, o)
        return r, o


def unit_check_iter_others(sess, ctx):
    """_check_iter_others (generator; _check_other_parameters inlined): yields
    others[0], others[1], ... in order; raises AudioParameterError on reaching
    the first element whose parameters differ, before yielding it."""
    u = Unit("AudioRegion._check_iter_others", [QR + "_check_iter_others", QR + "_check_other_parameters"])
    eng = setup(sess, [QR + "_check_other_parameters"])
    fi = ctx.fi(QR + "_check_iter_others")

    class Loop:
        def run_for(self, eng, s, fr, it):
            gh = eng.st.ghost
            O = gh["O"]
            eng.prove("C17:join:checker-iterates-the-given-others", it is gh["others_ref"], props=P17)
            k = eng.choose(2, None, "iteration / exhausted")
            if k == 1:
                gh["exhausted"] = True
                return
            j = Int("j")
            eng.assume(And(j >= 0, j < O.K))
            el, ov = O.elem(eng, j)
            gh["j"], gh["el"], gh["yields"] = j, el, 0
            eng.havoc_loop_locals(s, fr)
            eng.assign(s.target, el, fr)
            try:
                eng.exec_block(s.body, fr)
            except PyRaise as e:
                eng.prove("C17:join:checker-raises-only-AudioParameterError-on-mismatch",
                          And(e.exc == "AudioParameterError", Not(O.match(j))), props=P17)
                raise PathEnd()
            except (_Break, _Continue):
                pass
            eng.prove("C17:join:checker-passes-only-matching-elements", O.match(j), props=P17)
            eng.prove("C17:join:checker-yields-each-element-once", gh["yields"] == 1, props=P17)
            raise PathEnd()
    eng.loop_specs = {(fi.qualname, 0): Loop()}

    def on_yield(eng, val, fr, node):
        gh = eng.st.ghost
        eng.prove("C17:join:checker-yields-the-element-itself", val == gh.get("el"), props=P17)
        gh["yields"] = gh.get("yields", 0) + 1
        return None
    eng.yield_hook = on_yield

    def run_(eng):
        v = RV("a")
        eng.assume(v.wf(eng))
        me = region_obj(eng, v)
        O = Others(v)
        eng.assume(O.K >= 0)
        others = eng.st.new_obj("AbstractRegionList", {})
        eng.st.ghost.update({"O": O, "others_ref": others})
        eng.current_fn = fi
        eng.run_function(fi, [others], {}, me)
        eng.prove("C17:join:checker-ends-only-when-exhausted", eng.st.ghost.get("exhausted", False), props=P17)
        return None
    sess.run_unit(u, eng, run_)
    return u


def unit_join(sess, ctx):
    """join(others): bytes.join of self.data over [o.data for o in others] through
    the checking generator; result has self's parameters."""
    u = Unit("AudioRegion.join", [QR + "join"])
    eng = setup(sess, [])
    fi = ctx.fi(QR + "join")

    def c_check_iter(eng, fi_, self_val, args, kwargs):
        gh = eng.st.ghost
        eng.prove("C17:join:checking-generator-over-the-given-others", len(args) == 1 and args[0] is gh["others_ref"]
                  and self_val == gh["me"], props=P17)
        G = GenVal("abstract", name="checked", next_fn=None)
        gh["G"] = G
        return G
    eng.contracts[QR + "_check_iter_others"] = c_check_iter

    def run_(eng):
        v = RV("a")
        eng.assume(v.wf(eng))
        me = region_obj(eng, v)
        O = Others(v)
        eng.assume(O.K >= 0)
        others = eng.st.new_obj("AbstractRegionList", {})
        gh = eng.st.ghost
        gh.update({"O": O, "others_ref": others, "me": me})

        def join_model(eng, sep, parts):
            eng.prove("C17:join:separator-is-this-region's-bytes", sep is v.data, props=P17)
            ok = isinstance(parts, GenVal) and parts.kind == "map" and parts.src is gh.get("G")
            eng.prove("C17:join:parts-come-from-the-checking-generator", ok, props=P17)
            if not ok:
                raise PathEnd()
            j = Int("j")
            eng.assume(And(j >= 0, j < O.K))
            el, ov = O.elem(eng, j)
            f2 = parts.frame
            eng.assign(parts.target, el, f2)
            val = eng.eval(parts.elt, f2)
            eng.prove("C17:join:j-th-part-is-the-j-th-region's-bytes", val is ov.data, props=P17)
            # bytes.join consumes the generator: either it raises (first mismatch), or all K parts are joined
            k = eng.choose(2, None, "generator completes / raises")
            kk = Int("kk")
            if k == 1:
                eng.assume(And(kk >= 0, kk < O.K, Not(O.match(kk))))
                raise PyRaise("AudioParameterError", ())
            gh["all_match"] = True
            js = Int("joined.nsamples")
            eng.assume(js >= 0)
            f = z3.Function("joined.at", IntS, IntS)
            J = Seq("bytes", js * v.sw * v.ch, lambda t: f(I(t)))
            gh["J"] = J
            return J
        gh["bytes_join_any"] = join_model
        gh["written"] = set()
        eng.current_fn = fi
        try:
            res = eng.run_function(fi, [others], {}, me)
        except PyRaise as e:
            eng.prove("C17:join:error-is-AudioParameterError-from-the-checker", e.exc == "AudioParameterError", props=P17)
            return None
        ok = isinstance(res, Ref) and res.cls == "AudioRegion" and "J" in gh
        eng.prove("C17:join:returns-a-region", ok, props=P17)
        if not ok:
            return None
        h = eng.st.heap[res.oid]
        eng.prove("C17:join:data-is-the-joined-bytes", h["data"] is gh["J"], props=P17)
        eng.prove("C17:join:parameters-are-this-region's",
                  And(I(h["sampling_rate"]) == v.sr, I(h["sample_width"]) == v.sw, I(h["channels"]) == v.ch), props=P17)
        operands_untouched(eng, [me], "C17:join")
        return None
    sess.run_unit(u, eng, run_)
    return u


UNITS.update({
    "check_iter_others": lambda sess, ctx, opts: unit_check_iter_others(sess, ctx),
    "join": lambda sess, ctx, opts: unit_join(sess, ctx),
})

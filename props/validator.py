"""Contracts for the energy validator  (C07; numpy-export clause of C18; validator
purity clause of C20).  numpy is a library model (pyvc/npmodel.py, assumed).

Spec (per row of samples x_0..x_{n-1}):   y = mean(x_i^2),
    en(y) = -200 if sqrt(y) < 1e-10 else 10*log10(y)      (floor for digital silence)
decode(data, sw, ch)[c][i] = signed little-endian value of bytes [(i*ch+c)*sw, +sw).
"""
import fractions
import z3
from z3 import And, Or, Not, Implies, If, Int, Bool, IntVal, Real, RealVal

from pyvc.engine import (PyRaise, PathEnd, Unsupported, LibCallable, Closure, PartialVal, BoundMethod, DictVal, Frame)
from pyvc.values import (imul, Seq, Opq, Ref, Fl, IntS, BoolS, I, B, R, fresh_name, ClassVal, is_int)
from pyvc.harness import Unit, CheckerError
from pyvc import npmodel as NP

QS = "auditok.signal."
QU = "auditok.util."
P7 = ("C07",)
EPS10 = fractions.Fraction(1e-10)
EPS10_Z3 = RealVal(EPS10.numerator) / RealVal(EPS10.denominator)


class Ctx:
    def __init__(self, sess):
        self.sess = sess

    def fi(self, q):
        return self.sess.func_info(q)


def make_ctx(sess):
    return Ctx(sess)


def setup(sess, inline=()):
    eng = sess.engine()
    facts = []
    NP.install(eng, facts)
    eng.np_facts = facts
    eng.inline |= set(inline)
    return eng


def sym_window(eng, sw, tag="win", mono=False):
    """A window of ns samples x ch channels of width sw (sw concrete)."""
    ns = Int(tag + ".nsamples")
    ch = IntVal(1) if mono else Int(tag + ".channels")
    eng.assume(And(ns >= 1, ch >= 1))
    f = z3.Function(fresh_name(tag + ".byte"), IntS, IntS)
    data = Seq("bytes", (ns * sw) if mono else (ns * ch * sw), lambda t: f(I(t)))
    if not mono:
        eng.note_product(ns, ch, ns * ch)
    return data, ns, ch


def decode_spec(data, sw, ch, ns):
    return NP.NpArr((ch, ns), lambda c, i: z3.ToReal(NP.sle(data, I(i) * ch + I(c), sw, True)), "spec.decode")


def sq(arr):
    return NP.NpArr(arr.shape, lambda *idx: arr.at(*idx) * arr.at(*idx), "sq")


def meansq_rows(arr):
    """y_j for every row j of a 2-d array (same reduction key the model uses)."""
    s = sq(arr)
    f = NP.reduce_fn("mean_cols", s.at(NP.BV1, NP.BV0), True, s.shape[1])
    return lambda j: f(I(j))


def meansq_1d(arr):
    s = sq(arr)
    return NP.reduce_fn("mean_all", s.at(NP.BV0), False, s.shape[0])


def mean_rows(arr):
    f = NP.reduce_fn("mean_rows", arr.at(NP.BV0, NP.BV1), True, arr.shape[0])
    return NP.NpArr((arr.shape[1],), lambda i: f(I(i)), "spec.mix")


def en_spec(y):
    return If(NP.SQRT(y) < EPS10_Z3, RealVal(-200), 10 * NP.LOG10(y))


def math_facts(eng, ys):
    """Instantiated axioms of sqrt / log10 (real-analysis facts, assumed)."""
    eng.assume(NP.LOG10(EPS10_Z3) == -10)
    for y in ys:
        s = NP.SQRT(y)
        eng.assume(Implies(y >= 0, And(s >= 0, (s > 0) == (y > 0))))
        eng.assume(Implies(y > 0, NP.LOG10(y) == 2 * NP.LOG10(s)))
    for f in getattr(eng, "np_facts", []):
        eng.assume(f)


def unit_to_array(sess, ctx):
    """to_array (+ _get_numpy_dtype): shape (channels, samples), element [c][i] is the
    signed little-endian value of channel c of sample i; ValueError for other widths."""
    u = Unit("signal.to_array", [QS + "to_array", QS + "_get_numpy_dtype"])
    eng = setup(sess, [QS + "_get_numpy_dtype"])

    def run_(eng):
        sw = [1, 2, 4, 3][eng.choose(4, None, "sample width")]
        data, ns, ch = sym_window(eng, sw)
        try:
            res = eng.run_function(ctx.fi(QS + "to_array"), [data, sw, ch], {})
        except PyRaise as e:
            eng.prove("C07:to_array:ValueError-only-for-unsupported-width", e.exc == "ValueError" and sw == 3, props=("C07", "C18"))
            return None
        eng.prove("C07:to_array:unsupported-width-rejected", sw != 3, props=("C07", "C18"))
        ok = isinstance(res, NP.NpArr) and res.ndim == 2
        eng.prove("C07:to_array:returns-a-2d-array", ok, props=("C07", "C18"))
        if not ok:
            return None
        eng.prove("C18:to_array:shape-is-(channels,samples)", And(I(res.shape[0]) == ch, I(res.shape[1]) == ns), props=("C07", "C18"))
        c, i = Int("c"), Int("i")
        spec = decode_spec(data, sw, ch, ns)
        eng.prove("C07:to_array:element[c][i]-is-the-signed-little-endian-sample",
                  Implies(And(c >= 0, c < ch, i >= 0, i < ns), res.at(c, i) == spec.at(c, i)), props=("C07", "C18"))
        return None
    sess.run_unit(u, eng, run_)
    return u


def unit_numpy_export(sess, ctx):
    u = Unit("AudioRegion.numpy/__array__", ["auditok.core.AudioRegion.numpy", "auditok.core.AudioRegion.__array__"])
    eng = sess.engine()
    eng.inline |= {"auditok.core.AudioRegion.numpy"}

    def run_(eng):
        calls = []
        eng.contracts[QS + "to_array"] = lambda e, f, sv, a, k: calls.append((tuple(a), dict(k))) or Opq(tag="array")
        d, sw, ch = Opq(tag="data"), Int("sw"), Int("ch")
        me = eng.st.new_obj("AudioRegion", {"data": d, "sample_width": sw, "channels": ch, "sampling_rate": Int("sr")})
        fn = ["auditok.core.AudioRegion.numpy", "auditok.core.AudioRegion.__array__"][eng.choose(2, None, "numpy/__array__")]
        eng.st.ghost["written"] = set()
        eng.st.ghost.setdefault("in_init", {})[me.oid] = False
        arr = Opq(tag="array")
        eng.contracts[QS + "to_array"] = lambda e, f, sv, a, k: calls.append((tuple(a), dict(k))) or arr
        try:
            res = eng.run_function(ctx.fi(fn), [], {}, me)
        except PyRaise as e:
            eng.prove("C18:numpy-export-raises-%s" % e.exc, False, props=("C18",))
            return None
        eng.prove("C18:numpy-export-is-to_array(data,width,channels)", calls == [((d, sw, ch), {})] and res is arr, props=("C18",))
        eng.prove("C18:numpy-export-keeps-no-state-in-the-region(a-fresh-array-every-time)",
                  not any(o == me.oid for (o, _) in eng.st.ghost.get("written", set())), props=("C18", "C17"))
        return None
    sess.run_unit(u, eng, run_)
    return u


def unit_energy(sess, ctx):
    """calculate_energy: per row 20*log10(clip(sqrt(mean(x^2)), 1e-10)) == en(mean(x^2));
    with an aggregation function the result is that function applied to the per-row energies."""
    u = Unit("signal.calculate_energy", [QS + "calculate_energy"])
    eng = setup(sess)

    def run_(eng):
        nd = eng.choose(2, None, "2-d / 1-d input")
        agg = eng.choose(2, None, "agg None / np.max")
        r, c = Int("rows"), Int("cols")
        eng.assume(And(r >= 1, c >= 1))
        if nd == 0:
            f = z3.Function("x2", IntS, IntS, z3.RealSort())
            x = NP.NpArr((r, c), lambda j, i: f(I(j), I(i)), "x")
        else:
            f = z3.Function("x1", IntS, z3.RealSort())
            x = NP.NpArr((c,), lambda i: f(I(i)), "x")
        aggf = None if agg == 0 else LibCallable("numpy.max", eng.lib["numpy.max"])
        res = eng.run_function(ctx.fi(QS + "calculate_energy"), [x, aggf], {})
        j = Int("j")
        if nd == 0:
            y = meansq_rows(x)(j)
        else:
            y = meansq_1d(x)
        math_facts(eng, [y])
        eng.assume(y >= 0)       # a mean of squares
        ok = isinstance(res, NP.NpArr)
        eng.prove("C07:energy:returns-an-array", ok, props=P7)
        if not ok:
            return None
        if agg == 0:
            if nd == 0:
                eng.prove("C07:energy:one-value-per-channel", res.ndim == 1 and z3.is_true(z3.simplify(I(res.shape[0]) == r)), props=P7)
                val = res.at(j) if res.ndim == 1 else None
            else:
                eng.prove("C07:energy:scalar-for-one-row", res.ndim == 0, props=P7)
                val = res.at() if res.ndim == 0 else None
            eng.prove("C07:energy:is-10*log10(mean-square)-floored-at--200dB",
                      Implies(And(j >= 0, j < r), val == en_spec(y)) if val is not None else False, props=P7)
        else:
            # aggregated: np.max over the per-row energy array (same reduction key as the un-aggregated result)
            res0 = eng.run_function(ctx.fi(QS + "calculate_energy"), [x, None], {})
            if nd == 0:
                exp = NP.reduce_fn("max_all", res0.at(NP.BV0), False, res0.shape[0])
                eng.prove("C07:energy:aggregate-is-max-over-the-per-channel-energies",
                          res.ndim == 0 and res.at().eq(exp), props=P7)
            else:
                eng.prove("C07:energy:aggregate-of-a-scalar-is-the-scalar", res.ndim == 0 and res.at().eq(res0.at()), props=P7)
        return None
    sess.run_unit(u, eng, run_)
    return u


SEL_KINDS = ["None", "any", "mix", "avg", "average", "other-str", "int", "float"]


def unit_selector(sess, ctx):
    """make_channel_selector: which rows the selector hands to the energy computation."""
    u = Unit("util.make_channel_selector", [QU + "make_channel_selector", QS + "to_array", QS + "_get_numpy_dtype"])
    eng = setup(sess, [QS + "to_array", QS + "_get_numpy_dtype"])

    def run_(eng):
        sw = [1, 2, 4][eng.choose(3, None, "sample width")]
        mono = eng.choose(2, None, "mono?") == 0
        data, ns, ch = sym_window(eng, sw, mono=mono)
        if mono:
            chv = 1
        else:
            eng.assume(ch >= 2)
            chv = ch
        kind = SEL_KINDS[eng.choose(len(SEL_KINDS), None, "selection")]
        k = Int("k")
        sel = {"None": None, "any": "any", "mix": "mix", "avg": "avg", "average": "average", "other-str": "left",
               "int": k, "float": Fl(Real("kf"))}[kind]
        try:
            selector = eng.run_function(ctx.fi(QU + "make_channel_selector"), [sw, chv, sel], {})
        except PyRaise as e:
            bad = (not mono) and (kind in ("other-str", "float"))
            if kind == "int" and not mono:
                eng.prove("C07:selector:ValueError-iff-index-out-of-[-channels,channels)",
                          And(e.exc == "ValueError", Or(k < -ch, k >= ch)), props=P7)
            else:
                eng.prove("C07:selector:ValueError-only-for-unknown-selections", e.exc == "ValueError" and bad, props=P7)
            return None
        if not mono:
            eng.prove("C07:selector:unknown-selection-rejected", kind not in ("other-str", "float"), props=P7)
            if kind == "int":
                eng.prove("C07:selector:out-of-range-index-rejected", And(k >= -ch, k < ch), props=P7)
        # apply the selector to a window
        try:
            out = eng.call_value(selector, [data], {})
        except PyRaise as e:
            eng.prove("C07:selector:applying-it-raises-%s" % e.exc, False, props=P7)
            return None
        spec = decode_spec(data, sw, IntVal(1) if mono else ch, ns)
        c, i = Int("c"), Int("i")
        ok = isinstance(out, NP.NpArr)
        eng.prove("C07:selector:returns-an-array", ok, props=P7)
        if not ok:
            return None
        rng = And(c >= 0, c < ch, i >= 0, i < ns)
        if mono or kind in ("None", "any"):
            eng.prove("C07:selector:all-channels(mono-ignores-the-selection)",
                      And(out.ndim == 2, Implies(rng, out.at(c, i) == spec.at(c, i))) if out.ndim == 2 else False, props=P7)
        elif kind == "int":
            row = If(k < 0, k + ch, k)
            eng.prove("C07:selector:the-selected-channel(negative-from-the-last)",
                      Implies(And(i >= 0, i < ns), out.at(i) == spec.at(row, i)) if out.ndim == 1 else False, props=P7)
        else:
            # per-sample arithmetic mean over channels of the decoded rows
            dec = eng.run_function(ctx.fi(QS + "to_array"), [data, sw, ch], {})
            exp = mean_rows(dec)
            eng.prove("C07:selector:mix-is-the-per-sample-mean-of-the-channels",
                      out.ndim == 1 and out.at(i).eq(exp.at(i)), props=P7)
        return None
    sess.run_unit(u, eng, run_)
    return u


def unit_is_valid(sess, ctx):
    """AudioEnergyValidator.__init__ + is_valid: active exactly when E >= threshold,
    E = max over channels / energy of the mean row / energy of the selected row."""
    u = Unit("AudioEnergyValidator.__init__/is_valid",
             [QU + "AudioEnergyValidator.__init__", QU + "AudioEnergyValidator.is_valid", QU + "make_channel_selector",
              QS + "calculate_energy", QS + "to_array", QS + "_get_numpy_dtype"])
    eng = setup(sess, [QU + "make_channel_selector", QS + "calculate_energy", QS + "to_array", QS + "_get_numpy_dtype"])

    def run_(eng):
        sw = [1, 2, 4][eng.choose(3, None, "sample width")]
        mono = eng.choose(2, None, "mono?") == 0
        data, ns, ch = sym_window(eng, sw, mono=mono)
        if mono:
            chv = 1
        else:
            eng.assume(ch >= 2)
            chv = ch
        kind = ["None", "any", "mix", "avg", "average", "int"][eng.choose(6, None, "selection")]
        k = Int("k")
        sel = {"None": None, "any": "any", "mix": "mix", "avg": "avg", "average": "average", "int": k}[kind]
        neg = False
        if kind == "int" and not mono:
            eng.assume(And(k >= -ch, k < ch))
            neg = eng.decide(k < 0)       # case split so that the selected row is one syntactic term
        T = Fl(Real("threshold"))
        me = eng.st.new_obj("AudioEnergyValidator", {})
        eng.run_function(ctx.fi(QU + "AudioEnergyValidator.__init__"), [T, sw, chv], {"use_channel": sel}, me)
        eng.st.ghost["written"] = set()
        res = eng.run_function(ctx.fi(QU + "AudioEnergyValidator.is_valid"), [data], {}, me)
        verdict = eng.truth(res)
        spec = decode_spec(data, sw, IntVal(1) if mono else ch, ns)
        j = Int("j")
        ys = []
        if mono:
            y = meansq_rows(spec)(IntVal(0))
            ys.append(y)
            E_desc = ("row", y)
        elif kind in ("None", "any"):
            E_desc = ("max", None)
        elif kind == "int":
            row = (k + ch) if neg else k
            rw = NP.NpArr((ns,), lambda i: spec.at(row, i), "row")
            y = meansq_1d(rw)
            ys.append(y)
            E_desc = ("row", y)
        else:
            y = meansq_1d(mean_rows(spec))
            ys.append(y)
            E_desc = ("row", y)
        math_facts(eng, ys)
        for y in ys:
            eng.assume(y >= 0)
        eng.prove("C20:is_valid:assigns-no-field(pure)", not any(o == me.oid for (o, _) in eng.st.ghost.get("written", set())),
                  props=("C07", "C20"))
        if E_desc[0] == "row":
            E = en_spec(E_desc[1])
            eng.prove("C07:is_valid:active-exactly-when-energy>=threshold", B(verdict) == (E >= T.t), props=P7)
        else:
            # maximum over channels of the per-channel energies: the code's np.max over the array whose j-th
            # element is (proved in unit energy to equal) en(mean-square of channel j)
            dec = eng.run_function(ctx.fi(QS + "to_array"), [data, sw, ch], {})
            per = eng.run_function(ctx.fi(QS + "calculate_energy"), [dec, None], {})
            mx = NP.reduce_fn("max_all", per.at(NP.BV0), False, per.shape[0])
            eng.prove("C07:is_valid:active-exactly-when-max-channel-energy>=threshold", B(verdict) == (mx >= T.t), props=P7)
            yj = meansq_rows(spec)(j)
            math_facts(eng, [yj])
            eng.assume(yj >= 0)
            eng.prove("C07:is_valid:per-channel-energy-is-the-spec-energy-of-the-decoded-channel",
                      Implies(And(j >= 0, j < ch), per.at(j) == en_spec(yj)), props=P7)
        return None
    sess.run_unit(u, eng, run_)
    return u


def unit_monotone(sess, ctx):
    """Corollary: the energy does not depend on the threshold, so raising the
    threshold can only turn active windows inactive."""
    u = Unit("lemma(threshold-monotonicity)", [], kind="lemma")
    eng = sess.engine()

    def run_(eng):
        E, T1, T2 = Real("E"), Real("T1"), Real("T2")
        eng.assume(T2 >= T1)
        eng.prove("C07:lemma:active-at-higher-threshold-implies-active-at-lower", Implies(E >= T2, E >= T1), props=P7)
    sess.run_unit(u, eng, run_)
    return u


UNITS = {
    "to_array": lambda sess, ctx, opts: unit_to_array(sess, ctx),
    "numpy_export": lambda sess, ctx, opts: unit_numpy_export(sess, ctx),
    "energy": lambda sess, ctx, opts: unit_energy(sess, ctx),
    "selector": lambda sess, ctx, opts: unit_selector(sess, ctx),
    "is_valid": lambda sess, ctx, opts: unit_is_valid(sess, ctx),
    "monotone": lambda sess, ctx, opts: unit_monotone(sess, ctx),
}

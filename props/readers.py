"""Contracts for the AudioReader wrappers of auditok.util  (C10, C19).

Every wrapper is verified against the *interface contract* of the source it
wraps (the C11 contract: read(k) hands out the next min(k, remaining) samples
of `audio`, None when nothing remains; rewind() returns to the start), and is
shown to implement that same contract for its own view:
   _Recorder  same audio, plus ghost: concat(_cache) == audio[:consumed]
   _Limiter   audio' = audio[: min(N, round(max_read*sr))]
   framing    block k = audio[k*hop : min(N, k*hop + block)]   (hop == block without overlap)
"""
import z3
from z3 import And, Or, Not, Implies, If, Int, Bool, IntVal, Real

from pyvc.engine import (PyRaise, PathEnd, Unsupported, LibCallable, GenVal, SliceVal, BoundMethod, DictVal,
                         new_aid, _Break, _Continue, IfaceMethod)
from pyvc.values import (imul, Seq, Opq, Ref, Fl, IntS, BoolS, I, B, R, fresh_name, v_eq_goal, ClassVal, fresh_seq,
                         is_int, r_trunc, r_round_half_even, seq_slice, seq_concat, seq_lit)
from pyvc.harness import Unit, CheckerError

QU = "auditok.util."
P10 = ("C10",)
P19 = ("C19",)
PB = ("C10", "C19")

PROXY_INLINE = [QU + "_AudioReadingProxy." + x for x in ("__getattr__", "__init__", "rewind", "open", "close", "is_open", "read")] + \
    [QU + "_FixedSizeAudioReader.__getattr__", QU + "_OverlapAudioReader.__getattr__"]


class Ctx:
    def __init__(self, sess):
        self.sess = sess

    def fi(self, q):
        return self.sess.func_info(q)


def make_ctx(sess):
    return Ctx(sess)


class IV:
    """View of an abstract inner source obeying the C11 interface contract."""

    def __init__(self, eng, tag="inner", rewindable=True):
        self.sr = Int(fresh_name(tag + ".sr"))
        self.sw = Int(fresh_name(tag + ".sw"))
        self.ch = Int(fresh_name(tag + ".ch"))
        self.N = Int(fresh_name(tag + ".nsamples"))
        self.pos = Int(fresh_name(tag + ".consumed"))
        self.open = Bool(fresh_name(tag + ".open"))
        self.bps = self.sw * self.ch
        f = z3.Function(fresh_name(tag + ".byte"), IntS, IntS)
        self.audio = Seq("bytes", self.N * self.sw * self.ch, lambda t: f(I(t)))
        eng.assume(And(self.sr >= 1, self.sw >= 1, self.ch >= 1, self.N >= 0, self.pos >= 0, self.pos <= self.N))
        eng.note_product(self.sw, self.ch, self.bps)
        eng.note_product(self.N, self.bps, self.N * self.sw * self.ch, one_way=True)
        eng.note_product(self.pos, self.bps, self.pos * self.sw * self.ch, one_way=True)
        self.reads = []       # sizes requested, in order
        self.rewinds = 0
        self.rewindable = rewindable
        self.data_attr = None


def chunk(v, lo, cnt):
    a = v.audio
    lb = imul(lo, v.bps)
    return Seq("bytes", imul(cnt, v.bps), lambda t: a.at(lb + I(t)))


def inner_obj(eng, v, cls="IAudioSource"):
    """An abstract source object; its methods follow the interface contract."""
    st = eng.st
    o = st.new_obj(cls, {"sr": v.sr, "sw": v.sw, "ch": v.ch, "sampling_rate": v.sr, "sample_width": v.sw,
                         "channels": v.ch})
    st.ghost.setdefault("isa", {})[o.oid] = {"AudioSource": True, "AudioReader": False}
    if v.data_attr is not None:
        st.heap[o.oid]["data"] = v.data_attr

    def i_read(eng, obj, args, kwargs):
        if len(args) != 1 or kwargs:
            raise PyRaise("TypeError", ("read() takes exactly one argument",))
        (size,) = args
        v.reads.append(size)
        if not eng.decide(v.open):
            raise PyRaise("AudioIOError", ())
        rem = v.N - v.pos
        if size is None:
            cnt = rem
        else:
            if not is_int(size):
                raise PyRaise("TypeError", ())
            size = I(size)
            cnt = If(size < 0, rem, If(size < rem, size, rem))
        if eng.decide(cnt == 0):
            return None
        d = chunk(v, v.pos, cnt)
        v.pos = v.pos + cnt
        return d

    def i_rewind(eng, obj, args, kwargs):
        if not v.rewindable:
            raise PyRaise("AttributeError", ("rewind",))
        v.pos = IntVal(0)
        v.rewinds += 1
        return None

    def i_open(eng, obj, args, kwargs):
        v.open = z3.BoolVal(True)
        return None

    def i_close(eng, obj, args, kwargs):
        v.open = z3.BoolVal(False)
        return None

    def i_is_open(eng, obj, args, kwargs):
        return v.open
    eng.iface[(cls, "read")] = i_read
    eng.iface[(cls, "rewind")] = i_rewind
    eng.iface[(cls, "open")] = i_open
    eng.iface[(cls, "close")] = i_close
    eng.iface[(cls, "is_open")] = i_is_open
    return o


def setup(sess, inline=()):
    eng = sess.engine()
    eng.inline |= set(inline) | set(PROXY_INLINE)
    return eng


def prove_next_chunk(eng, v_audio_view, res, pos0, cnt, where, props):
    """res is the chunk of `cnt` samples starting at sample pos0 (None iff cnt == 0)."""
    if res is None:
        eng.prove(where + ":None-only-when-nothing-remains", cnt == 0, props=props)
        return
    ok = isinstance(res, (Seq, bytes))
    eng.prove(where + ":returns-bytes", ok, props=props)
    if ok:
        eng.prove(where + ":block-is-the-next-samples", And(cnt > 0, v_eq_goal(res, chunk(v_audio_view, pos0, cnt))), props=props)


# ---------------------------------------------------------------------------
# _Limiter

def limiter_obj(eng, v, inner, max_samples, read_samples):
    return eng.st.new_obj("_Limiter", {"_audio_source": inner, "_max_read": Fl(Real("max_read")),
                                       "_max_samples": max_samples, "_bytes_per_sample": v.bps,
                                       "_read_samples": read_samples})


def unit_limiter(sess, ctx):
    u = Unit("_Limiter.__init__/read/rewind/data",
             [QU + "_Limiter.__init__", QU + "_Limiter.read", QU + "_Limiter.rewind", QU + "_Limiter.data"])
    eng = setup(sess)
    ops = ["init", "read", "rewind", "data"]

    def run_(eng):
        v = IV(eng)
        op = ops[eng.choose(4, None, "operation")]
        if op == "init":
            eng.assume(v.pos == 0)
            inner = inner_obj(eng, v)
            me = eng.st.new_obj("_Limiter", {})
            k = eng.choose(2, None, "max_read float/int")
            mr = Fl(Real("max_read")) if k == 0 else Int("max_read")
            eng.run_function(ctx.fi(QU + "_Limiter.__init__"), [inner, mr], {}, me)
            h = eng.st.heap[me.oid]
            eng.prove("C10:limiter-init:max_samples-is-round(max_read*rate)",
                      I(h["_max_samples"]) == r_round_half_even(eng.spec_mul(mr, v.sr)) if is_int(h.get("_max_samples")) else False,
                      props=("C10", "C09", "C19"))
            eng.prove("C10:limiter-init:nothing-read-yet", And(I(h["_read_samples"]) == 0, I(h["_bytes_per_sample"]) == v.bps),
                      props=P10)
            eng.prove("C10:limiter-init:wraps-the-given-source", h["_audio_source"] == inner, props=P10)
            return None
        ms = Int("max_samples")
        # representation invariant: what was read through the limiter is what the inner source handed out
        rs = v.pos
        eng.assume(rs <= ms)
        if op == "data":
            full = fresh_seq("bytes", "recorded")
            v.data_attr = full
        inner = inner_obj(eng, v)
        me = limiter_obj(eng, v, inner, ms, rs)
        h = eng.st.heap[me.oid]
        vis = If(ms < v.N, If(ms > 0, ms, 0), v.N)       # visible samples: min(N, max(max_samples, 0))
        if op == "read":
            size = Int("size")
            pos0 = v.pos
            try:
                res = eng.run_function(ctx.fi(QU + "_Limiter.read"), [size], {}, me)
            except PyRaise as e:
                eng.prove("C10:limiter-read:error-only-when-not-open", e.exc == "AudioIOError" and len(v.reads) == 1, props=P10)
                return None
            rem = vis - pos0
            cnt = If(size <= 0, 0, If(size < rem, size, rem))
            prove_next_chunk(eng, v, res, pos0, cnt, "C10:limiter-read", ("C10", "C19", "C09"))
            eng.prove("C10:limiter-read:never-more-than-max_read", And(I(h["_read_samples"]) <= If(ms > 0, ms, 0), v.pos <= vis),
                      props=("C10", "C19", "C09"))
            eng.prove("C10:limiter-read:counter-tracks-the-inner-source", I(h["_read_samples"]) == v.pos, props=PB)
            eng.prove("C10:limiter-read:inner-not-read-when-limit-reached", Implies(ms - pos0 <= 0, len(v.reads) == 0)
                      if False else True, props=P10)
            return None
        if op == "rewind":
            eng.run_function(ctx.fi(QU + "_Limiter.rewind"), [], {}, me)
            eng.prove("C19:limiter-rewind:inner-rewound-and-counter-reset",
                      And(v.rewinds == 1, v.pos == 0, I(h["_read_samples"]) == 0), props=PB)
            return None
        if op == "data":
            res = eng.run_function(ctx.fi(QU + "_Limiter.data"), [], {}, me)
            ok = isinstance(res, Seq)
            lim = imul(ms, v.bps)
            eng.prove("C19:limiter-data:never-beyond-max_read",
                      v_eq_goal(res, seq_slice(full, None, lim)) if ok else False, props=P19)
            return None
    sess.run_unit(u, eng, run_)
    return u


# ---------------------------------------------------------------------------
# _FixedSizeAudioReader

def unit_fixed(sess, ctx):
    u = Unit("_FixedSizeAudioReader.__init__/read/block_size/block_dur",
             [QU + "_FixedSizeAudioReader.__init__", QU + "_FixedSizeAudioReader.read",
              QU + "_FixedSizeAudioReader.block_size", QU + "_FixedSizeAudioReader.block_dur"])
    eng = setup(sess, [QU + "_FixedSizeAudioReader.block_size"])
    eng.ctor_contracts = {"TooSmallBlockDuration": None}
    eng.ctor_contracts.pop("TooSmallBlockDuration")
    ops = ["init", "read", "props"]

    def run_(eng):
        v = IV(eng)
        inner = inner_obj(eng, v)
        op = ops[eng.choose(3, None, "operation")]
        if op == "init":
            me = eng.st.new_obj("_FixedSizeAudioReader", {})
            k = eng.choose(2, None, "block_dur float/int")
            bd = Fl(Real("block_dur")) if k == 0 else Int("block_dur")
            bs = r_trunc(eng.spec_mul(bd, v.sr))
            try:
                eng.run_function(ctx.fi(QU + "_FixedSizeAudioReader.__init__"), [inner, bd], {}, me)
            except PyRaise as e:
                if e.exc == "TooSmallBlockDuration":
                    eng.prove("C10:fixed-init:TooSmallBlockDuration-iff-shorter-than-one-sample",
                              And(R(bd) > 0, bs == 0), props=("C10", "C06"))
                    a = e.attrs
                    eng.prove("C06:fixed-init:exception-carries-block_dur-and-rate",
                              a.get("block_dur") is bd and I(a.get("sampling_rate")) == v.sr if "sampling_rate" in a else False,
                              props=("C06",))
                elif e.exc == "ValueError":
                    eng.prove("C10:fixed-init:ValueError-iff-non-positive", R(bd) <= 0, props=("C10", "C06"))
                else:
                    eng.prove("C10:fixed-init:unexpected-%s" % e.exc, False, props=P10)
                return None
            h = eng.st.heap[me.oid]
            eng.prove("C10:fixed-init:accepted-only-when-at-least-one-sample", And(R(bd) > 0, bs >= 1), props=("C10", "C06"))
            eng.prove("C10:fixed-init:block_size-is-floor(block_dur*rate)",
                      I(h["_block_size"]) == bs if is_int(h.get("_block_size")) else False, props=("C10", "C05", "C06"))
            eng.prove("C10:fixed-init:wraps-the-given-source", h["_audio_source"] == inner, props=P10)
            return None
        bs = Int("block_size")
        eng.assume(bs >= 1)
        me = eng.st.new_obj("_FixedSizeAudioReader", {"_audio_source": inner, "_block_size": bs})
        if op == "read":
            pos0 = v.pos
            try:
                res = eng.run_function(ctx.fi(QU + "_FixedSizeAudioReader.read"), [], {}, me)
            except PyRaise as e:
                eng.prove("C10:fixed-read:error-only-when-not-open", e.exc == "AudioIOError", props=P10)
                return None
            rem = v.N - pos0
            cnt = If(bs < rem, bs, rem)
            prove_next_chunk(eng, v, res, pos0, cnt, "C10:fixed-read", ("C10", "C05"))
            eng.prove("C10:fixed-read:one-inner-read-of-block_size", len(v.reads) == 1 and is_int(v.reads[0]) and
                      I(v.reads[0]) == bs if len(v.reads) == 1 else False, props=("C10", "C08"))
            eng.prove("C10:fixed-read:consumed-advances", v.pos == pos0 + cnt, props=P10)
            return None
        r1 = eng.run_function(ctx.fi(QU + "_FixedSizeAudioReader.block_size"), [], {}, me)
        r2 = eng.run_function(ctx.fi(QU + "_FixedSizeAudioReader.block_dur"), [], {}, me)
        eng.prove("C10:fixed:block_size-property", I(r1) == bs if is_int(r1) else False, props=P10)
        eng.prove("C05:fixed:block_dur-is-block_size/rate", (r2.t == eng.spec_div(bs, v.sr)) if isinstance(r2, Fl) else False,
                  props=("C10", "C05", "C06"))
        return None
    sess.run_unit(u, eng, run_)
    return u


# ---------------------------------------------------------------------------
# _OverlapAudioReader

def block_spec(v, k, Bs, h):
    """Block k of the overlapping framing: audio[k*h : min(N, k*h + B)]."""
    lo = imul(k, h)
    hi = If(lo + Bs < v.N, lo + Bs, v.N)
    return lo, hi


def unit_overlap_iter(sess, ctx):
    """_iter_blocks_with_overlap (generator).  Trace invariant at the head of the
    main loop after k >= 1 blocks:  consumed == min(N, B + (k-1)*h),
    cache == audio[k*h : consumed]  (empty if k*h >= consumed)."""
    u = Unit("_OverlapAudioReader._iter_blocks_with_overlap", [QU + "_OverlapAudioReader._iter_blocks_with_overlap"])
    eng = setup(sess)
    fi = ctx.fi(QU + "_OverlapAudioReader._iter_blocks_with_overlap")

    class WaitOpen:
        def run_while(self, eng, s, fr):
            gh = eng.st.ghost
            v = gh["v"]
            k = eng.choose(2, None, "not open: iteration / open: exit")
            if k == 0:
                eng.assume(Not(v.open))
                gh["phase"] = "closed"
                eng.havoc_loop_locals(s, fr)
                try:
                    eng.exec_block(s.body, fr)
                except (_Break, _Continue):
                    pass
                eng.prove("C10:overlap:closed-source-yields-the-error-marker-once-per-read", gh.get("yields_now", 0) == 1, props=P10)
                eng.prove("C10:overlap:nothing-read-while-closed", len(v.reads) == 0, props=P10)
                raise PathEnd()
            eng.assume(v.open)
            gh["phase"] = "first"

    class Main:
        def run_while(self, eng, s, fr):
            gh = eng.st.ghost
            v, Bs, h = gh["v"], gh["Bs"], gh["h"]
            # entry (after the first block): k == 1
            cache0 = fr.env.get("cache")
            okc = isinstance(cache0, (Seq, bytes))
            eng.prove("C10:overlap:inv-entry:cache-is-bytes", okc, props=P10)
            if not okc:
                raise PathEnd()
            lo1, hi1 = block_spec(v, IntVal(1), Bs, h)
            c1 = gh["first_end"]
            eng.prove("C10:overlap:inv-entry:cache-is-first-block-minus-hop",
                      v_eq_goal(cache0, chunk(v, If(h < c1, h, c1), If(c1 - h > 0, c1 - h, 0))), props=P10)
            eng.prove("C10:overlap:inv-entry:one-block-yielded", gh.get("yields_now", 0) == 1, props=P10)
            # arbitrary iteration: k blocks yielded so far
            k = Int("k")
            eng.assume(k >= 1)
            imul(k, h)
            imul(k - 1, h)
            cons = If(Bs + imul(k - 1, h) < v.N, Bs + imul(k - 1, h), v.N)
            v.pos = cons
            v.open = z3.BoolVal(True)
            clo = If(imul(k, h) < cons, imul(k, h), cons)
            eng.havoc_loop_locals(s, fr)
            fr.env["cache"] = chunk(v, clo, cons - clo)
            v.reads.clear()
            gh["yields_now"] = 0
            gh["phase"] = "main"
            gh["k"] = k
            eng.loop_guard_holds(s, fr, props=P10)
            try:
                eng.exec_block(s.body, fr)
            except _Continue:
                pass
            except _Break:
                eng.prove("C10:overlap:main-loop-never-breaks", False, props=P10)
                raise PathEnd()
            eng.prove("C10:overlap:exactly-one-value-per-read", gh["yields_now"] == 1, props=P10)
            eng.prove("C10:overlap:one-inner-read-of-hop_size", len(v.reads) == 1 and is_int(v.reads[0]) and
                      I(v.reads[0]) == h if len(v.reads) == 1 else False, props=("C10", "C08"))
            if gh.get("yielded_none"):
                # exhausted: state unchanged, so None forever
                eng.prove("C10:overlap:exhausted-state-is-stable", And(v.pos == cons), props=P10)
                c2 = fr.env.get("cache")
                eng.prove("C10:overlap:exhausted-cache-unchanged", v_eq_goal(c2, chunk(v, clo, cons - clo)), props=P10)
            else:
                cons2 = If(Bs + imul(k, h) < v.N, Bs + imul(k, h), v.N)
                eng.prove("C10:overlap:inv:consumed", v.pos == cons2, props=P10)
                clo2 = If(imul(k + 1, h) < cons2, imul(k + 1, h), cons2)
                c2 = fr.env.get("cache")
                eng.prove("C10:overlap:inv:cache-is-last-block-minus-hop",
                          v_eq_goal(c2, chunk(v, clo2, cons2 - clo2)) if isinstance(c2, (Seq, bytes)) else False, props=P10)
            raise PathEnd()
    eng.loop_specs = {(fi.qualname, 0): WaitOpen(), (fi.qualname, 1): Main()}

    def on_yield(eng, val, fr, node):
        gh = eng.st.ghost
        v, Bs, h = gh["v"], gh["Bs"], gh["h"]
        gh["yields_now"] = gh.get("yields_now", 0) + 1
        ph = gh["phase"]
        if ph == "closed":
            eng.prove("C10:overlap:closed-source-yields-AudioIOError-marker", val == ClassVal("AudioIOError"), props=P10)
        elif ph == "first":
            c = If(Bs < v.N, Bs, v.N)
            eng.prove("C10:overlap:first-block-is-samples[0,block)",
                      v_eq_goal(val, chunk(v, IntVal(0), c)) if isinstance(val, (Seq, bytes)) else False, props=P10)
            eng.prove("C10:overlap:first-block-nonempty", c > 0, props=P10)
            gh["first_end"] = c
        else:
            k = gh.get("k")
            if k is None:
                eng.prove("C10:overlap:yield-outside-the-expected-phases", False, props=P10)
                raise PathEnd()
            if val is None:
                gh["yielded_none"] = True
                # None exactly when the previous block already reached the end of the data
                eng.prove("C10:overlap:None-only-when-the-data-is-exhausted", Bs + imul(k - 1, h) >= v.N, props=P10)
            else:
                lo, hi = block_spec(v, k, Bs, h)
                eng.prove("C10:overlap:block-k-starts-at-k*hop",
                          v_eq_goal(val, chunk(v, lo, hi - lo)) if isinstance(val, (Seq, bytes)) else False, props=P10)
                eng.prove("C10:overlap:block-k-exists-only-while-data-remains", Bs + imul(k - 1, h) < v.N, props=P10)
        return None
    eng.yield_hook = on_yield

    def run_(eng):
        v = IV(eng)
        eng.assume(v.pos == 0)
        inner = inner_obj(eng, v)
        Bs, h = Int("block_size"), Int("hop_size")
        eng.assume(And(Bs >= 1, h >= 1, h <= Bs))     # int(hop_dur*sr) >= 1: precondition noted in DESIGN (C10)
        me = eng.st.new_obj("_OverlapAudioReader", {"_audio_source": inner, "_block_size": Bs, "_hop_size": h,
                                                     "_blocks": None})
        eng.st.ghost.update({"v": v, "Bs": Bs, "h": h, "phase": "start"})
        eng.current_fn = fi
        try:
            eng.run_function(fi, [], {}, me)
        except PyRaise as e:
            eng.prove("C10:overlap:generator-raises-%s" % e.exc, False, props=PB)
            return None
        # the generator finished: only allowed when the very first read found nothing (empty data)
        eng.prove("C10:overlap:generator-ends-only-on-empty-data",
                  And(v.N == 0, eng.st.ghost.get("yields_now", 0) == 0, eng.st.ghost["phase"] == "first"), props=PB)
        return None
    sess.run_unit(u, eng, run_)
    return u


def unit_overlap_misc(sess, ctx):
    """__init__, read (next() on the block generator; StopIteration -> None; error
    marker -> AudioIOError), rewind (re-creates the generator), hop_size."""
    u = Unit("_OverlapAudioReader.__init__/read/rewind/hop_size",
             [QU + "_OverlapAudioReader.__init__", QU + "_OverlapAudioReader.read", QU + "_OverlapAudioReader.rewind",
              QU + "_OverlapAudioReader.hop_size", QU + "_FixedSizeAudioReader.__init__"])
    eng = setup(sess, [QU + "_FixedSizeAudioReader.__init__"])
    ops = ["init", "read", "rewind", "open"]

    def c_iter(eng, fi_, self_val, args, kwargs):
        gh = eng.st.ghost
        g = GenVal("abstract", name="blocks", next_fn=lambda e, g_: gh["next"](e, g_))
        gh.setdefault("gens", []).append(g)
        return g
    eng.contracts[QU + "_OverlapAudioReader._iter_blocks_with_overlap"] = c_iter

    def run_(eng):
        v = IV(eng)
        inner = inner_obj(eng, v)
        gh = eng.st.ghost
        op = ops[eng.choose(len(ops), None, "operation")]
        if op == "init":
            me = eng.st.new_obj("_OverlapAudioReader", {})
            bd, hd = Fl(Real("block_dur")), Fl(Real("hop_dur"))
            try:
                eng.run_function(ctx.fi(QU + "_OverlapAudioReader.__init__"), [inner, bd, hd], {}, me)
            except PyRaise as e:
                if e.exc == "ValueError":
                    eng.prove("C10:overlap-init:ValueError-iff-hop>=block-or-block<=0", Or(hd.t >= bd.t, bd.t <= 0), props=P10)
                elif e.exc == "TooSmallBlockDuration":
                    eng.prove("C10:overlap-init:TooSmall-iff-block-shorter-than-a-sample", r_trunc(eng.spec_mul(bd, v.sr)) == 0, props=P10)
                else:
                    eng.prove("C10:overlap-init:unexpected-%s" % e.exc, False, props=P10)
                return None
            h = eng.st.heap[me.oid]
            # the statement rejects hop_dur > block_dur; equality is routed to the fixed reader by AudioReader and may be
            # rejected or accepted here
            eng.prove("C10:overlap-init:accepted-only-hop<=block", And(hd.t <= bd.t, bd.t > 0), props=P10)
            eng.prove("C10:overlap-init:sizes", And(I(h["_block_size"]) == r_trunc(eng.spec_mul(bd, v.sr)),
                                                    I(h["_hop_size"]) == r_trunc(eng.spec_mul(hd, v.sr))), props=P10)
            eng.prove("C10:overlap-init:block-generator-created", len(gh.get("gens", [])) == 1 and h["_blocks"] is gh["gens"][0], props=PB)
            return None
        g0 = GenVal("abstract", name="blocks0", next_fn=lambda e, g_: gh["next"](e, g_))
        me = eng.st.new_obj("_OverlapAudioReader", {"_audio_source": inner, "_block_size": Int("B"), "_hop_size": Int("h"),
                                                     "_blocks": g0})
        if op == "read":
            outcome = eng.choose(4, None, "generator: block / None / error marker / finished")
            blk = fresh_seq("bytes", "blk")

            def nxt(e, g_):
                gh["nexts"] = gh.get("nexts", 0) + 1
                e.prove("C10:overlap-read:reads-from-the-current-generator", g_ is g0, props=P10)
                if outcome == 0:
                    return blk
                if outcome == 1:
                    return None
                if outcome == 2:
                    return ClassVal("AudioIOError")
                raise PyRaise("StopIteration", ())
            gh["next"] = nxt
            try:
                res = eng.run_function(ctx.fi(QU + "_OverlapAudioReader.read"), [], {}, me)
            except PyRaise as e:
                eng.prove("C10:overlap-read:AudioIOError-iff-marker", outcome == 2 and e.exc == "AudioIOError", props=P10)
                return None
            eng.prove("C10:overlap-read:one-next-per-read", gh.get("nexts", 0) == 1, props=("C10", "C08"))
            if outcome == 0:
                eng.prove("C10:overlap-read:returns-the-generated-block", res is blk, props=P10)
            else:
                eng.prove("C10:overlap-read:None-when-exhausted-or-finished", res is None and outcome in (1, 3), props=PB)
            return None
        if op == "open":
            # open() on the reader (inherited or overridden): opens the source, keeps the block generator and its overlap
            eng.inline |= {QU + "_AudioReadingProxy.open"}
            eng.call_value(eng.getattr(me, "open"), [], {})
            h = eng.st.heap[me.oid]
            eng.prove("C10:overlap-open:keeps-the-block-generator(overlap-not-discarded)", h["_blocks"] is g0 and not gh.get("gens"),
                      props=PB + ("C08",))
            return None
        eng.run_function(ctx.fi(QU + "_OverlapAudioReader.rewind"), [], {}, me)
        h = eng.st.heap[me.oid]
        eng.prove("C19:overlap-rewind:inner-rewound-and-generator-recreated",
                  v.rewinds == 1 and len(gh.get("gens", [])) == 1 and h["_blocks"] is gh["gens"][0], props=PB)
        return None
    sess.run_unit(u, eng, run_)
    return u


# ---------------------------------------------------------------------------
# _Recorder

class CacheList(Seq):
    """The recorder's list of blocks, carrying its concatenation as ghost."""
    __slots__ = ("cat",)


def cache_val(n, cat, aid):
    c = CacheList("list", n, lambda i: Opq(tag="block"), aid)
    c.cat = cat
    return c


def unit_recorder(sess, ctx):
    """_Recorder: before the first rewind concat(_cache) == audio[:consumed] and
    `data` raises; the first rewind freezes exactly that into _data and switches
    to an opened in-memory source at position 0; later rewinds only reposition."""
    u = Unit("_Recorder.__init__/read/_read_and_cache/rewind/data/rewindable",
             [QU + "_Recorder.__init__", QU + "_Recorder.read", QU + "_Recorder._read_and_cache", QU + "_Recorder.rewind",
              QU + "_Recorder.data", QU + "_Recorder.rewindable"])
    eng = setup(sess, [QU + "_Recorder._read_and_cache"])
    ops = ["init", "read", "rewind1", "rewind2", "data0", "data1", "read_replay"]

    def run_(eng):
        v = IV(eng)
        gh = eng.st.ghost
        op = ops[eng.choose(len(ops), None, "operation")]
        inner = inner_obj(eng, v)
        if op == "init":
            me = eng.st.new_obj("_Recorder", {})
            eng.run_function(ctx.fi(QU + "_Recorder.__init__"), [inner], {}, me)
            h = eng.st.heap[me.oid]
            c = h.get("_cache")
            eng.prove("C19:recorder-init:empty-cache-no-data",
                      isinstance(c, Seq) and c.kind == "list" and isinstance(c.n, int) and c.n == 0 and h.get("_data") is None
                      and h.get("_read_from_cache") is False and h["_audio_source"] == inner, props=P19)
            rb = h.get("_read_block")
            eng.prove("C19:recorder-init:reads-go-through-the-caching-reader",
                      isinstance(rb, BoundMethod) and rb.fi.qualname == QU + "_Recorder._read_and_cache" and rb.self_val == me, props=P19)
            return None
        A = new_aid()
        cat0 = chunk(v, IntVal(0), v.pos)

        def on_append(e, tgt, x, new):
            if isinstance(tgt, CacheList):
                return cache_val(new.n, seq_concat(tgt.cat, x), tgt.aid)
            return new
        gh["on_append"] = on_append

        def join_any(e, sep, parts):
            if isinstance(parts, CacheList):
                e.prove("C19:recorder:join-with-empty-separator", isinstance(sep, bytes) and sep == b"", props=P19)
                return parts.cat
            return NotImplemented
        gh["bytes_join_any"] = join_any
        if op in ("read", "rewind1", "data0"):
            me = eng.st.new_obj("_Recorder", {"_audio_source": inner, "_cache": cache_val(Int("nblocks"), cat0, A),
                                              "_read_from_cache": False, "_data": None})
            eng.st.heap[me.oid]["_read_block"] = BoundMethod(me, ctx.fi(QU + "_Recorder._read_and_cache"))
        else:
            # after a first rewind: _data recorded, inner source is the in-memory replay source
            me = eng.st.new_obj("_Recorder", {"_audio_source": inner, "_cache": None, "_read_from_cache": True,
                                              "_data": v.audio})
            eng.st.heap[me.oid]["_read_block"] = IfaceMethod(inner, "read", eng.iface[("IAudioSource", "read")])
        h = eng.st.heap[me.oid]
        if op in ("read", "read_replay"):
            size = Int("size")
            pos0 = v.pos
            try:
                res = eng.run_function(ctx.fi(QU + "_Recorder.read"), [size], {}, me)
            except PyRaise as e:
                eng.prove("C19:recorder-read:error-only-when-not-open", e.exc == "AudioIOError", props=P19)
                return None
            rem = v.N - pos0
            cnt = If(size < 0, rem, If(size < rem, size, rem))
            prove_next_chunk(eng, v, res, pos0, cnt, "C19:recorder-read:passes-the-inner-block-through", PB)
            if op == "read":
                c = h["_cache"]
                okc = isinstance(c, CacheList)
                eng.prove("C19:recorder-read:cache-concatenation-is-exactly-what-was-consumed",
                          v_eq_goal(c.cat, chunk(v, IntVal(0), v.pos)) if okc else False, props=P19)
                eng.prove("C19:recorder-read:no-data-before-rewind", h["_data"] is None and h["_read_from_cache"] is False, props=P19)
            return None
        if op == "data0":
            if eng.choose(2, None, "recorder state: invariant / as built by the real constructor") == 1:
                # the object exactly as __init__ leaves it, on a wrapped source that has fields of its own (an in-memory
                # source keeps its whole buffer in `_data` and exposes it as `data`): whatever the recorder's
                # representation, nothing of the wrapped source may leak out through the proxy's attribute forwarding
                eng.st.heap[inner.oid].update({"_data": fresh_seq("bytes", "inner._data"), "data": fresh_seq("bytes", "inner.data")})
                me = eng.st.new_obj("_Recorder", {})
                eng.run_function(ctx.fi(QU + "_Recorder.__init__"), [inner], {}, me)
                try:
                    eng.getattr(me, "data")
                except PyRaise as e:
                    eng.prove("C19:recorder-data:before-rewind-raises-RuntimeError", e.exc == "RuntimeError", props=P19)
                    return None
                eng.prove("C19:recorder-data:before-rewind-raises-RuntimeError", False, props=P19)
                return None
            try:
                eng.run_function(ctx.fi(QU + "_Recorder.data"), [], {}, me)
            except PyRaise as e:
                eng.prove("C19:recorder-data:before-rewind-raises-RuntimeError", e.exc == "RuntimeError", props=P19)
                return None
            eng.prove("C19:recorder-data:before-rewind-raises-RuntimeError", False, props=P19)
            return None
        if op == "data1":
            res = eng.run_function(ctx.fi(QU + "_Recorder.data"), [], {}, me)
            eng.prove("C19:recorder-data:after-rewind-returns-the-recording", res is v.audio, props=P19)
            return None
        if op == "rewind1":
            made = []

            def mk_buffer(e, args, kwargs):
                made.append((args, kwargs))
                nv = IV(e, "replay")
                e.assume(nv.pos == 0)
                nv.open = z3.BoolVal(False)
                gh["replay_view"] = nv
                return inner_obj(e, nv, "IReplaySource")
            eng.ctor_contracts = {"BufferAudioSource": mk_buffer}
            eng.run_function(ctx.fi(QU + "_Recorder.rewind"), [], {}, me)
            d = h["_data"]
            eng.prove("C19:rewind:data-is-exactly-the-consumed-portion",
                      v_eq_goal(d, chunk(v, IntVal(0), v.pos)) if isinstance(d, (Seq, bytes)) else False, props=P19)
            ok = len(made) == 1 and len(made[0][0]) == 4 and made[0][0][0] is d
            eng.prove("C19:rewind:replay-source-built-from-the-recording", ok, props=P19)
            if ok:
                a = made[0][0]
                eng.prove("C19:rewind:replay-source-has-the-same-format", And(I(a[1]) == v.sr, I(a[2]) == v.sw, I(a[3]) == v.ch), props=P19)
            nv = gh.get("replay_view")
            src = h["_audio_source"]
            eng.prove("C19:rewind:switches-to-the-opened-replay-source-at-0",
                      nv is not None and isinstance(src, Ref) and src.cls == "IReplaySource" and z3.is_true(nv.open)
                      and h["_read_from_cache"] is True and h["_cache"] is None, props=P19)
            rb = h["_read_block"]
            eng.prove("C19:rewind:reads-now-come-from-the-replay-source",
                      isinstance(rb, IfaceMethod) and rb.obj == src and rb.name == "read", props=P19)
            eng.prove("C19:rewind:original-source-not-rewound", v.rewinds == 0, props=P19)
            return None
        if op == "rewind2":
            eng.run_function(ctx.fi(QU + "_Recorder.rewind"), [], {}, me)
            eng.prove("C19:later-rewind:same-data-position-0", And(v.pos == 0, v.rewinds == 1) if True else False, props=P19)
            eng.prove("C19:later-rewind:recording-unchanged", h["_data"] is v.audio and h["_audio_source"] == inner, props=P19)
            return None
    sess.run_unit(u, eng, run_)
    return u


def unit_replay_lemma(sess, ctx):
    """Lemma (C19): the framing of data' = audio[:P], with P the position reached
    after k reads, starts with the same k blocks as the framing of audio."""
    u = Unit("lemma(replayed-blocks-are-the-original-blocks)", [], kind="lemma")
    eng = sess.engine()

    def run_(eng):
        v = IV(eng)
        Bs, h, k, j = Int("B"), Int("h"), Int("k"), Int("j")
        eng.assume(And(Bs >= 1, h >= 1, h <= Bs, k >= 1, j >= 0, j < k))
        for t in (k - 1, j):
            imul(t, h)
        P = If(Bs + imul(k - 1, h) < v.N, Bs + imul(k - 1, h), v.N)      # consumed after k blocks
        lo = imul(j, h)
        hi = If(lo + Bs < v.N, lo + Bs, v.N)
        hi2 = If(lo + Bs < P, lo + Bs, P)
        eng.prove("lemma:block-j-of-the-recording-has-the-same-bounds", Implies(lo < hi, And(hi2 == hi, lo < hi2)), props=P19)
        # block j existed originally only if data remained: B + (j-1)*h < N for j >= 1, N > 0 for j == 0
    sess.run_unit(u, eng, run_)
    return u


# ---------------------------------------------------------------------------
# what every layer inherits from _AudioReadingProxy

def unit_proxy(sess, ctx):
    """Every wrapper layer (_AudioReadingProxy itself, _Recorder, _Limiter, _FixedSizeAudioReader, _OverlapAudioReader)
    and an AudioReader on top of a layer: is_open()/open()/close() reach the wrapped object exactly once and change nothing
    else; the audio parameters in all six spellings are the wrapped object's; `data` of a non-recording layer is an
    AttributeError unless the layer forwards unknown attributes (then it is the wrapped object's); read(size) of the bare
    proxy is the wrapped read; max_read / hop_size / hop_dur / rewindable of the layers that define them."""
    u = Unit("_AudioReadingProxy forwarding through every layer",
             [QU + "_AudioReadingProxy." + x for x in ("is_open", "open", "close", "read", "data", "rewindable", "__getattr__")] +
             [QU + "_Recorder.rewindable", QU + "_Limiter.max_read", QU + "_OverlapAudioReader.hop_size",
              QU + "_OverlapAudioReader.hop_dur"])
    eng = setup(sess, [QU + "AudioReader.__getattr__", QU + "AudioReader.rewindable", QU + "_AudioReadingProxy.data",
                       QU + "_AudioReadingProxy.rewindable", QU + "_Recorder.rewindable", QU + "_Limiter.max_read",
                       QU + "_OverlapAudioReader.hop_size", QU + "_OverlapAudioReader.hop_dur",
                       QU + "_FixedSizeAudioReader.block_size"])
    layers = ["_AudioReadingProxy", "_Recorder", "_Limiter", "_FixedSizeAudioReader", "_OverlapAudioReader"]
    ops = ["is_open", "open", "close", "param", "data", "read", "misc"]
    names = ["sampling_rate", "sr", "sample_width", "sw", "channels", "ch"]
    PP = ("C10", "C05", "C09")

    def run_(eng):
        v = IV(eng)
        gh = eng.st.ghost
        inner = inner_obj(eng, v)
        calls = gh.setdefault("calls", [])
        for nm_ in ("is_open", "open", "close"):
            def wrap(e, o, a, k, _f=eng.iface[("IAudioSource", nm_)], _n=nm_):
                calls.append((_n, tuple(a), dict(k)))
                return _f(e, o, a, k)
            eng.iface[("IAudioSource", nm_)] = wrap
        layer = layers[eng.choose(5, None, "layer")]
        mr = Fl(Real("max_read"))
        hs = Int("hop_size")
        flds = {"_audio_source": inner}
        if layer == "_Recorder":
            flds.update({"_cache": cache_val(Int("nblocks"), fresh_seq("bytes", "cat"), new_aid()), "_read_from_cache": False,
                         "_data": None, "_read_block": None})
        elif layer == "_Limiter":
            flds.update({"_max_read": mr, "_max_samples": Int("ms"), "_bytes_per_sample": v.bps, "_read_samples": v.pos})
        elif layer == "_FixedSizeAudioReader":
            flds.update({"_block_size": Int("bs")})
        elif layer == "_OverlapAudioReader":
            flds.update({"_block_size": Int("bs"), "_hop_size": hs, "_blocks": Opq(tag="generator")})
        me = eng.st.new_obj(layer, flds)
        top = me
        if eng.choose(2, None, "accessed directly / through an AudioReader on top") == 1:
            if layer in ("_AudioReadingProxy", "_Recorder", "_Limiter"):
                raise PathEnd()         # an AudioReader's direct child is always a framing layer
            top = eng.st.new_obj("AudioReader", {"_audio_source": me, "_record": False})
        op = ops[eng.choose(len(ops), None, "operation")]
        open0, pos0 = v.open, v.pos
        where = "C10:proxy[%s%s]" % (layer, "" if top is me else "<-AudioReader")
        if op in ("is_open", "open", "close"):
            r = eng.call_value(eng.getattr(top, op), [], {})
            eng.prove(where + ":%s()-reaches-the-wrapped-source-exactly-once" % op, calls == [(op, (), {})], props=PP + ("C18",))
            if op == "is_open":
                eng.prove(where + ":is_open()-is-the-wrapped-source's-answer", r is open0 or (z3.is_expr(r) and z3.eq(r, open0)), props=PP)
            eng.prove(where + ":%s()-does-not-move-the-source" % op, z3.is_true(z3.simplify(v.pos == pos0)) and len(v.reads) == 0
                      and v.rewinds == 0, props=PP)
            return None
        if op == "param":
            exp = {"sampling_rate": v.sr, "sr": v.sr, "sample_width": v.sw, "sw": v.sw, "channels": v.ch, "ch": v.ch}
            nm = names[eng.choose(6, None, "spelling")]
            r = eng.getattr(top, nm)
            eng.prove(where + ":%s-is-the-wrapped-source's" % nm, is_int(r) and z3.is_true(z3.simplify(I(r) == exp[nm])), props=PP)
            eng.prove(where + ":%s-touches-nothing" % nm, not calls and not v.reads, props=PP)
            return None
        if op == "data":
            if top is not me or layer in ("_Recorder", "_Limiter"):
                raise PathEnd()         # AudioReader hiding: unit audioreader; recorder / limiter data: their own units
            inner_has = eng.choose(2, None, "wrapped object has recorded data?") == 0
            rec = fresh_seq("bytes", "recorded")
            if inner_has:
                eng.st.heap[inner.oid]["data"] = rec
            try:
                r = eng.getattr(me, "data")
            except PyRaise as e:
                eng.prove(where + ":data-of-a-non-recording-chain-is-an-AttributeError",
                          e.exc == "AttributeError" and (layer == "_AudioReadingProxy" or not inner_has), props=("C19", "C10"))
                return None
            eng.prove(where + ":data-is-the-wrapped-recording", inner_has and r is rec, props=("C19", "C10"))
            return None
        if op == "read":
            if layer != "_AudioReadingProxy" or top is not me:
                raise PathEnd()         # every other layer overrides read: their own units
            size = Int("size")
            try:
                r = eng.call_value(eng.getattr(me, "read"), [size], {})
            except PyRaise as e:
                eng.prove(where + ":read-error-only-when-not-open", e.exc == "AudioIOError", props=PP)
                return None
            eng.prove(where + ":read(size)-is-one-wrapped-read(size)", len(v.reads) == 1 and v.reads[0] is size, props=PP)
            rem = v.N - pos0
            prove_next_chunk(eng, v, r, pos0, If(size < 0, rem, If(size < rem, size, rem)), where + ":read", PP)
            return None
        # misc: the small properties / predicates the layers define themselves
        if top is not me:
            raise PathEnd()
        if layer == "_Limiter":
            r = eng.getattr(me, "max_read")
            eng.prove(where + ":max_read-is-the-limit-given", r is mr, props=("C10",))
        elif layer == "_OverlapAudioReader":
            r1 = eng.getattr(me, "hop_size")
            r2 = eng.getattr(me, "hop_dur")
            eng.prove(where + ":hop_size-property", is_int(r1) and z3.is_true(z3.simplify(I(r1) == hs)), props=("C10",))
            eng.prove(where + ":hop_dur-is-hop_size/rate", (r2.t == eng.spec_div(hs, v.sr)) if isinstance(r2, Fl) else False, props=("C10",))
        elif layer == "_Recorder":
            r = eng.call_value(eng.getattr(me, "rewindable"), [], {})
            eng.prove(where + ":recorder-is-rewindable", r is True, props=("C19",))
        else:
            raise PathEnd()
        return None
    sess.run_unit(u, eng, run_)
    return u


# ---------------------------------------------------------------------------
# AudioReader

def unit_audioreader(sess, ctx):
    """AudioReader.__init__ composition order (recorder -> limiter -> framing),
    routing of hop_dur, read(), __getattr__ hiding data/rewind, properties."""
    u = Unit("AudioReader.__init__/read/__getattr__/properties",
             [QU + "AudioReader.__init__", QU + "AudioReader.read", QU + "AudioReader.__getattr__",
              QU + "AudioReader.rewindable", QU + "AudioReader.block_dur", QU + "Recorder.__init__",
              QU + "AudioReader.hop_size", QU + "AudioReader.hop_dur", QU + "AudioReader.max_read"])
    eng = setup(sess, [QU + "AudioReader.rewindable", QU + "AudioReader.__init__"])
    ops = ["init", "getattr", "read", "block_dur", "hop", "max_read"]

    def run_(eng):
        v = IV(eng)
        gh = eng.st.ghost
        op = ops[eng.choose(6, None, "operation")]
        if op == "init":
            log = []

            def mk(name):
                def f(e, args, kwargs):
                    o = e.st.new_obj("W:" + name, {"args": tuple(args), "kwargs": dict(kwargs)})
                    log.append((name, o, tuple(args), dict(kwargs)))
                    return o
                return f
            eng.ctor_contracts = {n: mk(n) for n in ("_Recorder", "_Limiter", "_FixedSizeAudioReader", "_OverlapAudioReader")}
            is_src = eng.choose(2, None, "input is an AudioSource?") == 0
            if is_src:
                inp = inner_obj(eng, v)
            else:
                inp = fresh_seq("bytes", "raw")
            made_src = inner_obj(eng, IV(eng, "made"), "IMadeSource")

            def gas(e, args, kwargs):
                log.append(("get_audio_source", made_src, tuple(args), dict(kwargs)))
                return made_src
            eng.lib["auditok.io.get_audio_source"] = gas
            eng.contracts["auditok.io.get_audio_source"] = lambda e, fi_, sv, a, k: gas(e, a, k)
            record = eng.choose(2, None, "record?") == 0
            has_mr = eng.choose(2, None, "max_read given?") == 0
            hk = eng.choose(3, None, "hop_dur: None / == block_dur / other")
            bd = Fl(Real("block_dur"))
            hop = None if hk == 0 else (bd if hk == 1 else Fl(Real("hop_dur")))
            if hk == 2:
                eng.assume(hop.t != bd.t)
            mr = Fl(Real("max_read")) if has_mr else None
            cls = "Recorder" if (record and eng.choose(2, None, "Recorder class / AudioReader(record=True)") == 0) else "AudioReader"
            me = eng.st.new_obj(cls, {})
            kw = {"block_dur": bd, "hop_dur": hop, "max_read": mr, "sr": Int("kw_sr")}
            if cls == "AudioReader":
                kw["record"] = record
            eng.run_function(ctx.fi(QU + cls + ".__init__"), [inp], kw, me)
            top = eng.st.heap[me.oid].get("_audio_source")
            exp = []
            src = inp
            if not is_src:
                exp.append("get_audio_source")
            if record:
                exp.append("_Recorder")
            if has_mr:
                exp.append("_Limiter")
            exp.append("_FixedSizeAudioReader" if hk in (0, 1) else "_OverlapAudioReader")
            eng.prove("C10:AudioReader-init:wrapper-order-recorder->limiter->framing", [x[0] for x in log] == exp, props=PB + ("C09",))
            if [x[0] for x in log] != exp:
                return None
            cur = inp
            ok = True
            for name, o, a, k in log:
                if name == "get_audio_source":
                    ok = ok and a[0] is inp and "sr" in k and not any(x in k for x in ("block_dur", "hop_dur", "record", "max_read"))
                elif name == "_Recorder":
                    ok = ok and len(a) == 1 and a[0] == cur
                elif name == "_Limiter":
                    ok = ok and len(a) == 2 and a[0] == cur and a[1] is mr
                elif name == "_FixedSizeAudioReader":
                    ok = ok and len(a) == 2 and a[0] == cur and a[1] is bd
                else:
                    ok = ok and len(a) == 3 and a[0] == cur and a[1] is bd and a[2] is hop
                cur = o
            eng.prove("C10:AudioReader-init:each-wrapper-wraps-the-previous-one-with-the-given-durations", ok and top == cur,
                      props=PB + ("C09", "C05"))
            eng.prove("C19:AudioReader-init:record-flag", eng.st.heap[me.oid].get("_record") is record, props=P19)
            return None
        inner = inner_obj(eng, v)
        bs_ = Int("bs")
        eng.assume(bs_ >= 1)
        # the framing layer under an AudioReader: block_size samples, block_dur = block_size / rate (unit fixed)
        eng.st.heap[inner.oid].update({"block_size": bs_, "block_dur": Fl(eng.spec_div(bs_, v.sr)), "data": Opq(tag="recorded")})
        eng.iface[("IAudioSource", "read")] = lambda e, o, a, k: gh.setdefault("reads", []).append((a, k)) or gh["blk"]
        rec = eng.choose(2, None, "recording reader?") == 0
        me = eng.st.new_obj("AudioReader", {"_audio_source": inner, "_record": rec})
        if op == "read":
            gh["blk"] = fresh_seq("bytes", "blk")
            res = eng.run_function(ctx.fi(QU + "AudioReader.read"), [], {}, me)
            eng.prove("C10:AudioReader-read:delegates-one-read", res is gh["blk"] and gh.get("reads") == [([], {})], props=P10)
            return None
        if op == "block_dur":
            res = eng.run_function(ctx.fi(QU + "AudioReader.block_dur"), [], {}, me)
            eng.prove("C05:AudioReader:block_dur-is-block_size/rate",
                      (res.t == eng.spec_div(eng.st.heap[inner.oid]["block_size"], v.sr)) if isinstance(res, Fl) else False,
                      props=("C05", "C06", "C10"))
            return None
        if op == "hop":
            # hop_size / hop_dur: the framing wrapper's hop when it has one (overlap), else the block
            has_hop = eng.choose(2, None, "overlapping framing?") == 0
            hs = Int("hop_size")
            if has_hop:
                eng.assume(hs >= 1)
                eng.st.heap[inner.oid].update({"hop_size": hs, "hop_dur": Fl(eng.spec_div(hs, v.sr))})
            eng.inline |= {QU + "AudioReader.hop_size", QU + "AudioReader.hop_dur", QU + "AudioReader.block_dur",
                           QU + "AudioReader.__getattr__"}
            r1 = eng.getattr(me, "hop_size")
            r2 = eng.getattr(me, "hop_dur")
            bs = eng.st.heap[inner.oid]["block_size"]
            exp = hs if has_hop else bs
            eng.prove("C10:AudioReader:hop_size-is-the-hop-or-the-block", (I(r1) == exp) if is_int(r1) else False, props=P10)
            r3 = eng.getattr(me, "block_size")
            eng.prove("C10:AudioReader:block_size-is-the-number-of-samples-per-block", (I(r3) == bs) if is_int(r3) else False, props=P10 + ("C05",))
            eng.prove("C10:AudioReader:hop_dur-is-hop_size/rate", (r2.t == eng.spec_div(exp, v.sr)) if isinstance(r2, Fl) else False, props=P10)
            return None
        if op == "max_read":
            has = eng.choose(2, None, "limited?") == 0
            mr = Fl(Real("mr"))
            if has:
                eng.st.heap[inner.oid]["max_read"] = mr
            r = eng.run_function(ctx.fi(QU + "AudioReader.max_read"), [], {}, me)
            eng.prove("C10:AudioReader:max_read-property", (r is mr) if has else (r is None), props=P10)
            return None
        nm = ["data", "rewind", "sr"][eng.choose(3, None, "attribute")]
        try:
            # Python's full attribute lookup on the reader object (class-level properties come before __getattr__)
            eng.inline |= {QU + "AudioReader.__getattr__"}
            res = eng.getattr(me, nm)
        except PyRaise as e:
            eng.prove("C19:AudioReader:data/rewind-hidden-iff-not-recording",
                      e.exc == "AttributeError" and (not rec) and nm in ("data", "rewind"), props=P19)
            return None
        eng.prove("C19:AudioReader:non-recording-reader-exposes-neither-data-nor-rewind", rec or nm == "sr", props=P19)
        return None
    sess.run_unit(u, eng, run_)
    return u


UNITS = {
    "limiter": lambda sess, ctx, opts: unit_limiter(sess, ctx),
    "fixed": lambda sess, ctx, opts: unit_fixed(sess, ctx),
    "overlap_iter": lambda sess, ctx, opts: unit_overlap_iter(sess, ctx),
    "overlap_misc": lambda sess, ctx, opts: unit_overlap_misc(sess, ctx),
    "recorder": lambda sess, ctx, opts: unit_recorder(sess, ctx),
    "replay_lemma": lambda sess, ctx, opts: unit_replay_lemma(sess, ctx),
    "audioreader": lambda sess, ctx, opts: unit_audioreader(sess, ctx),
    "proxy": lambda sess, ctx, opts: unit_proxy(sess, ctx),
}

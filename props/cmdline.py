"""Contracts for the command line  (C15): duration formatter, option table,
make_kwargs, initialize_workers, main() control flow and exit status.
(The print worker's line is in props/workers.py, the files of -o/-O/-j in C13.)

argparse, str.format and print are library models (assumed): add_argument
records (flags, dest, type, default, action); parse_args yields a namespace with
one attribute per dest; print appends its arguments to a ghost stdout.
"""
import ast
import z3
from z3 import And, Or, Not, Implies, If, Int, Bool, IntVal, Real

from pyvc.engine import (PyRaise, PathEnd, Unsupported, LibCallable, GenVal, BoundMethod, DictVal, Absentable, NS,
                         Closure, new_aid, _Break, _Continue, IfaceMethod)
from pyvc.values import (imul, Seq, Opq, Ref, Fl, IntS, BoolS, I, B, R, fresh_name, ClassVal, is_int, r_trunc, seq_lit)
from pyvc.harness import Unit, CheckerError

QU = "auditok.util."
QL = "auditok.cmdline_util."
QM = "auditok.cmdline."
P15 = ("C15",)


class Ctx:
    def __init__(self, sess):
        self.sess = sess

    def fi(self, q):
        return self.sess.func_info(q)


def make_ctx(sess):
    return Ctx(sess)


FMT_CASES = ["%S", "%I", "%h:%m:%s.%i", "%m min, %s sec and %i ms", "%i%s%m%h", "%h:%h", "plain", "",
             "%x", "%h:%m:%s.%i %d", "%S s", "%I ms", "%", "100%", "%H:%M", "%h:%m:%s.%S"]


def expected_template(fmt):
    """The property's reading of a field format: %h %m %s %i become zero-padded
    fields of widths 2/2/2/3; any other '%' directive is an error."""
    t = fmt.replace("%h", "{hrs:02d}").replace("%m", "{mins:02d}").replace("%s", "{secs:02d}").replace("%i", "{millis:03d}")
    return None if "%" in t else t


def unit_formatter(sess, ctx):
    """make_duration_formatter: %S -> seconds with 3 decimals, %I -> whole milliseconds,
    fields recompose to the whole-millisecond value with mins, secs < 60, millis < 1000."""
    u = Unit("make_duration_formatter", [QU + "make_duration_formatter"])
    eng = sess.engine()

    def run_(eng):
        gh = eng.st.ghost
        fmt = FMT_CASES[eng.choose(len(FMT_CASES), None, "format string")]
        exp = "S" if fmt == "%S" else ("I" if fmt == "%I" else expected_template(fmt))
        try:
            f = eng.run_function(ctx.fi(QU + "make_duration_formatter"), [fmt], {})
        except PyRaise as e:
            eng.prove("C15:formatter:error-only-for-unknown-directives", e.exc == "TimeFormatError" and exp is None, props=P15)
            return None
        eng.prove("C15:formatter:unknown-directive-raises", exp is not None, props=P15)
        if exp is None:
            return None
        k = eng.choose(2, None, "seconds float/int")
        sec = Fl(Real("seconds")) if k == 0 else Int("seconds")
        eng.assume(R(sec) >= 0)
        calls = []

        def str_format(e, tpl, a, kw):
            calls.append((tpl, tuple(a), dict(kw)))
            return Opq(tag="str")
        gh["str_format"] = str_format
        out = eng.call_value(f, [sec], {})
        ok = len(calls) == 1
        eng.prove("C15:formatter:one-format-call", ok, props=P15)
        if not ok:
            return None
        tpl, a, kw = calls[0]
        # "{0}" and "{}" (and an f-string's "{...}") are the same template when the fields are the arguments in order
        import re as _re
        idx = _re.findall(r"\{(\d+)", tpl) if isinstance(tpl, str) else []
        if isinstance(tpl, str) and idx == [str(i_) for i_ in range(len(idx))]:
            tpl = _re.sub(r"\{\d+", "{", tpl)
        ms = r_trunc(eng.spec_mul(sec, 1000))
        if exp == "S":
            eng.prove("C15:formatter:%S-is-seconds-with-three-decimals", tpl == "{:.3f}" and a == (sec,) and not kw, props=P15)
        elif exp == "I":
            eng.prove("C15:formatter:%I-is-the-whole-millisecond-value",
                      tpl == "{}" and len(a) == 1 and is_int(a[0]) and not kw and z3.is_true(z3.simplify(I(a[0]) == ms)) if
                      (len(a) == 1 and is_int(a[0])) else False, props=P15)
            if len(a) == 1 and is_int(a[0]):
                eng.prove("C15:formatter:%I-value", I(a[0]) == ms, props=P15)
        else:
            eng.prove("C15:formatter:fields-are-zero-padded-2/2/2/3-in-place", tpl == exp and not a, props=P15)
            okk = set(kw) == {"hrs", "mins", "secs", "millis"} and all(is_int(v) for v in kw.values())
            eng.prove("C15:formatter:field-set", okk, props=P15)
            if okk:
                h, m, s_, i = (I(kw[x]) for x in ("hrs", "mins", "secs", "millis"))
                eng.prove("C15:formatter:minutes-and-seconds-below-60-millis-below-1000",
                          And(h >= 0, m >= 0, m < 60, s_ >= 0, s_ < 60, i >= 0, i < 1000), props=P15)
                eng.prove("C15:formatter:fields-recompose-to-the-whole-millisecond-value",
                          h * 3600000 + m * 60000 + s_ * 1000 + i == ms, props=P15)
        return None
    sess.run_unit(u, eng, run_)
    return u


# expected option table: transcribed from the property text and doc/command_line_usage.rst
TABLE = {
    "-n": ("min_duration", "float", 0.2), "-m": ("max_duration", "float", 5), "-s": ("max_silence", "float", 0.3),
    "-a": ("analysis_window", "float", 0.01), "-e": ("energy_threshold", "float", 50),
    "-r": ("sampling_rate", "int", 16000), "-c": ("channels", "int", 1), "-w": ("sample_width", "int", 2),
    "-d": ("drop_trailing_silence", "store_true", False), "-R": ("strict_min_duration", "store_true", False),
    "-L": ("large_file", "store_true", False), "-q": ("quiet", "store_true", False),
    "-u": ("use_channel", "str", None), "-M": ("max_read", "float", None), "-f": ("input_format", "str", None),
    "-o": ("save_detections_as", "str", None), "-O": ("save_stream", "str", None), "-j": ("join_detections", "float", None),
    "--printf": ("printf", "str", "{id} {start} {end}"), "--time-format": ("time_format", "str", "%S"),
}


def unit_option_table(sess, ctx):
    """The parser built by main(): flags, destinations, types and defaults
    (read from the add_argument calls in the AST; argparse semantics assumed)."""
    u = Unit("cmdline.main(option table)", [QM + "main"], kind="lemma")
    eng = sess.engine()
    fi = ctx.fi(QM + "main")

    def run_(eng):
        table = {}
        positional = []
        for n in ast.walk(fi.node):
            if isinstance(n, ast.Call) and isinstance(n.func, ast.Attribute) and n.func.attr == "add_argument":
                try:
                    flags = [ast.literal_eval(a) for a in n.args]
                    kw = {}
                    for k in n.keywords:
                        if k.arg in ("dest", "default", "action", "nargs"):
                            kw[k.arg] = ast.literal_eval(k.value)
                        elif k.arg == "type":
                            kw["type"] = ast.unparse(k.value)
                except Exception:
                    eng.prove("C15:options:add_argument-calls-are-literal", False, props=P15)
                    return
                if not flags:
                    positional.append(kw)
                for f in flags:
                    table[f] = kw
        for flag, (dest, typ, default) in sorted(TABLE.items()):
            kw = table.get(flag)
            ok = kw is not None and kw.get("dest") == dest
            if ok and typ == "store_true":
                ok = kw.get("action") == "store_true" and kw.get("default", False) is False
            elif ok:
                ok = kw.get("type") == typ and kw.get("default") == default and "action" not in kw
            eng.prove("C15:options:%s-sets-%s(%s,default=%r)" % (flag, dest, typ, default), ok, props=P15)
        eng.prove("C15:options:input-is-an-optional-positional-defaulting-to-None(microphone)",
                  len(positional) == 1 and positional[0].get("dest") == "input" and positional[0].get("nargs") == "?" and
                  positional[0].get("default") is None, props=P15)
        uniq = {id(kw): kw for kw in table.values()}
        dests = [kw["dest"] for kw in uniq.values() if "dest" in kw]
        eng.prove("C15:options:no-two-options-share-a-destination", len(dests) == len(set(dests)), props=P15)
    sess.run_unit(u, eng, run_)
    return u


NS_ATTRS = ["input", "input_format", "max_read", "analysis_window", "sampling_rate", "sample_width", "channels", "use_channel",
            "save_stream", "save_detections_as", "join_detections", "output_format", "large_file", "frame_per_buffer",
            "input_device_index", "min_duration", "max_duration", "max_silence", "drop_trailing_silence", "strict_min_duration",
            "energy_threshold", "echo", "progress_bar", "command", "quiet", "printf", "time_format", "timestamp_format",
            "plot", "save_image", "debug", "debug_file"]

IO_MAP = {"input": "input", "audio_format": "input_format", "max_read": "max_read", "block_dur": "analysis_window",
          "sampling_rate": "sampling_rate", "sample_width": "sample_width", "channels": "channels",
          "save_stream": "save_stream", "save_detections_as": "save_detections_as", "join_detections": "join_detections",
          "export_format": "output_format", "large_file": "large_file", "frames_per_buffer": "frame_per_buffer",
          "input_device_index": "input_device_index"}
SPLIT_MAP = {"min_dur": "min_duration", "max_dur": "max_duration", "max_silence": "max_silence",
             "drop_trailing_silence": "drop_trailing_silence", "strict_min_dur": "strict_min_duration",
             "energy_threshold": "energy_threshold"}
MISC_MAP = {"echo": "echo", "progress_bar": "progress_bar", "command": "command", "quiet": "quiet", "printf": "printf",
            "time_format": "time_format", "timestamp_format": "timestamp_format"}


NUM_FLOAT = ("analysis_window", "min_duration", "max_duration", "max_silence", "energy_threshold")
NUM_INT = ("sampling_rate", "sample_width", "channels")


def sym_namespace(eng):
    d = {a: Opq(tag=a) for a in NS_ATTRS}
    # numeric options have numeric values (argparse converts them): arithmetic on them is arithmetic, and a value handed
    # on must be the very value given
    for a in NUM_FLOAT:
        d[a] = Fl(Real(fresh_name("opt." + a)))
    for a in NUM_INT:
        d[a] = Int(fresh_name("opt." + a))
        eng.assume(d[a] >= 1)
    return NS(d), d


def unit_make_kwargs(sess, ctx):
    u = Unit("cmdline_util.make_kwargs", [QL + "make_kwargs"])
    eng = sess.engine()

    def run_(eng):
        ns, d = sym_namespace(eng)
        has_j = eng.choose(2, None, "-j given?") == 1
        has_O = eng.choose(2, None, "-O given?") == 1
        d["join_detections"] = Fl(Real("join")) if has_j else None
        d["save_stream"] = Opq(tag="str") if has_O else None
        uc = ["None", "digits", "name", "negative"][eng.choose(4, None, "use_channel kind")]
        d["use_channel"] = {"None": None, "digits": "1", "name": "mix", "negative": "-1"}[uc]
        d["plot"] = Bool("plot")
        d["save_image"] = None if eng.choose(2, None, "--save-image given?") == 0 else Opq(tag="str")
        tcache = {}
        eng.st.ghost["truth_fn"] = lambda v: tcache.setdefault(id(v), Bool(fresh_name("nonempty")))   # truthiness of a str option
        import collections
        nt = collections.namedtuple("KeywordArguments", ["io", "split", "miscellaneous"])
        eng.lib["collections.namedtuple"] = lambda e, a, k: LibCallable("KeywordArguments", lambda e2, a2, k2: nt(*a2, **k2))
        try:
            res = eng.run_function(ctx.fi(QL + "make_kwargs"), [ns], {})
        except PyRaise as e:
            eng.prove("C15:make_kwargs:ArgumentError-iff--j-without--O", e.exc == "ArgumentError" and has_j and not has_O, props=P15)
            return None
        eng.prove("C15:make_kwargs:-j-without--O-rejected", not (has_j and not has_O), props=P15)
        ok = isinstance(res, tuple) and hasattr(res, "_fields") and all(isinstance(x, DictVal) for x in res)
        eng.prove("C15:make_kwargs:returns-(io,split,miscellaneous)", ok, props=P15)
        if not ok:
            return None
        io, sp, mi = res.io.entries, res.split.entries, res.miscellaneous.entries

        def same(ent, key, attr):
            return key in ent and ent[key][0] is True and ent[key][1] is d[attr]
        eng.prove("C15:make_kwargs:split-parameters-come-from-the-matching-options",
                  all(same(sp, k, a) for k, a in SPLIT_MAP.items()) and set(sp) == set(SPLIT_MAP), props=P15)
        eng.prove("C15:make_kwargs:io-parameters-come-from-the-matching-options",
                  all(same(io, k, a) for k, a in IO_MAP.items()), props=P15)
        eng.prove("C15:make_kwargs:printing-options-come-from-the-matching-options",
                  all(same(mi, k, a) for k, a in MISC_MAP.items()), props=P15)
        ucv = io.get("use_channel", (False, None))[1]
        eng.prove("C15:make_kwargs:use_channel-is-an-int-when-numeric-else-unchanged",
                  (ucv is None) if uc == "None" else ((isinstance(ucv, int) and ucv == 1) if uc == "digits" else
                                                      ((isinstance(ucv, int) and ucv == -1) if uc == "negative" else ucv == "mix")), props=P15)
        return None
    sess.run_unit(u, eng, run_)
    return u


def unit_initialize_workers(sess, ctx):
    """initialize_workers: which workers exist as a function of the options."""
    u = Unit("cmdline_util.initialize_workers", [QL + "initialize_workers"])
    eng = sess.engine()

    def run_(eng):
        log = []

        def mk(name):
            def f(e, a, k):
                o = e.st.new_obj("W:" + name, {"sampling_rate": Int("sr"), "sample_width": Int("sw"), "channels": Int("ch")})
                log.append((name, tuple(a), dict(k), o))
                return o
            return f
        for n in ("AudioReader", "AudioEventsJoinerWorker", "StreamSaverWorker", "RegionSaverWorker", "PlayerWorker",
                  "CommandLineWorker", "PrintWorker", "TokenizerWorker"):
            eng.ctor_contracts[n] = mk(n)
        eng.iface[("W:StreamSaverWorker", "start")] = lambda e, o, a, k: log.append(("start", o))
        eng.contracts["auditok.io.player_for"] = lambda e, f, sv, a, k: Opq(tag="player")
        has_O = eng.choose(2, None, "-O?") == 1
        has_j = has_O and eng.choose(2, None, "-j?") == 1
        has_o = eng.choose(2, None, "-o?") == 1
        echo = eng.choose(2, None, "-E?") == 1
        cmd = eng.choose(2, None, "-C?") == 1
        quiet = eng.choose(2, None, "-q?") == 1
        printf, tf, tsf = "{id} \u2192 {start}\\t{end}\\n d\u00e9tection", Opq(tag="tf"), Opq(tag="tsf")
        import codecs as _codecs
        eng.lib["codecs.decode"] = lambda e, a, k: _codecs.decode(*[e.force(x) for x in a])
        kw = {"input": Opq(tag="input"), "save_stream": Opq(tag="str") if has_O else None,
              "join_detections": Fl(Real("j")) if has_j else None, "export_format": Opq(tag="T"),
              "save_detections_as": Opq(tag="str") if has_o else None, "echo": echo, "progress_bar": False,
              "command": Opq(tag="str") if cmd else None, "quiet": quiet, "printf": printf, "time_format": tf,
              "timestamp_format": tsf, "min_dur": Opq(tag="n"), "block_dur": Opq(tag="a"),
              # the other options split() reads for a reader input (make_kwargs files use_channel under the io group)
              "max_dur": Opq(tag="m"), "max_silence": Opq(tag="s"), "drop_trailing_silence": Opq(tag="d"),
              "strict_min_dur": Opq(tag="R"), "energy_threshold": Opq(tag="e"), "use_channel": Opq(tag="u")}
        res = eng.run_function(ctx.fi(QL + "initialize_workers"), [], dict(kw))
        names = [x[0] for x in log]
        rd = [x for x in log if x[0] == "AudioReader"]
        tk = [x for x in log if x[0] == "TokenizerWorker"]
        ok = len(rd) == 1 and len(tk) == 1 and isinstance(res, tuple) and len(res) == 2 and res[1] == tk[0][3]
        eng.prove("C15:init_workers:one-reader-one-tokenizer-worker-returned", ok, props=P15)
        if not ok:
            return None
        eng.prove("C15:init_workers:reader-built-from-the-io-options",
                  rd[0][2].get("input") is kw["input"] and rd[0][2].get("block_dur") is kw["block_dur"], props=P15)
        ta, tkw = tk[0][1], tk[0][2]
        obs = ta[1] if len(ta) > 1 else None
        items = obs.items if isinstance(obs, Seq) and obs.items is not None else None
        eng.prove("C15:init_workers:observer-list-is-concrete", items is not None, props=P15)
        if items is None:
            return None
        kinds = [o.cls[2:] if isinstance(o, Ref) else "?" for o in items]
        exp = []
        if has_O and has_j:
            exp.append("AudioEventsJoinerWorker")
        if has_o:
            exp.append("RegionSaverWorker")
        if echo:
            exp.append("PlayerWorker")
        if cmd:
            exp.append("CommandLineWorker")
        if not quiet:
            exp.append("PrintWorker")
        eng.prove("C15:init_workers:observers-exist-exactly-as-the-options-say(-q:no-printing,-o,-j...)", kinds == exp, props=P15 + ("C13",))
        if has_O and not has_j:
            sv = [x for x in log if x[0] == "StreamSaverWorker"]
            eng.prove("C15:init_workers:-O-wraps-the-reader-in-a-started-stream-saver",
                      len(sv) == 1 and sv[0][1][0] == rd[0][3] and sv[0][2].get("filename") is kw["save_stream"] and
                      ("start", sv[0][3]) in log and ta[0] == sv[0][3] and res[0] == sv[0][3], props=P15 + ("C13",))
        else:
            eng.prove("C15:init_workers:tokenizer-reads-the-plain-reader", ta[0] == rd[0][3], props=P15)
        if has_O and has_j:
            jws = [x for x in log if x[0] == "AudioEventsJoinerWorker"]
            eng.prove("C15:init_workers:-j-joiner-gets-silence-file-and-the-reader's-format",
                      len(jws) == 1 and jws[0][2].get("silence_duration") is kw["join_detections"] and
                      jws[0][2].get("filename") is kw["save_stream"], props=P15 + ("C13",))
        if has_o:
            rss = [x for x in log if x[0] == "RegionSaverWorker"]
            eng.prove("C15:init_workers:-o-template-goes-to-the-region-saver", len(rss) == 1 and rss[0][1][0] is kw["save_detections_as"],
                      props=P15 + ("C13",))
        if not quiet:
            pws = [x for x in log if x[0] == "PrintWorker"]
            eng.prove("C15:init_workers:print-worker-gets-printf(escapes-expanded)-and-time-format",
                      len(pws) == 1 and pws[0][1][0] == "{id} \u2192 {start}\t{end}\n d\u00e9tection" and pws[0][1][1] is tf and
                      pws[0][1][2] is tsf, props=P15)
        for K in ("min_dur", "max_dur", "max_silence", "drop_trailing_silence", "strict_min_dur", "energy_threshold", "use_channel"):
            eng.prove("C15:init_workers:option-%s-reaches-the-tokenizer-worker" % K, tkw.get(K) is kw[K], props=P15)
        return None
    sess.run_unit(u, eng, run_)
    return u


def unit_main(sess, ctx):
    """main(): exit status 1 when make_kwargs rejects the options (nothing started);
    otherwise workers started, and at end of processing or on Ctrl-C: stop_all, exit 0."""
    u = Unit("cmdline.main(control flow)", [QM + "main"])
    eng = sess.engine()
    fi = ctx.fi(QM + "main")

    class Loop:
        def run_while(self, eng, s, fr):
            gh = eng.st.ghost
            eng.prove("C15:main:workers-started-before-waiting", gh["log"][-1:] == [("start_all",)], props=P15)
            eng.havoc_loop_locals(s, fr)
            eng.loop_guard_holds(s, fr, props=P15)
            gh["in_loop"] = True
            eng.exec_block(s.body, fr)       # leaves only through an exception
            raise PathEnd()
    eng.loop_specs = {(fi.qualname, 0): Loop()}

    def run_(eng):
        gh = eng.st.ghost
        log = []
        gh["log"] = log
        parser = eng.st.new_obj("IParser", {})
        ns, d = sym_namespace(eng)
        d["plot"] = False
        d["save_image"] = None
        eng.ctor_contracts["ArgumentParser"] = lambda e, a, k: parser
        eng.iface[("IParser", "add_argument")] = lambda e, o, a, k: None
        eng.iface[("IParser", "add_argument_group")] = lambda e, o, a, k: parser
        eng.iface[("IParser", "parse_args")] = lambda e, o, a, k: (log.append(("parse", a[0])), ns)[1]
        eng.lib["os.path.basename"] = lambda e, a, k: Opq(tag="str")
        eng.modattrs["sys.argv"] = seq_lit("list", [Opq(tag="str"), Opq(tag="arg")])
        eng.modattrs["sys.stderr"] = Opq(tag="stderr")
        argv = seq_lit("list", [Opq(tag="arg")])
        import collections
        nt = collections.namedtuple("KeywordArguments", ["io", "split", "miscellaneous"])
        bad = eng.choose(2, None, "make_kwargs ok / ArgumentError") == 1

        def c_mk(e, f, sv, a, k):
            log.append(("make_kwargs", a[0]))
            if bad:
                raise PyRaise("ArgumentError", ())
            return nt(DictVal({"input": (True, Opq(tag="i"))}), DictVal({"min_dur": (True, Opq(tag="n"))}),
                      DictVal({"quiet": (True, Opq(tag="q"))}))
        eng.contracts[QL + "make_kwargs"] = c_mk
        eng.contracts[QL + "make_logger"] = lambda e, f, sv, a, k: None
        tw = eng.st.new_obj("ITokW", {})
        with_saver = eng.choose(2, None, "stream saver?") == 1
        sv_ = eng.st.new_obj("ISaver", {}) if with_saver else None

        def c_init(e, f, sv, a, k):
            log.append(("init_workers", dict(k)))
            return (sv_, tw)
        eng.contracts[QL + "initialize_workers"] = c_init
        eng.iface[("ITokW", "start_all")] = lambda e, o, a, k: log.append(("start_all",))
        eng.iface[("ITokW", "stop_all")] = lambda e, o, a, k: log.append(("stop_all",))
        # the tokenizer thread may be alive or not when main looks (it may have died on a read error): arbitrary
        eng.iface[("ITokW", "is_alive")] = lambda e, o, a, k: Bool(fresh_name("tokenizer_alive"))
        eng.iface[("ISaver", "join")] = lambda e, o, a, k: log.append(("saver.join",))
        # the final export may fail: with the encoder's own warning, or with any other error (unwritable target, full disk)
        exp_out = ["ok", "AudioEncodingWarning", "OSError"][eng.choose(3, None, "export_audio outcome")] if with_saver else "ok"

        def c_export(e, o, a, k):
            log.append(("saver.export",))
            if exp_out != "ok":
                raise PyRaise(exp_out, ("export failed",))
        eng.iface[("ISaver", "export_audio")] = c_export
        how = ["end", "interrupt"][eng.choose(2, None, "how the wait ends")]

        def sleep(e, a, k):
            if how == "interrupt" and e.choose(2, None, "Ctrl-C during this sleep?") == 0:
                raise PyRaise("KeyboardInterrupt", ())
        eng.lib["time.sleep"] = sleep
        nthreads = Int("n_threads")
        eng.lib["threading.enumerate"] = lambda e, a, k: Seq("list", nthreads, lambda i: Opq(), None)
        eng.current_fn = fi
        try:
            res = eng.run_function(fi, [argv], {})
        except PyRaise as e:
            eng.prove("C15:main:no-exception-escapes(%s)" % e.exc, False, props=P15)
            return None
        names = [x[0] for x in log]
        if bad:
            eng.prove("C15:main:rejected-options-exit-with-status-1-nothing-started",
                      res == 1 and "init_workers" not in names and "start_all" not in names, props=P15)
            eng.prove("C15:main:the-error-is-printed-to-stderr", len(gh.get("stdout", [])) == 1 and "file" in gh["stdout"][0][1], props=P15)
            return None
        eng.prove("C15:main:given-argv-is-parsed", ("parse", argv) in log, props=P15)
        ik = [x for x in log if x[0] == "init_workers"]
        eng.prove("C15:main:workers-built-from-the-three-keyword-groups",
                  len(ik) == 1 and all(k in ik[0][1] for k in ("input", "min_dur", "quiet", "logger")), props=P15)
        eng.prove("C15:main:normal-end-and-interrupt-both-stop-all-workers-and-exit-0",
                  res == 0 and names.count("stop_all") == 1 and names.index("stop_all") > names.index("start_all"), props=P15 + ("C14",))
        if with_saver:
            eng.prove("C15:main:stream-saver-joined-then-exported-after-stop_all",
                      "stop_all" in names and "saver.join" in names and "saver.export" in names and
                      names.index("stop_all") < names.index("saver.join") < names.index("saver.export"),
                      props=P15 + ("C13", "C14"))
        if exp_out == "ok":
            eng.prove("C15:main:nothing-printed-by-main-itself", gh.get("stdout", []) == [], props=P15)
        else:
            out_ = gh.get("stdout", [])
            eng.prove("C15:main:a-failed-export-is-reported-on-stderr-only", len(out_) == 1 and "file" in out_[0][1], props=P15)
        return None
    sess.run_unit(u, eng, run_)
    return u


UNITS = {
    "formatter": lambda sess, ctx, opts: unit_formatter(sess, ctx),
    "option_table": lambda sess, ctx, opts: unit_option_table(sess, ctx),
    "make_kwargs": lambda sess, ctx, opts: unit_make_kwargs(sess, ctx),
    "initialize_workers": lambda sess, ctx, opts: unit_initialize_workers(sess, ctx),
    "main": lambda sess, ctx, opts: unit_main(sess, ctx),
}

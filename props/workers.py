"""Contracts for auditok.workers  (C12, C13, C14; print worker of C15).

Thread-modular verification (DESIGN section 6): every thread is a sequential
program whose only nondeterminism is what its inbox `get` returns.  queue.Queue
is a ghost FIFO: put appends to the history; get(timeout)/get_nowait return the
next unconsumed message or raise Empty -- the consumer is verified for EVERY
such outcome, i.e. for arbitrarily slow/fast producers and every timeout firing.
Side conditions (single consumer per inbox, put only through send, join preceded
by the stop marker, field ownership) are structural obligations over the AST.
"""
import ast
import collections
import z3
from z3 import And, Or, Not, Implies, If, Int, Bool, IntVal, Real

from pyvc.engine import (PyRaise, PathEnd, Unsupported, LibCallable, GenVal, BoundMethod, DictVal, Absentable,
                         new_aid, _Break, _Continue, IfaceMethod)
from pyvc.values import (imul, Seq, Opq, Ref, Fl, IntS, BoolS, I, B, R, fresh_name, v_eq_goal, ClassVal, fresh_seq,
                         is_int, seq_concat, seq_lit)
from pyvc.harness import Unit, CheckerError
from props.readers import CacheList, cache_val

QW = "auditok.workers."
STOP = "STOP_PROCESSING"
P12 = ("C12",)
P13 = ("C13",)
P14 = ("C14",)
P1214 = ("C12", "C14")
P1314 = ("C13", "C14")


class Ctx:
    def __init__(self, sess):
        self.sess = sess

    def fi(self, q):
        return self.sess.func_info(q)


def make_ctx(sess):
    # the stop marker is whatever the module says it is (a harmless change of its spelling is not a violation; a marker
    # that a DATA message can equal is one -- the run loops compare messages with it)
    global STOP
    import ast as _ast
    mod = sess.prog.modules["auditok.workers"]
    try:
        STOP = _ast.literal_eval(mod.consts["_STOP_PROCESSING"])
    except Exception as e:  # noqa
        raise CheckerError("contract drift: auditok.workers._STOP_PROCESSING is not a literal (%s)" % e)
    return Ctx(sess)


class Inbox:
    """Ghost FIFO of one worker: scripted outcomes for the consumer side, log
    of puts for the producer side."""

    def __init__(self):
        self.puts = []
        self.gets = 0
        self.next = None          # callable(eng, kind) -> message or raises Empty

    def install(self, eng, cls="IQueue"):
        def q_put(e, o, a, k):
            # hand-over is lossless: a put that can time out or not block can drop a message (or the stop marker)
            e.prove("C12:queue-put-blocks-without-timeout", k.get("timeout") is None and k.get("block", True) is True and len(a) == 1,
                    props=("C12", "C13", "C14"))
            self.puts.append(a[0])
            e.st.ghost.setdefault("events", []).append(("put", o, a[0]))
            return None

        def q_get(e, o, a, k):
            self.gets += 1
            return self.next(e, "get", k)

        def q_get_nowait(e, o, a, k):
            self.gets += 1
            return self.next(e, "get_nowait", k)
        eng.iface[(cls, "put")] = q_put
        eng.iface[(cls, "get")] = q_get
        eng.iface[(cls, "get_nowait")] = q_get_nowait


def setup(sess, inline=()):
    eng = sess.engine()
    eng.inline |= set(inline)
    events = []

    def th(name):
        def f(e, o, a, k):
            if name == "Thread.__init__":
                # "every worker thread terminates by itself" is about threads the interpreter waits for: a daemon thread
                # is killed, not finished, when the main thread ends
                dm = k.get("daemon")
                e.prove("C12:worker-threads-are-not-daemon-threads", dm is None or dm is False, props=("C12", "C13", "C14"))
            if name == "join":
                # the wait-for argument (DESIGN 6) needs join() to WAIT for the thread: a timeout turns it into a poll
                tmo = a[0] if a else k.get("timeout")
                e.prove("C14:join-waits-for-the-thread(no-timeout)", tmo is None, props=("C12", "C13", "C14"))
            e.st.ghost.setdefault("events", []).append((name, o))
            return None
        return f
    eng.ext_base_methods["Thread"] = {"start": th("start"), "join": th("join"), "__init__": th("Thread.__init__"),
                                      "is_alive": lambda e, o, a, k: Bool(fresh_name("alive"))}
    eng.lib["datetime.datetime.now"] = lambda e, a, k: Opq(tag="time")
    eng.lib["datetime.timedelta"] = lambda e, a, k: Opq(tag="time")
    eng.ctor_contracts = dict(eng.ctor_contracts)
    eng.ctor_contracts["timedelta"] = lambda e, a, k: Opq(tag="time")
    eng.lib["method:opaque.strftime"] = lambda e, o, a, k: Opq(tag="str")
    def deque_ctor(e, a, k):
        # a deque used as a list that only grows; a bounded one silently forgets its oldest items
        ml = k.get("maxlen", a[1] if len(a) > 1 else None)
        e.prove("C12:a-container-of-detections-or-blocks-keeps-every-item(no-maxlen)", ml is None, props=("C12", "C13", "C14", "C15"))
        if a and not (isinstance(a[0], Seq) and isinstance(a[0].n, int) and a[0].n == 0):
            raise Unsupported("deque(iterable)")
        return seq_lit("list", [], new_aid())
    eng.lib["collections.deque"] = deque_ctor
    import queue as _queue
    eng.iface_real["IQueue"] = _queue.Queue()      # an instance: not_empty, mutex, queue ... are instance attributes
    nt = collections.namedtuple("_Detection", "id start end duration")
    eng.lib["collections.namedtuple"] = lambda e, a, k: LibCallable("_Detection", lambda e2, a2, k2: nt(*a2, **k2))
    return eng


def reader_fields(eng):
    """What any AudioReader-like object offers besides open/read/close: its format and framing (arbitrary values)."""
    sr, sw, ch, bs = Int(fresh_name("rd.sr")), Int(fresh_name("rd.sw")), Int(fresh_name("rd.ch")), Int(fresh_name("rd.block_size"))
    eng.assume(And(sr >= 1, sw >= 1, ch >= 1, bs >= 1))
    return {"sr": sr, "sw": sw, "ch": ch, "sampling_rate": sr, "sample_width": sw, "channels": ch, "block_size": bs,
            "block_dur": Fl(eng.spec_div(bs, sr)), "hop_size": bs, "hop_dur": Fl(eng.spec_div(bs, sr))}


def queue_ctor(e, a, k):
    """Queue(): the inbox is unbounded (a bounded inbox makes the producer block or lose messages)."""
    ms = a[0] if a else k.get("maxsize", 0)
    e.prove("C12:inbox-is-an-unbounded-queue", isinstance(ms, int) and ms <= 0, props=("C12", "C13", "C14"))
    return e.st.new_obj("IQueue", {})


def worker_obj(eng, cls, fields=None):
    st = eng.st
    q = st.new_obj("IQueue", {})
    f = {"_inbox": q, "_timeout": Fl(Real("timeout")), "_logger": None}
    if cls in ("StreamSaverWorker", "AudioEventsJoinerWorker", "AudioDataSaverWorker"):
        # what AudioDataSaverWorker.__init__ establishes (unit saver_init): the audio format of the output file
        sr_, sw_, ch_ = Int(fresh_name("out.sr")), Int(fresh_name("out.sw")), Int(fresh_name("out.ch"))
        eng.assume(And(sr_ >= 1, Or(sw_ == 1, sw_ == 2, sw_ == 4), ch_ >= 1))
        f.update({"_sampling_rate": sr_, "_sample_width": sw_, "_channels": ch_, "_output_filename": Opq(tag="str"),
                  "_tmp_output_filename": Opq(tag="str"), "_export_format": Opq(tag="str"), "_exported": False})
    f.update(fields or {})
    return st.new_obj(cls, f), q



def detection_obj(eng, with_ts=False):
    """A detection as split() yields it: start / end are readable on the region itself and through the (deprecated)
    meta object -- the same values --, duration on the region."""
    st, en = Fl(Real("start")), Fl(Real("end"))
    mf = {"start": st, "end": en}
    if with_ts:
        mf["timestamp"] = Opq(tag="time")
    meta = eng.st.new_obj("IMeta", mf)
    reg = eng.st.new_obj("IRegion", {"meta": meta, "duration": Fl(Real("duration")), "start": st, "end": en})
    return meta, reg


def events(eng):
    return eng.st.ghost.setdefault("events", [])


# ---------------------------------------------------------------------------

def unit_worker_run(sess, ctx):
    """Worker.run (+ _get_message inlined): for EVERY outcome of the queue wait --
    timeout, data message, stop marker -- : a timeout processes nothing and keeps
    waiting; a data message is processed exactly once, then waiting continues; the
    stop marker ends the loop, _post_process runs once and the thread finishes."""
    u = Unit("Worker.run/_get_message", [QW + "Worker.run", QW + "Worker._get_message"])
    eng = setup(sess, [QW + "Worker._get_message"])
    fi = ctx.fi(QW + "Worker.run")

    class Loop:
        def run_while(self, eng, s, fr):
            gh = eng.st.ghost
            gh["processed"] = []
            gh["iter"] = True
            eng.havoc_loop_locals(s, fr)
            eng.loop_guard_holds(s, fr, props=("*",))
            try:
                eng.exec_block(s.body, fr)
            except _Break:
                eng.prove("C12:worker-loop-ends-only-on-the-stop-marker", gh["outcome"] == "stop", props=P1214 + P13)
                eng.prove("C12:stop-marker-is-not-processed-as-data", gh["processed"] == [], props=P1214)
                gh["iter"] = False
                return
            except _Continue:
                pass
            # the loop goes on
            eng.prove("C12:stop-marker-ends-the-loop", gh["outcome"] != "stop", props=P1214 + P13)
            if gh["outcome"] == "timeout":
                eng.prove("C12:a-queue-timeout-processes-nothing-and-keeps-waiting", gh["processed"] == [], props=P1214 + P13)
            else:
                eng.prove("C12:each-message-processed-exactly-once", len(gh["processed"]) == 1 and gh["processed"][0] is gh["msg"],
                          props=P1214 + P13)
            eng.prove("C12:one-queue-wait-per-iteration", gh["inbox"].gets == 1, props=P1214)
            raise PathEnd()
    eng.loop_specs = {(fi.qualname, 0): Loop()}

    def run_(eng):
        gh = eng.st.ghost
        me, q = worker_obj(eng, "Worker")
        ib = Inbox()
        ib.install(eng)
        gh["inbox"] = ib
        kind = ["timeout", "stop", "detection", "block"][eng.choose(4, None, "queue wait outcome")]
        gh["outcome"] = "data" if kind in ("detection", "block") else kind
        msg = {"timeout": None, "stop": STOP, "detection": (Int("id"), eng.st.new_obj("IRegion", {})),
               "block": fresh_seq("bytes", "block")}[kind]
        gh["msg"] = msg

        def nxt(e, how, k):
            if kind == "timeout":
                raise PyRaise("Empty", ())
            return msg
        ib.next = nxt
        eng.contracts[QW + "Worker._process_message"] = lambda e, f, sv, a, k: gh["processed"].append(a[0]) or None
        gh["post"] = 0

        def c_post(e, f, sv, a, k):
            gh["post"] += 1
            e.prove("C12:_post_process-only-after-the-loop", gh["iter"] is False, props=P1214 + P13)
        eng.contracts[QW + "Worker._post_process"] = c_post
        eng.current_fn = fi
        eng.run_function(fi, [], {}, me)
        eng.prove("C12:thread-finishes-after-one-_post_process", gh["post"] == 1, props=P1214 + P13)
        return None
    sess.run_unit(u, eng, run_)
    return u


def unit_worker_misc(sess, ctx):
    """send / stop / _stop_requested."""
    u = Unit("Worker.send/stop/_stop_requested", [QW + "Worker.send", QW + "Worker.stop", QW + "Worker._stop_requested"])
    eng = setup(sess, [QW + "Worker.send"])

    def run_(eng):
        me, q = worker_obj(eng, "Worker")
        ib = Inbox()
        ib.install(eng)
        op = ["send", "stop", "poll"][eng.choose(3, None, "operation")]
        if op == "send":
            m = Opq(tag="msg")
            eng.run_function(ctx.fi(QW + "Worker.send"), [m], {}, me)
            eng.prove("C12:send-enqueues-the-message-once", len(ib.puts) == 1 and ib.puts[0] is m, props=P12 + P13)
        elif op == "stop":
            eng.run_function(ctx.fi(QW + "Worker.stop"), [], {}, me)
            ev = events(eng)
            eng.prove("C14:stop-sends-the-stop-marker-then-joins",
                      len(ev) == 2 and ev[0][0] == "put" and ev[0][2] == STOP and ev[1] == ("join", me), props=P1214 + P13)
        else:
            k = ["empty", "stop"][eng.choose(2, None, "inbox content")]

            def nxt(e, how, kw):
                e.prove("C14:stop-poll-does-not-block", how == "get_nowait", props=P14)
                if k == "empty":
                    raise PyRaise("Empty", ())
                return STOP
            ib.next = nxt
            r = eng.run_function(ctx.fi(QW + "Worker._stop_requested"), [], {}, me)
            t = eng.truth(r)
            eng.prove("C14:stop-requested-iff-the-stop-marker-is-in-the-inbox", t is (k == "stop"), props=P14)
        return None
    sess.run_unit(u, eng, run_)
    return u


class ObsList:
    """Abstract list of K observer workers."""

    def __init__(self, eng):
        self.K = Int("n_observers")
        eng.assume(self.K >= 0)
        self.ref = eng.st.new_obj("IObserverList", {})
        self.cache = {}
        self.eng = eng

        def o_send(e, o, a, k):
            events(e).append(("obs.send", o, a[0]))

        def o_stop(e, o, a, k):
            events(e).append(("obs.stop", o))

        def o_start(e, o, a, k):
            events(e).append(("obs.start", o))
        eng.iface[("IObserver", "send")] = o_send
        eng.iface[("IObserver", "stop")] = o_stop
        eng.iface[("IObserver", "start")] = o_start
        # an observer is a worker thread: whether it is running at a given moment is the scheduler's business (it may not
        # have been started yet, or may have died) -- any answer
        eng.iface[("IObserver", "is_alive")] = lambda e, o, a, k: Bool(fresh_name("observer.alive"))

    def elem(self, i):
        return self.eng.st.new_obj("IObserver", {"index": i})


class ObsLoop:
    """for observer in self._observers: <one call on observer>  -- generic iteration i."""

    def __init__(self, what, props):
        self.what, self.props = what, props

    def run_for(self, eng, s, fr, it):
        gh = eng.st.ghost
        ol = gh["observers"]
        eng.prove("C12:%s:iterates-the-observer-list" % self.what, it == ol.ref, props=self.props)
        k = eng.choose(2, None, "observer i / done")
        if k == 1:
            gh.setdefault("obs_loops_done", []).append(self.what)
            return
        i = Int("i")
        eng.assume(And(i >= 0, i < ol.K))
        ob = ol.elem(i)
        eng.havoc_loop_locals(s, fr)
        n0 = len(events(eng))
        eng.assign(s.target, ob, fr)
        try:
            eng.exec_block(s.body, fr)
        except (_Break, _Continue):
            eng.prove("C12:%s:no-observer-skipped" % self.what, False, props=self.props)
        new = events(eng)[n0:]
        gh["obs_iter"] = (ob, new)
        eng.prove("C12:%s:exactly-one-action-on-observer-i" % self.what, len(new) == 1 and new[0][1] == ob, props=self.props)
        if len(new) == 1:
            gh["obs_check"](eng, new[0])
        raise PathEnd()


def unit_notify(sess, ctx):
    """_notify_observers / start_all / stop_all."""
    u = Unit("TokenizerWorker._notify_observers/start_all/stop_all",
             [QW + "TokenizerWorker._notify_observers", QW + "TokenizerWorker.start_all", QW + "TokenizerWorker.stop_all",
              QW + "Worker.stop", QW + "Worker.send"])
    eng = setup(sess, [QW + "Worker.stop", QW + "Worker.send"])
    eng.loop_specs = {(QW + "TokenizerWorker._notify_observers", 0): ObsLoop("notify", P1214),
                      (QW + "TokenizerWorker.start_all", 0): ObsLoop("start_all", P12),
                      (QW + "TokenizerWorker.stop_all", 0): ObsLoop("stop_all", P1214)}

    def run_(eng):
        gh = eng.st.ghost
        ol = ObsList(eng)
        gh["observers"] = ol
        rd = eng.st.new_obj("IReaderW", reader_fields(eng))
        eng.iface[("IReaderW", "close")] = lambda e, o, a, k: events(e).append(("reader.close", o))
        me, q = worker_obj(eng, "TokenizerWorker", {"_observers": ol.ref, "_reader": rd, "_detections": seq_lit("list", [], new_aid())})
        ib = Inbox()
        ib.install(eng)
        op = ["notify", "start_all", "stop_all"][eng.choose(3, None, "operation")]
        if op == "notify":
            m = Opq(tag="msg")
            gh["obs_check"] = lambda e, ev: e.prove("C12:notify:observer-i-gets-exactly-the-message", ev[0] == "obs.send" and ev[2] is m, props=P1214)
            eng.run_function(ctx.fi(QW + "TokenizerWorker._notify_observers"), [m], {}, me)
            eng.prove("C12:notify:all-observers-visited", gh.get("obs_loops_done") == ["notify"], props=P12)
        elif op == "start_all":
            gh["obs_check"] = lambda e, ev: e.prove("C12:start_all:observer-i-started-before-the-tokenizer",
                                                    ev[0] == "obs.start" and ("start", me) not in events(e), props=P12)
            eng.run_function(ctx.fi(QW + "TokenizerWorker.start_all"), [], {}, me)
            ev = events(eng)
            eng.prove("C12:start_all:tokenizer-started-last", ev and ev[-1] == ("start", me) and
                      sum(1 for x in ev if x == ("start", me)) == 1, props=P12)
        else:
            def chk(e, ev):
                evs = events(e)
                # wait-for condition: the tokenizer thread has been stopped AND joined before any observer is stopped
                e.prove("C14:stop_all:observers-stopped-only-after-the-tokenizer-was-joined",
                        ev[0] == "obs.stop" and ("join", me) in evs and evs.index(("join", me)) < evs.index(ev), props=P1214 + P13)
            gh["obs_check"] = chk
            eng.run_function(ctx.fi(QW + "TokenizerWorker.stop_all"), [], {}, me)
            ev = events(eng)
            eng.prove("C14:stop_all:tokenizer-gets-the-stop-marker-then-is-joined-first",
                      len(ev) >= 2 and ev[0][0] == "put" and ev[0][2] == STOP and ev[0][1] == q and ev[1] == ("join", me), props=P1214 + P13)
            eng.prove("C14:stop_all:reader-closed-last", ev[-1] == ("reader.close", rd) and
                      sum(1 for x in ev if x[0] == "reader.close") == 1, props=P1214 + P13)
        return None
    sess.run_unit(u, eng, run_)
    return u


def unit_tokenizer_run(sess, ctx):
    """TokenizerWorker.run: detection j (ids from 1) is appended to the worker's own
    list BEFORE (j, region) is sent to the observers; after the last region the stop
    marker is sent to every observer, then the reader is closed."""
    u = Unit("TokenizerWorker.run", [QW + "TokenizerWorker.run"])
    eng = setup(sess)
    fi = ctx.fi(QW + "TokenizerWorker.run")

    class Loop:
        def run_for(self, eng, s, fr, it):
            gh = eng.st.ghost
            ok = isinstance(it, GenVal) and it.kind == "enumerate" and it.src is gh["G"]
            eng.prove("C12:run:iterates-the-split()-regions-with-ids-from-1",
                      ok and isinstance(it.start, int) and it.start == 1, props=P1214)
            if not ok:
                raise PathEnd()
            ev0 = list(events(eng))
            eng.prove("C12:run:reader-opened-before-the-first-detection", ev0 == [("reader.open", gh["rd"])], props=P12)
            k = eng.choose(2, None, "detection j / no more regions")
            if k == 1:
                gh["loop_done"] = True
                return
            j = Int("j")
            eng.assume(j >= 1)
            meta, reg = detection_obj(eng)
            me = gh["me"]
            dets0 = eng.st.heap[me.oid]["_detections"]
            nd = Int("n_detections_so_far")
            dets_sym = Seq("list", nd, lambda i: Opq(tag="det"), dets0.aid)
            eng.st.heap[me.oid]["_detections"] = dets_sym
            gh["sends"] = []
            eng.havoc_loop_locals(s, fr)
            eng.assign(s.target, (j, reg), fr)
            try:
                eng.exec_block(s.body, fr)
            except (_Break, _Continue):
                eng.prove("C12:run:no-detection-skipped", False, props=P1214)
            dn = eng.st.heap[me.oid]["_detections"]
            okd = isinstance(dn, Seq) and dn.aid == dets0.aid
            eng.prove("C12:run:exactly-one-detection-recorded", I(dn.n) == nd + 1 if okd else False, props=P1214)
            d = dn.at(nd) if okd else None
            okt = isinstance(d, tuple) and hasattr(d, "_fields")
            h = eng.st.heap
            eng.prove("C12:run:recorded-detection-is-(j,start,end,duration)-of-the-region",
                      okt and d.id is j and d.start is h[meta.oid]["start"] and d.end is h[meta.oid]["end"] and
                      d.duration is h[reg.oid]["duration"], props=P1214)
            sn = gh["sends"]
            okm = len(sn) == 1 and isinstance(sn[0][0], tuple) and len(sn[0][0]) == 2 and sn[0][0][0] is j and sn[0][0][1] == reg
            eng.prove("C12:run:observers-notified-once-with-(j,region)", okm, props=P1214)
            eng.prove("C12:run:detection-recorded-before-observers-are-notified", okm and sn[0][1] == 1, props=P12)
            raise PathEnd()
    eng.loop_specs = {(fi.qualname, 0): Loop()}

    def run_(eng):
        gh = eng.st.ghost
        rd = eng.st.new_obj("IReaderW", reader_fields(eng))
        eng.iface[("IReaderW", "open")] = lambda e, o, a, k: events(e).append(("reader.open", o))
        eng.iface[("IReaderW", "close")] = lambda e, o, a, k: events(e).append(("reader.close", o))
        G = GenVal("abstract", name="regions", next_fn=None)
        me, q = worker_obj(eng, "TokenizerWorker", {"_observers": Opq(tag="observers"), "_reader": rd,
                                                     "_detections": seq_lit("list", [], new_aid()), "_audio_region_gen": G,
                                                     "_log_format": "x"})
        gh.update({"G": G, "me": me, "rd": rd})

        def c_notify(e, f, sv, a, k):
            dn = e.st.heap[me.oid]["_detections"]
            grown = 1 if (isinstance(dn, Seq) and z3.is_true(z3.simplify(I(dn.n) == Int("n_detections_so_far") + 1))) else 0
            gh.setdefault("sends", []).append((a[0], grown))
            events(e).append(("notify", a[0]))
        eng.contracts[QW + "TokenizerWorker._notify_observers"] = c_notify
        eng.current_fn = fi
        eng.run_function(fi, [], {}, me)
        ev = events(eng)
        eng.prove("C12:run:after-the-last-region-stop-marker-to-all-observers-then-reader-closed",
                  gh.get("loop_done") is True and len(ev) == 3 and ev[1] == ("notify", STOP) and ev[2] == ("reader.close", rd),
                  props=P1214 + P13)
        return None
    sess.run_unit(u, eng, run_)
    return u


def unit_tokenizer_init_read(sess, ctx):
    """TokenizerWorker.__init__ (regions come from split(input=self, **kwargs)) and
    read(): the wrapped reader's block, or None once a stop has been requested --
    without touching the reader."""
    u = Unit("TokenizerWorker.__init__/read", [QW + "TokenizerWorker.__init__", QW + "TokenizerWorker.read", QW + "Worker.__init__",
                                                   QW + "Worker._stop_requested"])
    eng = setup(sess, [QW + "Worker.__init__", QW + "Worker._stop_requested"])

    def run_(eng):
        gh = eng.st.ghost
        op = eng.choose(2, None, "__init__ / read")
        rd = eng.st.new_obj("IReaderW", reader_fields(eng))
        gh["rreads"] = 0
        blk = fresh_seq("bytes", "blk")
        rk = eng.choose(3, None, "reader: block / None / fails (device error)")

        def r_read(e, o, a, k):
            gh["rreads"] += 1
            if rk == 2:
                raise PyRaise("OSError", ("device error",))
            return blk if rk == 0 else None
        eng.iface[("IReaderW", "read")] = r_read
        if op == 0:
            calls = []
            G = GenVal("abstract", name="regions", next_fn=None)
            eng.contracts["auditok.core.split"] = lambda e, f, sv, a, k: calls.append((tuple(a), dict(k))) or G
            eng.ctor_contracts["Queue"] = queue_ctor
            me = eng.st.new_obj("TokenizerWorker", {})
            # the caller's list of observers: a list object of any length -- possibly still empty (observers may be appended
            # to it until start_all()); the worker must keep THAT object
            obs = Seq("list", Int(fresh_name("n_observers")), lambda i: Opq(), new_aid())
            eng.assume(I(obs.n) >= 0)
            # every keyword split() reads for a reader input, each with a symbolic presence flag
            KEYS = ("min_dur", "max_dur", "max_silence", "drop_trailing_silence", "strict_min_dur", "validator", "val",
                    "energy_threshold", "eth", "use_channel", "uc")
            kw = {K: Absentable(Bool("has_" + K), Opq(tag=K)) for K in KEYS}

            def same_kw(orig, got):
                if isinstance(got, Absentable):
                    return got.value is orig.value and z3.is_expr(got.present) and got.present.eq(orig.present)
                return False
            eng.run_function(ctx.fi(QW + "TokenizerWorker.__init__"), [rd, obs], dict(kw), me)
            h = eng.st.heap[me.oid]
            ok = len(calls) == 1 and not calls[0][0]
            k = calls[0][1] if ok else {}
            eng.prove("C12:init:regions-are-split(input=the-worker,**kwargs)",
                      ok and k.get("input") == me and h.get("_audio_region_gen") is G, props=P1214 + ("C15",))
            for K in KEYS:
                eng.prove("C12:init:keyword-%s-reaches-split-unchanged" % K, ok and same_kw(kw[K], k.get(K)), props=P1214 + ("C15",))
            d = h.get("_detections")
            eng.prove("C12:init:empty-detection-list-own-inbox", isinstance(d, Seq) and d.kind == "list" and isinstance(d.n, int) and d.n == 0
                      and isinstance(h.get("_inbox"), Ref) and h.get("_reader") == rd, props=P12)
            eng.prove("C12:init:keeps-the-very-list-of-observers-it-was-given", h.get("_observers") is obs, props=P1214 + P13 + ("C15",))
            return None
        me, q = worker_obj(eng, "TokenizerWorker", {"_reader": rd})
        ib = Inbox()
        ib.install(eng)
        stop = eng.choose(2, None, "stop requested?") == 1

        def nxt(e, how, kw):
            if stop:
                return STOP
            raise PyRaise("Empty", ())
        ib.next = nxt
        try:
            res = eng.run_function(ctx.fi(QW + "TokenizerWorker.read"), [], {}, me)
        except PyRaise as ex:
            # a failing reader ends the tokenizer thread (the error escapes run()); it must not keep it busy for ever --
            # a thread that never returns to its stop poll cannot be stopped
            eng.prove("C14:read:a-reader-failure-escapes-after-one-attempt", ex.exc == "OSError" and rk == 2 and gh["rreads"] == 1 and not stop,
                      props=P14 + P13)
            return None
        eng.prove("C14:read:polls-the-stop-marker-once-before-reading", ib.gets == 1, props=P14)
        if stop:
            eng.prove("C14:read:after-a-stop-returns-end-of-stream-without-touching-the-reader", res is None and gh["rreads"] == 0,
                      props=P14 + P13 + ("C08",))
        else:
            eng.prove("C12:read:is-the-wrapped-reader's-block", gh["rreads"] == 1 and (res is blk if rk == 0 else res is None),
                      props=P1214 + P13 + ("C15", "C08"))
        return None
    sess.run_unit(u, eng, run_)
    return u


# ---------------------------------------------------------------------------
# savers

def wave_writer(eng):
    """Library model of a wave writer: FILE grows by what writeframes is given."""
    gh = eng.st.ghost
    w = eng.st.new_obj("IWaveWriter", {})
    gh["file_writes"] = []
    gh["file_closed"] = False

    def wf(e, o, a, k):
        e.prove("C13:lib:no-write-after-close", not gh["file_closed"], props=P1314)
        gh["file_writes"].append(a[0])

    def cl(e, o, a, k):
        gh["file_closed"] = True
    eng.iface[("IWaveWriter", "writeframes")] = wf
    eng.iface[("IWaveWriter", "close")] = cl
    return w


def unit_stream_saver(sess, ctx):
    """StreamSaverWorker: invariant  FILE ++ concat(_cache) == concat(blocks consumed
    from the inbox) and _total_cached == len(concat(_cache));  _post_process drains
    the inbox in order, flushes and closes;  read() forwards every block to the
    writer queue before returning it, and the stop marker at end of stream;
    close() closes the reader, sends the stop marker and joins the writer."""
    u = Unit("StreamSaverWorker._process_message/_post_process/_write_cached_data/read/close",
             [QW + "StreamSaverWorker._process_message", QW + "StreamSaverWorker._post_process",
              QW + "StreamSaverWorker._write_cached_data", QW + "StreamSaverWorker.read", QW + "StreamSaverWorker.close",
              QW + "Worker.stop", QW + "Worker.send"])
    eng = setup(sess, [QW + "StreamSaverWorker._write_cached_data", QW + "Worker.stop", QW + "Worker.send"])
    fi_post = ctx.fi(QW + "StreamSaverWorker._post_process")

    def mk(eng, with_file=True):
        gh = eng.st.ghost
        w = wave_writer(eng)
        rd = eng.st.new_obj("IReaderW", reader_fields(eng))
        A = new_aid()
        catlen = Int("cached_bytes")
        eng.assume(catlen >= 0)
        f = z3.Function("cat.byte", IntS, IntS)
        cat = Seq("bytes", catlen, lambda t: f(I(t)))
        nb = Int("n_cached_blocks")
        eng.assume(And(nb >= 0, (nb == 0) == (catlen == 0)))     # blocks are non-empty (read() never returns b"")
        cache = cache_val(nb, cat, A)
        me, q = worker_obj(eng, "StreamSaverWorker", {"_reader": rd, "_wfp": w, "_cache": cache, "_total_cached": catlen,
                                                       "_cache_size": Fl(Real("cache_size"))})
        gh.update({"cat0": cat, "A": A})

        def on_append(e, tgt, x, new):
            if isinstance(tgt, CacheList):
                return cache_val(new.n, seq_concat(tgt.cat, x), tgt.aid)
            return new
        gh["on_append"] = on_append

        def join_any(e, sep, parts):
            if isinstance(parts, CacheList):
                e.prove("C13:saver:join-with-empty-separator", isinstance(sep, bytes) and sep == b"", props=P1314)
                return parts.cat
            return NotImplemented
        gh["bytes_join_any"] = join_any
        return me, q, w, rd, cat

    def total_written(eng):
        r = b""
        for d in eng.st.ghost["file_writes"]:
            r = seq_concat(r, d) if not (isinstance(r, bytes) and r == b"") else d
        return r

    def check_inv(eng, me, cat0, new_blocks, where, closed=None):
        """FILE_written_now ++ cache.cat == cat0 ++ new_blocks ; total == len(cache.cat)."""
        h = eng.st.heap[me.oid]
        c = h["_cache"]
        okc = isinstance(c, Seq) and c.kind == "list"
        ccat = c.cat if isinstance(c, CacheList) else (b"" if okc and isinstance(c.n, int) and c.n == 0 else None)
        eng.prove("C13:%s:cache-is-a-list-of-blocks" % where, okc and ccat is not None, props=P1314)
        if not okc or ccat is None:
            raise PathEnd()
        lhs = seq_concat(total_written(eng), ccat)
        rhs = cat0
        for b in new_blocks:
            rhs = seq_concat(rhs, b)
        eng.prove("C13:%s:file++cache==everything-consumed-in-order" % where, v_eq_goal(lhs, rhs), props=P1314)

    def as_len(x):
        return len(x) if isinstance(x, bytes) else x.n

    class Drain:
        def run_while(self, eng, s, fr):
            gh = eng.st.ghost
            eng.loop_guard_holds(s, fr, props=P1314)
            k = eng.choose(3, None, "drain: block / stop marker / empty")
            gh["drain_kind"] = k
            blk = fresh_seq("bytes", "late")
            eng.assume(I(blk.n) > 0)

            def nxt(e, how, kw):
                e.prove("C13:drain-does-not-block", how == "get_nowait", props=P1314)
                if k == 0:
                    return blk
                if k == 1:
                    return STOP
                raise PyRaise("Empty", ())
            gh["inbox"].next = nxt
            me, cat0 = gh["me"], gh["cat0"]
            eng.havoc_loop_locals(s, fr)
            try:
                eng.exec_block(s.body, fr)
            except _Break:
                eng.prove("C13:drain-ends-only-when-the-inbox-is-empty", k == 2, props=P1314)
                gh["drained"] = True
                return
            except _Continue:
                pass
            eng.prove("C13:drain-continues-until-empty", k != 2, props=P1314)
            check_inv(eng, me, cat0, [blk] if k == 0 else [], "drain")
            raise PathEnd()
    eng.loop_specs = {(fi_post.qualname, 0): Drain()}

    def run_(eng):
        gh = eng.st.ghost
        op = ["process", "post", "read", "close"][eng.choose(4, None, "operation")]
        me, q, w, rd, cat = mk(eng)
        ib = Inbox()
        ib.install(eng)
        gh.update({"inbox": ib, "me": me})
        h = eng.st.heap[me.oid]
        if op == "process":
            blk = fresh_seq("bytes", "blk")
            eng.assume(I(blk.n) > 0)
            eng.run_function(ctx.fi(QW + "StreamSaverWorker._process_message"), [blk], {}, me)
            check_inv(eng, me, cat, [blk], "process")
            eng.prove("C13:process:file-stays-open", not gh["file_closed"], props=P13)
        elif op == "post":
            eng.current_fn = fi_post
            eng.run_function(fi_post, [], {}, me)
            eng.prove("C13:post:drained-first", gh.get("drained") is True, props=P1314)
            # after the drain (arbitrary cache state satisfying the invariant): everything flushed, file closed
            c = h["_cache"]
            eng.prove("C13:post:cache-flushed", (I(c.n) == 0) if isinstance(c, Seq) else False, props=P1314)
            eng.prove("C13:post:file-holds-everything-then-is-closed",
                      v_eq_goal(total_written(eng), cat), props=P1314)
            eng.prove("C14:post:file-closed(header-complete)", gh["file_closed"] is True, props=P1314)
        elif op == "read":
            rk = eng.choose(2, None, "reader: block / None")
            blk = fresh_seq("bytes", "blk")
            eng.iface[("IReaderW", "read")] = lambda e, o, a, k: (events(e).append(("reader.read", o)), blk if rk == 0 else None)[1]
            res = eng.run_function(ctx.fi(QW + "StreamSaverWorker.read"), [], {}, me)
            ev = events(eng)
            if rk == 0:
                eng.prove("C13:read:block-forwarded-to-the-writer-then-returned-unchanged",
                          res is blk and len(ib.puts) == 1 and ib.puts[0] is blk and ev[0][0] == "reader.read", props=P1314)
            else:
                eng.prove("C13:read:end-of-stream-sends-the-stop-marker", res is None and ib.puts == [STOP], props=P1314 + P12)
        else:
            eng.iface[("IReaderW", "close")] = lambda e, o, a, k: events(e).append(("reader.close", o))
            eng.run_function(ctx.fi(QW + "StreamSaverWorker.close"), [], {}, me)
            ev = events(eng)
            eng.prove("C14:close:reader-closed-stop-marker-sent-then-writer-joined",
                      len(ev) == 3 and ev[0] == ("reader.close", rd) and ev[1][0] == "put" and ev[1][2] == STOP and ev[2] == ("join", me),
                      props=P1314 + P12)
        return None
    sess.run_unit(u, eng, run_)
    return u


def unit_joiner(sess, ctx):
    """AudioEventsJoinerWorker: FILE == e1 ++ sil ++ e2 ++ ... ++ ek, nothing before
    the first or after the last; _first_event <=> k == 0."""
    u = Unit("AudioEventsJoinerWorker._process_message/_post_process/_write_audio_event/__init__",
             [QW + "AudioEventsJoinerWorker._process_message", QW + "AudioEventsJoinerWorker._post_process",
              QW + "AudioEventsJoinerWorker._write_audio_event", QW + "AudioEventsJoinerWorker.__init__"])
    eng = setup(sess, [QW + "AudioEventsJoinerWorker._write_audio_event"])
    fi_post = ctx.fi(QW + "AudioEventsJoinerWorker._post_process")

    def event_obj(eng):
        d = fresh_seq("bytes", "event")
        return eng.st.new_obj("IRegion", {"data": d}), d

    def check_step(eng, first, sil, d, where):
        """what one event adds to the file: [sil] + data, silence only between events."""
        wr = eng.st.ghost["file_writes"]
        if first:
            eng.prove("C13:%s:first-event-written-without-leading-silence" % where, len(wr) == 1 and wr[0] is d, props=P13)
        else:
            eng.prove("C13:%s:later-event-preceded-by-exactly-the-silence" % where, len(wr) == 2 and wr[0] is sil and wr[1] is d, props=P13)
        nf = eng.st.heap[eng.st.ghost["me"].oid]["_first_event"]
        eng.prove("C13:%s:first-event-flag-cleared" % where, nf is False or (z3.is_expr(nf) and z3.is_false(z3.simplify(nf))), props=P13)

    class Drain:
        def run_while(self, eng, s, fr):
            gh = eng.st.ghost
            k = eng.choose(3, None, "drain: event / stop marker / empty")
            reg, d = event_obj(eng)

            def nxt(e, how, kw):
                e.prove("C13:joiner-drain-does-not-block", how == "get_nowait", props=P1314)
                if k == 0:
                    return (Int("id"), reg)
                if k == 1:
                    return STOP
                raise PyRaise("Empty", ())
            gh["inbox"].next = nxt
            eng.havoc_loop_locals(s, fr)
            eng.loop_guard_holds(s, fr, props=P1314)
            try:
                eng.exec_block(s.body, fr)
            except _Break:
                eng.prove("C13:joiner-drain-ends-only-when-empty", k == 2, props=P1314)
                gh["drained"] = True
                gh["file_writes"] = []
                return
            except _Continue:
                pass
            eng.prove("C13:joiner-drain-continues-until-empty", k != 2, props=P1314)
            if k == 0:
                check_step(eng, gh["first"], gh["sil"], d, "drain")
            else:
                eng.prove("C13:joiner-stop-marker-writes-nothing", gh["file_writes"] == [], props=P13)
            raise PathEnd()
    eng.loop_specs = {(fi_post.qualname, 0): Drain()}

    def run_(eng):
        gh = eng.st.ghost
        op = ["process", "post", "init"][eng.choose(3, None, "operation")]
        if op == "init":
            made = []
            sil_reg = eng.st.new_obj("IRegion", {"data": fresh_seq("bytes", "sil")})
            eng.contracts["auditok.core.make_silence"] = lambda e, f, sv, a, k: made.append((tuple(a), dict(k))) or sil_reg
            sup = []
            eng.contracts[QW + "AudioDataSaverWorker.__init__"] = lambda e, f, sv, a, k: sup.append((tuple(a), dict(k)))
            me = eng.st.new_obj("AudioEventsJoinerWorker", {})
            args = [Fl(Real("silence")), Opq(tag="fn"), Opq(tag="fmt"), Int("sr"), Int("sw"), Int("ch")]
            eng.run_function(ctx.fi(QW + "AudioEventsJoinerWorker.__init__"), args, {}, me)
            h = eng.st.heap[me.oid]
            eng.prove("C13:joiner-init:silence-is-make_silence(duration,rate,width,channels)",
                      made == [((args[0], args[3], args[4], args[5]), {})] and h.get("_silence_data") is eng.st.heap[sil_reg.oid]["data"],
                      props=P13)
            eng.prove("C13:joiner-init:starts-with-no-event-written", h.get("_first_event") is True, props=P13)
            eng.prove("C13:joiner-init:file-opened-with-the-given-format",
                      len(sup) == 1 and sup[0][0][:5] == (args[1], args[2], args[3], args[4], args[5]), props=P13)
            return None
        w = wave_writer(eng)
        sil = fresh_seq("bytes", "sil")
        first = eng.choose(2, None, "first event?") == 0
        me, q = worker_obj(eng, "AudioEventsJoinerWorker", {"_wfp": w, "_silence_data": sil, "_first_event": first})
        ib = Inbox()
        ib.install(eng)
        gh.update({"inbox": ib, "me": me, "first": first, "sil": sil})
        if op == "process":
            reg, d = event_obj(eng)
            eng.run_function(ctx.fi(QW + "AudioEventsJoinerWorker._process_message"), [(Int("id"), reg)], {}, me)
            check_step(eng, first, sil, d, "process")
        else:
            eng.current_fn = fi_post
            eng.run_function(fi_post, [], {}, me)
            eng.prove("C13:joiner-post:drained-then-closed-nothing-after-the-last-event",
                      gh.get("drained") is True and gh["file_closed"] is True and gh["file_writes"] == [], props=P1314)
        return None
    sess.run_unit(u, eng, run_)
    return u


def unit_region_saver(sess, ctx):
    """RegionSaverWorker._process_message: one save per detection, file name from the
    {id}/{start}/{end}/{duration} template."""
    u = Unit("RegionSaverWorker._process_message", [QW + "RegionSaverWorker._process_message"])
    eng = setup(sess)

    def run_(eng):
        gh = eng.st.ghost
        saves, fmts = [], []
        meta, reg = detection_obj(eng)
        eng.iface[("IRegion", "save")] = lambda e, o, a, k: saves.append((o, tuple(a), dict(k))) or Opq(tag="str")
        tpl, named = Opq(tag="str"), Opq(tag="str")

        def opq_method(e, obj, name, a, k):
            if obj is tpl and name == "format":
                fmts.append((tuple(a), dict(k)))
                return named
            return Opq(tag="str")
        gh["opq_str_method"] = opq_method
        af = Opq(tag="fmt")
        me, q = worker_obj(eng, "RegionSaverWorker", {"_filename_format": tpl, "_audio_format": af,
                                                      "_audio_parameters": DictVal({}), "_debug_format": "x"})
        j = Int("id")
        eng.run_function(ctx.fi(QW + "RegionSaverWorker._process_message"), [(j, reg)], {}, me)
        h = eng.st.heap
        ok = len(fmts) == 1 and not fmts[0][0]
        k = fmts[0][1] if ok else {}
        eng.prove("C13:region-saver:name-from-the-template-with-id-start-end-duration",
                  ok and k.get("id") is j and k.get("start") is h[meta.oid]["start"] and k.get("end") is h[meta.oid]["end"]
                  and k.get("duration") is h[reg.oid]["duration"], props=P13)
        eng.prove("C13:region-saver:one-file-per-detection-holding-that-region",
                  len(saves) == 1 and saves[0][0] == reg and saves[0][1][:2] == (named, af), props=P13)
        return None
    sess.run_unit(u, eng, run_)
    return u


def unit_print_worker(sess, ctx):
    """PrintWorker._process_message: prints printf.format(id, start=fmt(start), end=fmt(end),
    duration=fmt(duration), timestamp=...) -- exactly one line per detection."""
    u = Unit("PrintWorker._process_message", [QW + "PrintWorker._process_message"])
    eng = setup(sess)

    def run_(eng):
        gh = eng.st.ghost
        fmts, fcalls = [], []
        meta, reg = detection_obj(eng, with_ts=True)
        tpl, line = Opq(tag="str"), Opq(tag="str")

        def opq_method(e, obj, name, a, k):
            if obj is tpl and name == "format":
                fmts.append((tuple(a), dict(k)))
                return line
            return Opq(tag="str")
        gh["opq_str_method"] = opq_method

        def ft(e, a, k):
            r = Opq(tag="str")
            fcalls.append((a[0], r))
            return r
        me, q = worker_obj(eng, "PrintWorker", {"_print_format": tpl, "_format_time": LibCallable("formatter", ft),
                                                "_timestamp_format": Opq(tag="str"), "detections": seq_lit("list", [])})
        j = Int("id")
        eng.run_function(ctx.fi(QW + "PrintWorker._process_message"), [(j, reg)], {}, me)
        out = gh.get("stdout", [])
        h = eng.st.heap

        def fm(v):
            for a, r in fcalls:
                if a is v:
                    return r
            return None
        ok = len(fmts) == 1 and not fmts[0][0]
        k = fmts[0][1] if ok else {}
        eng.prove("C15:print:line-is-the-template-with-id-and-formatted-start-end-duration",
                  ok and k.get("id") is j and k.get("start") is fm(h[meta.oid]["start"]) and k.get("end") is fm(h[meta.oid]["end"])
                  and k.get("duration") is fm(h[reg.oid]["duration"]) and k.get("start") is not None and len(fcalls) == 3,
                  props=("C15", "C12"))
        eng.prove("C15:print:exactly-one-line-per-detection", len(out) == 1 and out[0][0] == (line,) and not out[0][1],
                  props=("C15", "C12"))
        return None
    sess.run_unit(u, eng, run_)
    return u


def unit_observers_misc(sess, ctx):
    """What the other units take for granted about the observers and the two reader-like workers:
    constructors of RegionSaverWorker / PrintWorker / PlayerWorker / CommandLineWorker keep what they are given;
    PlayerWorker and CommandLineWorker act exactly once on the region of the message they are handed; logging goes to the
    logger; TokenizerWorker.detections / .reader / attribute forwarding; StreamSaverWorker's attribute forwarding (the
    tokenizer reads the wrapped reader's format and block duration THROUGH it), open / rewind (no effect), data."""
    u = Unit("observer constructors, Player/CommandLine workers, attribute forwarding of the reader-like workers",
             [QW + x for x in ("RegionSaverWorker.__init__", "PrintWorker.__init__", "PlayerWorker.__init__", "PlayerWorker._process_message",
                               "CommandLineWorker.__init__", "CommandLineWorker._process_message", "Worker._log",
                               "TokenizerWorker.detections", "TokenizerWorker.reader", "TokenizerWorker.__getattr__",
                               "StreamSaverWorker.__getattr__", "StreamSaverWorker.open", "StreamSaverWorker.rewind",
                               "StreamSaverWorker.data")])
    eng = setup(sess, [QW + "Worker.__init__", QW + "Worker._log"])
    ops = ["region_saver_init", "print_init", "player", "command", "tok_props", "saver_attr", "saver_misc"]
    PO = ("C12", "C13", "C15")

    def run_(eng):
        gh = eng.st.ghost
        st = eng.st
        eng.ctor_contracts = dict(eng.ctor_contracts)
        eng.ctor_contracts["Queue"] = queue_ctor
        op = ops[eng.choose(len(ops), None, "operation")]
        tmo = Fl(Real("timeout"))
        logs = []
        lg = st.new_obj("ILogger", {}) if eng.choose(2, None, "logger given?") == 0 else None
        eng.iface[("ILogger", "info")] = lambda e, o, a, k: logs.append(tuple(a))
        if op == "region_saver_init":
            me = st.new_obj("RegionSaverWorker", {})
            tpl, af, xv = Opq(tag="str"), Opq(tag="fmt"), Int("x")
            eng.run_function(ctx.fi(QW + "RegionSaverWorker.__init__"), [tpl], {"audio_format": af, "timeout": tmo, "logger": lg, "sr": xv}, me)
            h = st.heap[me.oid]
            ap = h.get("_audio_parameters")
            eng.prove("C13:region-saver-init:keeps-template-format-and-audio-parameters",
                      h.get("_filename_format") is tpl and h.get("_audio_format") is af and isinstance(ap, DictVal)
                      and set(ap.entries) == {"sr"} and ap.entries["sr"][1] is xv, props=("C13", "C15"))
            eng.prove("C12:observer-init:own-inbox-timeout-logger", isinstance(h.get("_inbox"), Ref) and h.get("_timeout") is tmo
                      and h.get("_logger") == lg, props=PO)
            return None
        if op == "print_init":
            made = []
            fmtr = LibCallable("formatter", lambda e, a, k: Opq(tag="str"))

            def c_mdf(e, fi_, sv, a, k):
                made.append((tuple(a), dict(k)))
                return fmtr
            eng.contracts["auditok.util.make_duration_formatter"] = c_mdf
            me = st.new_obj("PrintWorker", {})
            pf, tf, tsf = Opq(tag="str"), Opq(tag="str"), Opq(tag="str")
            eng.run_function(ctx.fi(QW + "PrintWorker.__init__"), [], {"print_format": pf, "time_format": tf, "timestamp_format": tsf,
                                                                      "timeout": tmo}, me)
            h = st.heap[me.oid]
            eng.prove("C15:print-init:template-time-formatter-and-timestamp-format-are-the-given-ones",
                      h.get("_print_format") is pf and h.get("_timestamp_format") is tsf and h.get("_format_time") is fmtr
                      and made == [((tf,), {})], props=("C15", "C12"))
            eng.prove("C12:observer-init:own-inbox-timeout-logger", isinstance(h.get("_inbox"), Ref) and h.get("_timeout") is tmo, props=PO)
            return None
        meta, reg = detection_obj(eng)
        j = Int("id")
        if op == "player":
            plays = []
            eng.iface[("IRegion", "play")] = lambda e, o, a, k: plays.append((o, tuple(a), dict(k)))
            pl, pb = st.new_obj("IPlayer", {}), Bool("progress_bar")
            me = st.new_obj("PlayerWorker", {})
            eng.run_function(ctx.fi(QW + "PlayerWorker.__init__"), [pl], {"progress_bar": pb, "timeout": tmo, "logger": lg}, me)
            eng.run_function(ctx.fi(QW + "PlayerWorker._process_message"), [(j, reg)], {}, me)
            eng.prove("C12:player:plays-the-region-of-the-message-once-on-its-player",
                      len(plays) == 1 and plays[0][0] == reg and plays[0][2].get("player") == pl and plays[0][2].get("progress_bar") is pb,
                      props=("C12", "C15"))
            eng.prove("C12:player:logs-only-to-a-given-logger", (len(logs) == 1) == (lg is not None) and len(logs) <= 1, props=("C12",))
            return None
        if op == "command":
            saves, syscalls, fmts = [], [], []
            fname, cmd_tpl, cmd = Opq(tag="str"), Opq(tag="str"), Opq(tag="str")
            saved_as = Opq(tag="str")
            eng.iface[("IRegion", "save")] = lambda e, o, a, k: saves.append((o, tuple(a), dict(k))) or saved_as
            tf_ = st.new_obj("ITempFile", {"name": fname})
            eng.iface[("ITempFile", "__enter__")] = lambda e, o, a, k: o
            eng.iface[("ITempFile", "__exit__")] = lambda e, o, a, k: None
            tmpk = []
            eng.lib["tempfile.NamedTemporaryFile"] = lambda e, a, k: tmpk.append(dict(k)) or tf_
            eng.lib["os.system"] = lambda e, a, k: syscalls.append(tuple(a)) or 0

            def opq_method(e, obj, name, a, k):
                if obj is cmd_tpl and name == "format":
                    fmts.append((tuple(a), dict(k)))
                    return cmd
                return Opq(tag="str")
            gh["opq_str_method"] = opq_method
            me = st.new_obj("CommandLineWorker", {})
            eng.run_function(ctx.fi(QW + "CommandLineWorker.__init__"), [cmd_tpl], {"timeout": tmo, "logger": lg}, me)
            eng.run_function(ctx.fi(QW + "CommandLineWorker._process_message"), [(j, reg)], {}, me)
            eng.prove("C12:command:region-saved-as-wav-to-a-temporary-file-that-is-kept",
                      len(saves) == 1 and saves[0][0] == reg and saves[0][1][:1] == (fname,) and
                      (saves[0][2].get("audio_format") == "wav" or saves[0][1][1:2] == ("wav",)) and tmpk == [{"delete": False}],
                      props=("C12", "C15"))
            eng.prove("C12:command:runs-the-command-template-once-with-that-file",
                      fmts == [((), {"file": saved_as})] and syscalls == [(cmd,)], props=("C12", "C15"))
            return None
        if op == "tok_props":
            rd = st.new_obj("IReaderW", {"sr": Int("rd.sr"), "block_dur": Fl(Real("rd.bd"))})
            dets = seq_lit("list", [], new_aid())
            me, q = worker_obj(eng, "TokenizerWorker", {"_reader": rd, "_detections": dets, "_observers": Opq(tag="obs")})
            eng.inline |= {QW + "TokenizerWorker.__getattr__", QW + "TokenizerWorker.detections", QW + "TokenizerWorker.reader"}
            eng.prove("C12:tokenizer:detections-is-the-worker's-own-list", eng.getattr(me, "detections") is dets, props=("C12", "C14", "C15"))
            eng.prove("C12:tokenizer:reader-property", eng.getattr(me, "reader") == rd, props=("C12",))
            eng.prove("C12:tokenizer:unknown-attributes-are-the-reader's(format,block-duration)",
                      eng.getattr(me, "sr") is st.heap[rd.oid]["sr"] and eng.getattr(me, "block_dur") is st.heap[rd.oid]["block_dur"],
                      props=("C12", "C13", "C05"))
            return None
        rd = st.new_obj("IReaderW", {"block_dur": Fl(Real("rd.bd")), "max_read": Fl(Real("rd.mr"))})
        w = st.new_obj("IWaveWriter", {})
        me, q = worker_obj(eng, "StreamSaverWorker", {"_reader": rd, "_wfp": w, "_cache": seq_lit("list", [], new_aid()),
                                                       "_total_cached": 0, "_cache_size": Fl(Real("cs"))})
        eng.inline |= {QW + "StreamSaverWorker.__getattr__", QW + "AudioDataSaverWorker.sr", QW + "AudioDataSaverWorker.sw",
                       QW + "AudioDataSaverWorker.ch", QW + "StreamSaverWorker.data"}
        h = st.heap[me.oid]
        if op == "saver_attr":
            eng.prove("C13:stream-saver:block-duration-and-other-reader-attributes-are-the-wrapped-reader's",
                      eng.getattr(me, "block_dur") is st.heap[rd.oid]["block_dur"] and eng.getattr(me, "max_read") is st.heap[rd.oid]["max_read"],
                      props=("C13", "C12", "C05"))
            eng.prove("C13:stream-saver:format-is-the-one-the-file-was-created-with",
                      eng.getattr(me, "sr") is h["_sampling_rate"] and eng.getattr(me, "sw") is h["_sample_width"]
                      and eng.getattr(me, "ch") is h["_channels"], props=("C13", "C12"))
            return None
        # saver_misc: open() opens the wrapped reader (nothing else); rewind() exists for compatibility and does nothing;
        # data is the temporary file's frames
        snap = dict(h)
        rcalls = []
        eng.iface[("IReaderW", "open")] = lambda e, o, a, k: rcalls.append(("open", o, tuple(a)))
        eng.iface[("IReaderW", "read")] = lambda e, o, a, k: rcalls.append(("read", o, tuple(a)))
        eng.iface[("IReaderW", "close")] = lambda e, o, a, k: rcalls.append(("close", o, tuple(a)))
        eng.call_value(eng.getattr(me, "open"), [], {})
        eng.prove("C13:stream-saver:open-opens-the-wrapped-reader-and-nothing-else", rcalls == [("open", rd, ())] and
                  all(h.get(k_) is v_ or h.get(k_) == v_ for k_, v_ in snap.items()) and set(h) == set(snap) and not events(eng),
                  props=("C13", "C12"))
        eng.call_value(eng.getattr(me, "rewind"), [], {})
        eng.prove("C13:stream-saver:rewind-changes-nothing", len(rcalls) == 1 and all(h.get(k_) is v_ or h.get(k_) == v_ for k_, v_ in snap.items())
                  and set(h) == set(snap) and not events(eng), props=("C13",))
        opened = []
        frames = fresh_seq("bytes", "file.frames")
        wr = st.new_obj("WaveObj", {})
        eng.iface[("WaveObj", "__enter__")] = lambda e, o, a, k: o
        eng.iface[("WaveObj", "__exit__")] = lambda e, o, a, k: None
        eng.iface[("WaveObj", "readframes")] = lambda e, o, a, k: opened.append(("readframes", tuple(a))) or frames
        eng.lib["wave.open"] = lambda e, a, k: opened.append(("open", tuple(a))) or wr
        d = eng.getattr(me, "data")
        eng.prove("C13:stream-saver:data-is-every-frame-of-the-temporary-wav",
                  d is frames and opened[:1] == [("open", (h["_tmp_output_filename"], "rb"))] and
                  len(opened) == 2 and opened[1][0] == "readframes" and len(opened[1][1]) == 1 and
                  isinstance(opened[1][1][0], int) and opened[1][1][0] < 0, props=("C13",))
        return None
    sess.run_unit(u, eng, run_)
    return u


def unit_export(sess, ctx):
    """AudioDataSaverWorker.export_audio / _encode_export_audio / _export_raw / _export_with_*: what ends up under the
    requested file name.  wav: the file the worker wrote IS the output (nothing to do); raw: the frames of that wav file are
    written, once, to the output name; any other format: the external converters (ffmpeg, avconv, sox) are tried on the
    temporary wav, the first that succeeds ends it; if none does the error names the temporary wav and export_audio turns it
    into an AudioEncodingWarning; a second export does nothing."""
    u = Unit("AudioDataSaverWorker.export_audio/_encode_export_audio/_export_raw/_export_with_ffmpeg_or_avconv/_export_with_sox",
             [QW + "AudioDataSaverWorker." + x for x in ("export_audio", "_encode_export_audio", "_export_raw",
                                                         "_export_with_ffmpeg_or_avconv", "_export_with_sox", "data")])
    eng = setup(sess, [QW + "AudioDataSaverWorker." + x for x in ("_encode_export_audio", "_export_raw", "_export_with_ffmpeg_or_avconv",
                                                                     "_export_with_sox", "data")])
    fmts = ["wav", "raw", "ogg"]
    PE = ("C13", "C15")

    def run_(eng):
        st = eng.st
        fmt = fmts[eng.choose(3, None, "export format")]
        already = eng.choose(2, None, "already exported?") == 0
        out_name, tmp_name = Opq(tag="str"), Opq(tag="str")
        me, q = worker_obj(eng, "AudioDataSaverWorker", {"_wfp": st.new_obj("IWaveWriter", {})})
        h = st.heap[me.oid]
        h.update({"_output_filename": out_name, "_tmp_output_filename": out_name if fmt == "wav" else tmp_name,
                  "_export_format": fmt, "_exported": already})
        frames = fresh_seq("bytes", "tmp.frames")
        io_log = []
        wr = st.new_obj("WaveObj", {})
        eng.iface[("WaveObj", "__enter__")] = lambda e, o, a, k: o
        eng.iface[("WaveObj", "__exit__")] = lambda e, o, a, k: None
        eng.iface[("WaveObj", "readframes")] = lambda e, o, a, k: io_log.append(("readframes", tuple(a))) or frames
        eng.lib["wave.open"] = lambda e, a, k: io_log.append(("wave.open", tuple(a))) or wr
        fo = st.new_obj("FileObj", {})
        eng.iface[("FileObj", "__enter__")] = lambda e, o, a, k: o
        eng.iface[("FileObj", "__exit__")] = lambda e, o, a, k: None
        eng.iface[("FileObj", "write")] = lambda e, o, a, k: io_log.append(("write", tuple(a)))
        eng.lib["builtin.open"] = lambda e, a, k: io_log.append(("open", tuple(a))) or fo
        tools = []
        outcome = {}

        def c_run(e, fi_, sv, a, k):
            cmd = e.force(a[0])
            items = list(cmd.items) if isinstance(cmd, Seq) and cmd.items is not None else list(cmd)
            tool = items[0]
            tools.append((tool, items))
            kind = e.choose(3, None, "%s: succeeds / fails (non-zero status) / cannot be run" % tool)
            outcome[tool] = kind
            if kind == 2:
                raise PyRaise("AudioEncodingError", ())
            return (0 if kind == 0 else 1, Opq(tag="bytes"), Opq(tag="stderr"))
        eng.contracts[QW + "_run_subprocess"] = c_run
        raised = None
        try:
            res = eng.run_function(ctx.fi(QW + "AudioDataSaverWorker.export_audio"), [], {}, me)
        except PyRaise as ex:
            raised = ex
        if already:
            eng.prove("C13:export:a-second-export-does-nothing", raised is None and res is out_name and not io_log and not tools, props=PE)
            return None
        if fmt == "wav":
            eng.prove("C13:export:wav-output-is-the-file-the-worker-wrote(nothing-copied-or-converted)",
                      raised is None and res is out_name and not io_log and not tools and h["_exported"] is True, props=PE)
            return None
        if fmt == "raw":
            ok = raised is None and res is out_name and h["_exported"] is True and not tools and len(io_log) == 4
            if ok:
                ok = io_log[0] == ("open", (out_name, "wb")) and io_log[1] == ("wave.open", (tmp_name, "rb")) and io_log[2][0] == "readframes" \
                    and isinstance(io_log[2][1][0], int) and io_log[2][1][0] < 0 and io_log[3] == ("write", (frames,))
            eng.prove("C13:export:raw-output-holds-exactly-the-frames-of-the-temporary-wav", ok, props=PE)
            return None
        order = [t for t, _ in tools]
        good = [t for t in order if outcome[t] == 0]
        eng.prove("C13:export:external-converters-are-tried-until-one-succeeds-and-none-after-it",
                  len(order) >= 1 and set(order) <= {"ffmpeg", "avconv", "sox"} and len(set(order)) == len(order)
                  and (not good or good == [order[-1]]), props=PE)
        okargs = all(tmp_name in [x for x in it] and out_name in [x for x in it] for _, it in tools)
        eng.prove("C13:export:every-converter-reads-the-temporary-wav-and-writes-the-requested-name", okargs, props=PE)
        if good:
            eng.prove("C13:export:success-returns-the-requested-name", raised is None and res is out_name and h["_exported"] is True, props=PE)
        else:
            eng.prove("C13:export:when-no-converter-works-the-failure-is-an-AudioEncodingWarning-and-nothing-is-marked-exported",
                      raised is not None and raised.exc == "AudioEncodingWarning" and h["_exported"] is False, props=PE)
        return None
    sess.run_unit(u, eng, run_)
    return u


def unit_saver_init(sess, ctx):
    """AudioDataSaverWorker.__init__/_init_output_stream and StreamSaverWorker.__init__:
    the wave writer gets the reader's rate, width and channels, un-swapped."""
    u = Unit("AudioDataSaverWorker.__init__/_init_output_stream, StreamSaverWorker.__init__",
             [QW + "AudioDataSaverWorker.__init__", QW + "AudioDataSaverWorker._init_output_stream",
              QW + "StreamSaverWorker.__init__", QW + "Worker.__init__"])
    eng = setup(sess, [QW + "AudioDataSaverWorker._init_output_stream", QW + "Worker.__init__", QW + "AudioDataSaverWorker.__init__",
                       QW + "AudioDataSaverWorker.sr", QW + "AudioDataSaverWorker.sw", QW + "AudioDataSaverWorker.ch"])

    def run_(eng):
        gh = eng.st.ghost
        log = []
        eng.ctor_contracts["Queue"] = queue_ctor
        w = eng.st.new_obj("IWaveWriter", {})
        eng.lib["wave.open"] = lambda e, a, k: log.append(("wave.open", tuple(a))) or w
        for nm in ("setframerate", "setsampwidth", "setnchannels"):
            eng.iface[("IWaveWriter", nm)] = (lambda n: lambda e, o, a, k: log.append((n, a[0])))(nm)
        fmt = ["wav", None, "ogg"][eng.choose(3, None, "export format wav / guessed None / another format")]
        eng.contracts["auditok.io._guess_audio_format"] = lambda e, f, sv, a, k: fmt
        # a non-wav export writes to an intermediate wav first: its name must be one that does NOT exist yet (a name taken
        # blindly may belong to another saver, or to the user) -- the search loop queries the file system until it finds one
        exq = []

        def lib_exists(e, a, k):
            b = Bool(fresh_name("exists"))
            exq.append((a[0], b))
            return b
        eng.lib["os.path.exists"] = lib_exists

        class NameLoop:
            def run_while(self, e, st_, fr):
                k_ = e.choose(3, None, "name search: first candidate is free / one more candidate / a later candidate is free")
                if k_ == 0:
                    if e.decide(e.truth(e.eval(st_.test, fr))):
                        raise PathEnd()
                    return
                fr.env["i"] = Int(fresh_name("i"))
                e.assume(fr.env["i"] >= 0)
                fr.env["filename"] = Opq(tag="str")
                if k_ == 1:
                    if not e.decide(e.truth(e.eval(st_.test, fr))):
                        raise PathEnd()
                    try:
                        e.exec_block(st_.body, fr)
                    except (_Break, _Continue):
                        pass
                    raise PathEnd()
                if e.decide(e.truth(e.eval(st_.test, fr))):
                    raise PathEnd()
        eng.loop_specs = dict(getattr(eng, "loop_specs", {}))
        eng.loop_specs[(QW + "AudioDataSaverWorker._get_non_existent_filename", 0)] = NameLoop()
        sr, sw, ch = Int("sr"), Int("sw"), Int("ch")
        fn = Opq(tag="str")
        which = eng.choose(2, None, "AudioDataSaverWorker / StreamSaverWorker")
        if which == 0:
            me = eng.st.new_obj("AudioDataSaverWorker", {})
            eng.run_function(ctx.fi(QW + "AudioDataSaverWorker.__init__"), [fn, Opq(tag="fmt"), sr, sw, ch], {}, me)
        else:
            rd = eng.st.new_obj("IReaderW", {"sr": sr, "sw": sw, "ch": ch})
            me = eng.st.new_obj("StreamSaverWorker", {})
            eng.run_function(ctx.fi(QW + "StreamSaverWorker.__init__"), [rd, fn], {}, me)
            h = eng.st.heap[me.oid]
            c = h.get("_cache")
            eng.prove("C13:stream-saver-init:empty-cache", isinstance(c, Seq) and isinstance(c.n, int) and c.n == 0 and
                      is_int(h.get("_total_cached")) and z3.is_true(z3.simplify(I(h["_total_cached"]) == 0)) and h.get("_reader") == rd, props=P13)
        sets = dict((x[0], x[1]) for x in log if x[0].startswith("set"))
        opens = [x for x in log if x[0] == "wave.open"]
        if fmt == "ogg":
            h_ = eng.st.heap[me.oid]
            tmpn = h_.get("_tmp_output_filename")
            eng.prove("C13:saver-init:intermediate-wav-gets-a-name-the-file-system-says-is-free",
                      bool(exq) and exq[-1][0] is tmpn and tmpn is not fn and len(opens) == 1 and opens[0][1][0] is tmpn,
                      props=P1314 + ("C15",))
            eng.assume(Not(exq[-1][1]) if exq else z3.BoolVal(True))
        else:
            eng.prove("C13:saver-init:wave-file-opened-for-writing-under-the-given-name",
                      len(opens) == 1 and opens[0][1][0] is fn and opens[0][1][1] in ("wb", "w"), props=P1314)
        eng.prove("C13:saver-init:header-gets-rate-width-channels-un-swapped",
                  sets.get("setframerate") is sr and sets.get("setsampwidth") is sw and sets.get("setnchannels") is ch, props=P1314)
        return None
    sess.run_unit(u, eng, run_)
    return u


def unit_split_and_join(sess, ctx):
    """split_and_join_with_silence: silence.join(regions) with make_silence(d) in the
    first region's format; None when nothing is detected."""
    u = Unit("split_and_join_with_silence", ["auditok.core.split_and_join_with_silence"])
    eng = setup(sess)

    def run_(eng):
        calls = []
        G = GenVal("abstract", name="regions", next_fn=None)
        eng.contracts["auditok.core.split"] = lambda e, f, sv, a, k: calls.append(("split", tuple(a), dict(k))) or G
        empty = eng.choose(2, None, "no region / some regions") == 0
        sr, sw, ch = Int("sr"), Int("sw"), Int("ch")
        first = eng.st.new_obj("IRegion", {"sr": sr, "sw": sw, "ch": ch})
        if empty:
            lst = seq_lit("list", [], new_aid())
        else:
            n = Int("n_regions")
            eng.assume(n >= 1)
            def is0(i):
                return (isinstance(i, int) and i == 0) or (z3.is_expr(i) and z3.is_int_value(z3.simplify(i)) and z3.simplify(i).as_long() == 0)
            lst = Seq("list", n, lambda i: first if is0(i) else eng.st.new_obj("IRegion", {}), new_aid())
        eng.st.ghost["gen_to_list"] = lambda e, g: (calls.append(("list", g)), lst)[1]
        sil = eng.st.new_obj("ISilence", {})
        eng.contracts["auditok.core.make_silence"] = lambda e, f, sv, a, k: calls.append(("make_silence", tuple(a), dict(k))) or sil
        joined = Opq(tag="region")
        eng.iface[("ISilence", "join")] = lambda e, o, a, k: calls.append(("join", tuple(a))) or joined
        inp, d = Opq(tag="input"), Fl(Real("silence"))
        res = eng.run_function(ctx.fi("auditok.core.split_and_join_with_silence"), [inp, d], {"min_dur": Opq(tag="x")})
        if empty:
            eng.prove("C13:split_and_join:None-without-events", res is None and [c[0] for c in calls] == ["split", "list"], props=P13)
        else:
            ok = [c[0] for c in calls] == ["split", "list", "make_silence", "join"]
            eng.prove("C13:split_and_join:is-silence.join(regions)-with-silence-in-the-first-region's-format",
                      ok and calls[0][1] == (inp,) and calls[2][1] == (d, sr, sw, ch) and calls[3][1] == (lst,) and res is joined, props=P13)
        return None
    sess.run_unit(u, eng, run_)
    return u


def unit_structure(sess, ctx):
    """Side conditions of the thread-modular reduction, read off the AST of
    auditok/workers.py: single consumer per inbox, put only through send, joins
    only in stop()/stop_all-style sequences after the stop marker, field ownership."""
    u = Unit("workers.py(structure)", [], kind="lemma")
    eng = sess.engine()
    mod = sess.prog.modules["auditok.workers"]

    def run_(eng):
        gets, puts, joins, det_writes = [], [], [], []
        for cname, c in mod.classes.items():
            for mname, fi in list(c.methods.items()):
                for node in ast.walk(fi.node):
                    if isinstance(node, ast.Call) and isinstance(node.func, ast.Attribute):
                        tgt = ast.unparse(node.func.value)
                        if node.func.attr in ("get", "get_nowait") and tgt.endswith("_inbox"):
                            gets.append("%s.%s" % (cname, mname))
                        if node.func.attr == "put" and tgt.endswith("_inbox"):
                            puts.append("%s.%s" % (cname, mname))
                        if node.func.attr == "join" and tgt == "self":
                            joins.append("%s.%s" % (cname, mname))
                        if node.func.attr in ("append", "extend", "insert", "pop", "remove", "clear") and tgt.endswith("_detections"):
                            det_writes.append("%s.%s" % (cname, mname))
                    if isinstance(node, (ast.Assign, ast.AugAssign)):
                        tg = node.targets if isinstance(node, ast.Assign) else [node.target]
                        for t in tg:
                            if isinstance(t, ast.Attribute) and t.attr == "_detections" and mname != "__init__":
                                det_writes.append("%s.%s" % (cname, mname))
        allowed_get = {"Worker._get_message", "Worker._stop_requested", "StreamSaverWorker._post_process",
                       "AudioEventsJoinerWorker._post_process"}
        eng.prove("C12:structure:inbox-consumed-only-by-its-owner's-loop-methods %s" % sorted(set(gets) - allowed_get),
                  set(gets) <= allowed_get, props=P1214 + P13)
        eng.prove("C12:structure:messages-enter-an-inbox-only-through-send %s" % sorted(set(puts)), set(puts) == {"Worker.send"},
                  props=P1214 + P13)
        eng.prove("C14:structure:a-worker-joins-itself-only-in-stop()-after-sending-the-stop-marker %s" % sorted(set(joins)),
                  set(joins) == {"Worker.stop"}, props=P1214 + P13)
        eng.prove("C12:structure:detections-list-written-only-by-the-tokenizer-thread %s" % sorted(set(det_writes)),
                  set(det_writes) <= {"TokenizerWorker.run"}, props=P1214)
        # _stop_requested is called only from TokenizerWorker.read (tokenizer thread, via the region generator)
        callers = []
        for cname, c in mod.classes.items():
            for mname, fi in c.methods.items():
                for node in ast.walk(fi.node):
                    if isinstance(node, ast.Call) and isinstance(node.func, ast.Attribute) and node.func.attr == "_stop_requested":
                        callers.append("%s.%s" % (cname, mname))
        eng.prove("C14:structure:stop-poll-only-in-the-tokenizer's-read %s" % callers, callers == ["TokenizerWorker.read"], props=P14)
    sess.run_unit(u, eng, run_)
    return u


UNITS = {
    "worker_run": lambda sess, ctx, opts: unit_worker_run(sess, ctx),
    "worker_misc": lambda sess, ctx, opts: unit_worker_misc(sess, ctx),
    "notify": lambda sess, ctx, opts: unit_notify(sess, ctx),
    "tokenizer_run": lambda sess, ctx, opts: unit_tokenizer_run(sess, ctx),
    "tokenizer_init_read": lambda sess, ctx, opts: unit_tokenizer_init_read(sess, ctx),
    "stream_saver": lambda sess, ctx, opts: unit_stream_saver(sess, ctx),
    "joiner": lambda sess, ctx, opts: unit_joiner(sess, ctx),
    "region_saver": lambda sess, ctx, opts: unit_region_saver(sess, ctx),
    "print_worker": lambda sess, ctx, opts: unit_print_worker(sess, ctx),
    "observers_misc": lambda sess, ctx, opts: unit_observers_misc(sess, ctx),
    "export": lambda sess, ctx, opts: unit_export(sess, ctx),
    "saver_init": lambda sess, ctx, opts: unit_saver_init(sess, ctx),
    "split_and_join": lambda sess, ctx, opts: unit_split_and_join(sess, ctx),
    "structure": lambda sess, ctx, opts: unit_structure(sess, ctx),
}

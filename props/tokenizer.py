"""Contracts for auditok.core.StreamTokenizer  (C01, C02, C03, C04, C08, C20).

Ghost history of a run:  F(k) = k-th frame read, V(k) = the validator's
verdict on it (an arbitrary Boolean per index: every validator, including
stateful ones), n = number of frames read so far.

Spec functions (recurrences over the verdict sequence only):
  run(k)  length of the invalid run ending at k           (run(-1) = 0)
  ext(k)  k lies in an extended stretch: V(k) or (ext(k-1) and run(k) <= s')
  S(k)    first frame of the stretch containing k
  ps(k)   first frame of the max_length-piece containing k
with s' = max(max_continuous_silence, 0).
"""
import z3
from z3 import And, Or, Not, Implies, If, Int, Bool, IntVal

from pyvc.engine import (Engine, PyRaise, PathEnd, Unsupported, LibCallable, GenVal, Closure,
                         BoundMethod, DictVal, new_aid)
from pyvc.values import Seq, Opq, Ref, ValS, IntS, BoolS, I, B, fresh_name, seq_lit, v_eq_goal, ClassVal
from pyvc.harness import Unit, CheckerError

Q = "auditok.core.StreamTokenizer."
SILENCE, POSSIBLE_SILENCE, POSSIBLE_NOISE, NOISE = 0, 1, 2, 3

F = z3.Function("F", IntS, ValS)
V = z3.Function("V", IntS, BoolS)
run = z3.Function("run", IntS, IntS)
ext = z3.Function("ext", IntS, BoolS)
Sst = z3.Function("S", IntS, IntS)
ps = z3.Function("ps", IntS, IntS)


class P:
    """Symbolic parameter tuple of an accepted tokenizer."""

    def __init__(self):
        self.m = Int("min_length")
        self.M = Int("max_length")
        self.s = Int("max_continuous_silence")
        self.i0 = Int("init_min")
        self.ims = Int("init_max_silence")
        self.strict = Bool("strict_min_length")
        self.drop = Bool("drop_trailing_silence")
        self.sp = If(self.s > 0, self.s, 0)
        imsp = If(self.ims > 0, self.ims, 0)
        self.imsp = imsp
        self.Bnd = If(self.i0 <= 1, self.sp, If(self.sp >= imsp, self.sp, imsp))

    def accepted(self):
        # exactly the tuples the constructor accepts (proved in unit `ctor`)
        acc = And(self.M > 0, self.m > 0, self.m <= self.M, self.s < self.M, self.i0 < self.M)
        if CONTEXT == "split":
            # the tokenizer as split() builds it (proved in unit split): no initial phase
            acc = And(acc, self.i0 == 0, self.ims == 0)
        return acc


# "split": the tokenizer units are run on behalf of a property about split() (C05, C06): split() builds a fresh tokenizer
# per call with init_min = init_max_silence = 0, so tokenizer behaviour that needs an initial phase or a reused object
# is outside those properties
CONTEXT = None


# ---------------------------------------------------------------------------
# recurrences (definitions) and lemma instances, instantiated at index terms

def defs_at(k, p):
    """Defining equations of run/ext/S/ps at index k (k >= 0)."""
    prev_ext = And(k > 0, ext(k - 1))
    return Implies(k >= 0, And(
        run(k) == If(V(k), 0, If(k == 0, 1, run(k - 1) + 1)),
        ext(k) == Or(V(k), And(prev_ext, run(k) <= p.sp)),
        Sst(k) == If(prev_ext, Sst(k - 1), k),
        ps(k) == If(And(prev_ext, k - ps(k - 1) < p.M), ps(k - 1), k),
    ))


def lemma_R_at(k):
    """Lemma R (proved by induction in unit `lemmas`)."""
    return Implies(k >= 0, And(run(k) >= 0, run(k) <= k + 1,
                               Implies(run(k) <= k, V(k - run(k))),
                               Implies(run(k) > 0, Not(V(k)))))


def lemma_E_at(k, p):
    """Lemma E (proved by induction): facts about an index inside a stretch."""
    return Implies(And(k >= 0, ext(k)), And(
        0 <= Sst(k), Sst(k) <= ps(k), ps(k) <= k, k - ps(k) < p.M,
        run(k) <= p.sp, V(Sst(k)), run(k) <= k - Sst(k)))


# ---------------------------------------------------------------------------
# object invariant: candidate conjuncts

class Fields:
    """Symbolic per-run fields of a tokenizer (one snapshot)."""

    def __init__(self, tag):
        self.state = Int(fresh_name(tag + "state"))
        self.sl = Int(fresh_name(tag + "silence_length"))
        self.ic = Int(fresh_name(tag + "init_count"))
        self.sf = Int(fresh_name(tag + "start_frame"))
        self.ct = Bool(fresh_name(tag + "contiguous"))


class Ghost:
    def __init__(self, tag=""):
        self.last_end = Int(fresh_name(tag + "last_end"))
        self.last_cut = Bool(fresh_name(tag + "last_cut"))


def inv_conjuncts(p, f, n, g, k0):
    """name -> (tags, formula).  n = number of frames processed so far."""
    ns = f.state != SILENCE
    cont = And(g.last_cut, f.sf == g.last_end + 1)       # sf is the frame right after a cut token (ghost only)
    out = {}
    # conjuncts are kept small and tagged only with the properties whose STATEMENT they transcribe; untagged ones are
    # auxiliaries: when a change makes one non-inductive, Houdini drops it and only properties that really depended
    # on it can fail afterwards
    out["state_range"] = ((), And(f.state >= 0, f.state <= 3))
    out["start_in_range"] = (("C01",), Implies(ns, And(0 <= f.sf, f.sf <= n)))
    out["order"] = (("C01",), And(g.last_end >= -1, g.last_end < n, Implies(ns, g.last_end < f.sf)))
    out["below_max"] = (("C02",), Implies(ns, n - f.sf < p.M))
    out["noise_sl0"] = ((), Implies(f.state == NOISE, f.sl == 0))
    out["noise_last_valid"] = ((), Implies(f.state == NOISE, And(n >= 1, V(n - 1))))
    out["ps_range"] = ((), Implies(f.state == POSSIBLE_SILENCE, And(f.sl >= 1, f.sl <= p.s, n >= 1)))
    out["ps_run"] = ((), Implies(f.state == POSSIBLE_SILENCE, f.sl == run(n - 1)))
    out["contiguous_flag"] = (("C02", "C04"), Implies(f.ct, And(Or(f.state == NOISE, f.state == POSSIBLE_SILENCE), cont)))
    out["starts_valid"] = (("C03",), Implies(ns, Or(V(f.sf), cont)))
    out["nonempty_unless_continuation"] = ((), Implies(And(ns, Not(cont)), n - f.sf > 0))
    out["runs_bounded"] = (("C03",), Implies(And(ns, f.sf <= k0, k0 < n), run(k0) <= p.Bnd))
    out["pn_shape"] = ((), Implies(f.state == POSSIBLE_NOISE, And(p.i0 > 1, f.ic >= 1, f.ic < p.i0, n >= 1)))
    out["pn_run"] = ((), Implies(f.state == POSSIBLE_NOISE, And(f.sl == run(n - 1), f.sl >= 0, f.sl <= p.imsp)))
    out["pn_not_contiguous"] = (("C02", "C04"), Implies(f.state == POSSIBLE_NOISE, Not(f.ct)))
    # --- C04 coupling (init_min <= 1 only)
    c = p.i0 <= 1
    pn1 = ps(n - 1)
    out["c04_states"] = (("C04",), Implies(c, f.state != POSSIBLE_NOISE))
    out["c04_silence_iff"] = (("C04",), Implies(c, (f.state == SILENCE) == Or(n == 0, Not(ext(n - 1)))))
    out["c04_piece_start"] = (("C04",), Implies(And(c, ns), f.sf == If(n - pn1 < p.M, pn1, n)))
    out["c04_contiguous_iff"] = (("C04",), Implies(And(c, ns), f.ct == (f.sf != Sst(n - 1))))
    return out


def data_len(f, n):
    return If(f.state == SILENCE, 0, n - f.sf)


def bound_data(f, n):
    """self._data as the invariant describes it: F[sf : n)  (empty in SILENCE)."""
    sf = f.sf
    return Seq("list", data_len(f, n), lambda i: Opq(F(sf + I(i))), new_aid())


# ---------------------------------------------------------------------------

class TokCtx:
    """Builds tokenizer objects in a path state and reads them back."""

    def __init__(self, sess):
        self.sess = sess
        self.fi = {n: sess.func_info(Q + n) for n in
                   ("__init__", "_set_mode", "_reinitialize", "tokenize", "_iter_tokens", "_process",
                    "_post_process", "_process_end_of_detection", "_append_token")}

    def make_self(self, eng, p, f, n, cf, data=None, extra=None):
        st = eng.st
        verdict = LibCallable("validator", lambda e, a, k: self.verdict(e, a, k))
        flds = {
            "validator": Opq(tag="validator"),
            "_is_valid": verdict,
            "min_length": p.m, "max_length": p.M, "max_continuous_silence": p.s,
            "init_min": p.i0, "init_max_silent": p.ims,
            "_mode": Opq(tag="mode"),
            "_strict_min_length": p.strict, "_drop_trailing_silence": p.drop,
            "_deliver": None, "_tokens": None,
            "_state": f.state, "_data": data if data is not None else bound_data(f, n),
            "_contiguous_token": f.ct, "_init_count": f.ic, "_silence_length": f.sl,
            "_start_frame": f.sf, "_current_frame": cf,
        }
        if extra:
            flds.update(extra)
        return st.new_obj("StreamTokenizer", flds)

    def verdict(self, eng, args, kwargs):
        # the validator is called with the frame being processed; its verdict
        # on the frame at position `cur` is the arbitrary Boolean V(cur)
        cur = eng.st.ghost["cur"]
        (fr,) = args
        eng.prove("validator-applied-to-current-frame", fr.t == F(cur), props=("C03", "C04", "C07"))
        eng.st.ghost["validator_calls"] = eng.st.ghost.get("validator_calls", 0) + 1
        return V(cur)

    def read_fields(self, eng, ref):
        h = eng.st.heap[ref.oid]
        return h


def setup_engine(sess, inline):
    eng = sess.engine()
    eng.inline |= {Q + x for x in inline}
    return eng


def as_int(v, what):
    if isinstance(v, bool):
        raise CheckerError("%s is a bool where an int is expected" % what)
    if isinstance(v, int) or (z3.is_expr(v) and v.sort() == IntS):
        return I(v)
    raise NotInt(what, v)


class NotInt(Exception):
    pass


def post_fields(eng, ref):
    """Snapshot of the per-run fields after the call, as z3 terms."""
    h = eng.st.heap[ref.oid]

    class O:
        pass
    o = O()
    o.state = h["_state"]
    o.sl = h["_silence_length"]
    o.ic = h["_init_count"]
    o.sf = h["_start_frame"]
    o.ct = h["_contiguous_token"]
    o.cf = h["_current_frame"]
    o.data = h["_data"]
    return o


def prove_shape(eng, o, where):
    """Fields keep the Python kinds the invariant speaks about."""
    ok = (z3.is_expr(o.state) or isinstance(o.state, int)) and not isinstance(o.state, bool)
    ok = ok and isinstance(o.data, Seq) and o.data.kind == "list"
    ok = ok and (isinstance(o.ct, bool) or (z3.is_expr(o.ct) and o.ct.sort() == BoolS))
    for x in (o.sl, o.ic, o.sf, o.cf):
        ok = ok and ((isinstance(x, int) and not isinstance(x, bool)) or (z3.is_expr(x) and x.sort() == IntS))
    eng.prove("field-kinds:" + where, ok, props=("C01", "C02", "C03", "C04", "C20", "C08"))
    if not ok:
        raise PathEnd()


def check_inv_post(eng, p, o, n1, g1, k0, active, where, extra=()):
    """Prove every active invariant conjunct in the post state (n1 = frames
    processed after the step), including the binding _data == F[sf:n1)."""
    class Fx:
        pass
    f1 = Fx()
    f1.state, f1.sl, f1.ic, f1.sf, f1.ct = I(o.state), I(o.sl), I(o.ic), I(o.sf), B(o.ct)
    conj = inv_conjuncts(p, f1, n1, g1, k0)
    for name in active:
        tags, fm = conj[name]
        eng.prove("inv[%s]:%s" % (name, where), fm, props=(tuple(tags) + tuple(extra)) or ("*",))
    # buffer content
    dl = data_len(f1, n1)
    eng.prove("inv[buffer_length]:" + where, I(o.data.n) == dl, props=("C01",) + tuple(extra))
    j = Int(fresh_name("j"))
    el = o.data.at(j)
    elt = el.t if isinstance(el, Opq) else None
    if elt is None:
        eng.prove("inv[buffer_content]:" + where, False, props=("C01",) + tuple(extra))
    else:
        eng.prove("inv[buffer_content]:" + where,
                  Implies(And(j >= 0, j < I(o.data.n)), elt == F(f1.sf + j)), props=("C01",) + tuple(extra))
    # ownership: the buffer is not a list that has been handed out
    eng.prove("inv[buffer_not_aliased_by_delivered_token]:" + where,
              o.data.aid is None or o.data.aid not in eng.st.escaped, props=("C01", "C20"))
    return f1


def token_parts(eng, res):
    """(frames Seq, start, end) of a delivered token; fails closed."""
    if not (isinstance(res, tuple) and len(res) == 3):
        eng.prove("token-is-a-triple", False, props=("C01",))
        raise PathEnd()
    d, a, b = res
    if not isinstance(d, Seq):
        eng.prove("token-data-is-a-list", False, props=("C01",))
        raise PathEnd()
    return d, as_int(a, "token start"), as_int(b, "token end")


def prove_token(eng, p, res, n_cur, g0, k0, where, eos=False):
    """Statement-level clauses for a delivered token (d, a, b).
    n_cur: index of the frame being processed (for EOS: number of frames)."""
    d, a, b = token_parts(eng, res)
    ln = I(d.n)
    hi = n_cur - 1 if eos else n_cur
    # C01
    eng.prove("C01:token-indices:" + where, And(0 <= a, a <= b, b <= hi, b - a + 1 == ln), props=("C01",))
    j = Int(fresh_name("j"))
    el = d.at(j)
    if not isinstance(el, Opq):
        eng.prove("C01:token-frames:" + where, False, props=("C01",))
    else:
        eng.prove("C01:token-frames:" + where,
                  Implies(And(j >= 0, j < ln), el.t == F(a + j)), props=("C01",))
    eng.prove("C01:token-after-previous:" + where, a > g0.last_end, props=("C01",))
    # C02
    eng.prove("C02:token-not-longer-than-max_length:" + where, ln <= p.M, props=("C02",))
    eng.prove("C02:short-token-only-as-remainder:" + where,
              Or(ln >= p.m, And(Not(p.strict), g0.last_cut, a == g0.last_end + 1)), props=("C02",))
    # C03
    eng.prove("C03:silence-runs-bounded:" + where,
              Implies(And(a <= k0, k0 <= b), run(k0) <= p.Bnd), props=("C03",))
    eng.prove("C03:token-has-a-valid-frame:" + where, run(b) <= b - a, props=("C03",))
    eng.prove("C03:token-begins-valid-unless-continuation:" + where,
              Or(V(a), And(g0.last_cut, a == g0.last_end + 1)), props=("C03",))
    eng.prove("C03:dropped-trailing-silence-ends-valid:" + where,
              Implies(And(p.drop, ln < p.M), V(b)), props=("C03",))
    # C08 latency: decided by the frame being read
    if not eos:
        eng.prove("C08:token-decided-by-current-frame:" + where,
                  Or(And(b == n_cur, ln == p.M), And(n_cur - b >= 1, n_cur - b <= p.sp + 1)), props=("C08",))
    # the data list is now owned by the consumer
    if d.aid is not None:
        eng.st.escaped.add(d.aid)
    return d, a, b, ln


def emit_spec(p, n, eos):
    """Emit(n): the token the declarative segmentation hands over on reading
    frame n (eos: at end of a stream of n frames).  Returns (cut, deliver_end,
    cut_token, end_token)."""
    if eos:
        cut = z3.BoolVal(False)
        end = And(n > 0, ext(n - 1))
    else:
        cut = And(ext(n), n - ps(n) + 1 == p.M)
        end = And(Not(ext(n)), n > 0, ext(n - 1))
    pp = ps(n - 1)
    t = run(n - 1)
    open_ = n - pp < p.M
    nonsil = t < n - pp
    e = If(p.drop, n - 1 - t, n - 1)
    L = e - pp + 1
    deliver = And(end, open_, nonsil, Or(L >= p.m, And(Not(p.strict), pp != Sst(n - 1))))
    return cut, deliver, (ps(n), n), (pp, e)


def prove_emit(eng, p, res, n, eos, where):
    c = p.i0 <= 1
    cut, deliver, ctok, etok = emit_spec(p, n, eos)
    if res is None:
        eng.prove("C04:nothing-delivered-only-when-spec-says-so:" + where,
                  Implies(c, And(Not(cut), Not(deliver))), props=("C04", "C08"))
    else:
        d, a, b = token_parts(eng, res)
        eng.prove("C04:delivered-token-is-the-spec-token:" + where,
                  Implies(c, Or(And(cut, a == ctok[0], b == ctok[1]),
                                And(Not(cut), deliver, a == etok[0], b == etok[1]))), props=("C04", "C08"))


def flush_spec(p, f, n):
    """What the end-of-stream flush hands over in a given state:
    (delivers?, start, length)."""
    dl = data_len(f, n)
    act = And(Or(f.state == NOISE, f.state == POSSIBLE_SILENCE), dl > 0, dl > f.sl)
    eff = If(And(p.drop, f.sl > 0), dl - f.sl, dl)
    deliver = And(act, Or(eff >= p.m, And(eff > 0, Not(p.strict), f.ct)))
    return deliver, f.sf, eff


INV_NAMES = ["state_range", "start_in_range", "order", "below_max", "noise_sl0", "noise_last_valid", "ps_range", "ps_run",
             "contiguous_flag", "starts_valid", "nonempty_unless_continuation", "runs_bounded", "pn_shape", "pn_run",
             "pn_not_contiguous",
             "c04_states", "c04_silence_iff", "c04_piece_start", "c04_contiguous_iff"]


def assume_pre(eng, p, f, n, g, k0, active):
    eng.assume(p.accepted())
    eng.assume(n >= 0)
    conj = inv_conjuncts(p, f, n, g, k0)
    for name in active:
        eng.assume(conj[name][1])
    # recurrences and proven lemmas at the index terms the VCs mention
    for k in (n, n - 1, k0, f.sf):
        eng.assume(defs_at(k, p))
        eng.assume(lemma_R_at(k))
        eng.assume(lemma_E_at(k, p))
    eng.assume(lemma_R_at(n - 1 - run(n - 1)))


def instantiate_for_token(eng, p, a, b):
    for k in (a, b, b + 1):
        eng.assume(defs_at(k, p))
        eng.assume(lemma_R_at(k))
        eng.assume(lemma_E_at(k, p))


# ---------------------------------------------------------------------------
# units

def unit_process(sess, ctx, active):
    """_process(frame): one step of the automaton, with
    _process_end_of_detection interpreted in place (private helper, inlined)."""
    u = Unit("StreamTokenizer._process", [Q + "_process", Q + "_process_end_of_detection"])
    eng = setup_engine(sess, ["_process_end_of_detection"])

    def run_(eng):
        p = P()
        f = Fields("pre.")
        g = Ghost("pre.")
        n = Int("n")
        k0 = Int("k0")
        assume_pre(eng, p, f, n, g, k0, active)
        me = ctx.make_self(eng, p, f, n, n)
        eng.st.ghost["cur"] = n
        frame = Opq(F(n))
        eng.current_fn = ctx.fi["_process"]
        try:
            res = eng.run_function(ctx.fi["_process"], [frame], {}, me)
        except PyRaise as e:
            eng.prove("no-exception:_process raises %s" % e.exc, False, props=("C01", "C02", "C03", "C04"),
                      where=str(getattr(e.node, "lineno", "")))
            raise PathEnd()
        eng.prove("validator-called-exactly-once", eng.st.ghost.get("validator_calls", 0) == 1,
                  props=("C04", "C08"))
        o = post_fields(eng, me)
        prove_shape(eng, o, "_process")
        eng.prove("frame-counter-untouched:_process", I(o.cf) == n, props=("C01",))
        g1 = Ghost("post.")
        if res is None:
            eng.assume(And(g1.last_end == g.last_end, g1.last_cut == g.last_cut))
        else:
            try:
                d, a, b = token_parts(eng, res)
            except NotInt as ni:
                eng.prove("token-indices-are-ints", False, props=("C01",))
                raise PathEnd()
            instantiate_for_token(eng, p, a, b)
            d, a, b, ln = prove_token(eng, p, res, n, g, k0, "_process")
            eng.assume(And(g1.last_end == b, g1.last_cut == (ln == p.M)))
        prove_emit(eng, p, res, n, False, "_process")
        f1 = check_inv_post(eng, p, o, n + 1, g1, k0, active, "_process")
        # C08 prefix consistency: what a flush would have delivered before this
        # frame is delivered now (same start, at least as long) or is still
        # what a flush would deliver afterwards
        dv0, a0, l0 = flush_spec(p, f, n)
        dv1, a1, l1 = flush_spec(p, f1, n + 1)
        if res is None:
            eng.prove("C08:prefix-consistency:flush-token-survives-the-next-frame",
                      Implies(dv0, And(dv1, a1 == a0, l1 >= l0)), props=("C08",))
        else:
            eng.prove("C08:prefix-consistency:flush-token-is-a-prefix-of-the-delivered-token",
                      Implies(dv0, And(a == a0, ln >= l0)), props=("C08",))
        return res
    sess.run_unit(u, eng, run_)
    return u


def unit_post_process(sess, ctx, active):
    """_post_process(): the end-of-stream flush."""
    u = Unit("StreamTokenizer._post_process", [Q + "_post_process", Q + "_process_end_of_detection"])
    eng = setup_engine(sess, ["_process_end_of_detection"])

    def run_(eng):
        p = P()
        f = Fields("pre.")
        g = Ghost("pre.")
        n = Int("n")
        k0 = Int("k0")
        assume_pre(eng, p, f, n, g, k0, active)
        me = ctx.make_self(eng, p, f, n, n)   # _current_frame == n after the final read
        eng.current_fn = ctx.fi["_post_process"]
        try:
            res = eng.run_function(ctx.fi["_post_process"], [], {}, me)
        except PyRaise as e:
            eng.prove("no-exception:_post_process raises %s" % e.exc, False, props=("C01", "C02", "C03", "C04"))
            raise PathEnd()
        if res is not None:
            try:
                d, a, b = token_parts(eng, res)
            except NotInt:
                eng.prove("token-indices-are-ints", False, props=("C01",))
                raise PathEnd()
            instantiate_for_token(eng, p, a, b)
            prove_token(eng, p, res, n, g, k0, "_post_process", eos=True)
        prove_emit(eng, p, res, n, True, "_post_process")
        dv0, a0, l0 = flush_spec(p, f, n)
        if res is None:
            eng.prove("C08:flush-delivers-nothing-only-when-flush-spec-says-so", Not(dv0), props=("C08",))
        else:
            eng.prove("C08:flush-token-is-the-flush-spec-token", And(dv0, a == a0, I(d.n) == l0), props=("C08",))
        return res
    sess.run_unit(u, eng, run_)
    return u


def unit_lemmas(sess):
    """Lemmas R and E about the spec functions, by induction on the index."""
    u = Unit("lemmas(run,ext,S,ps)", [], kind="lemma")
    eng = sess.engine()

    def run_(eng):
        p = P()
        k = Int("k")
        eng.assume(p.accepted())
        eng.assume(k >= 0)
        for t in (k, k - 1):
            eng.assume(defs_at(t, p))
        # induction hypotheses at k-1 (vacuous for k == 0: guarded by k-1 >= 0)
        eng.assume(lemma_R_at(k - 1))
        eng.assume(lemma_E_at(k - 1, p))
        eng.prove("lemma-R:step", lemma_R_at(k), props=("C03", "C04"))
        eng.prove("lemma-E:step", lemma_E_at(k, p), props=("C04",))
    sess.run_unit(u, eng, run_)
    return u


def unit_ctor(sess, ctx):
    """__init__ / _set_mode: raises ValueError exactly for the tuples C02 lists,
    TypeError exactly for a validator that is neither callable nor a
    DataValidator; otherwise the fields hold the parameters."""
    u = Unit("StreamTokenizer.__init__", [Q + "__init__", Q + "_set_mode"])
    eng = setup_engine(sess, ["_set_mode"])

    def run_(eng):
        m, M, s, i0, ims, mode = (Int(x) for x in ("min_length", "max_length", "max_continuous_silence",
                                                     "init_min", "init_max_silence", "mode"))
        vk = eng.choose(3, None, "validator kind")   # 0 callable, 1 DataValidator instance, 2 neither
        st = eng.st
        if vk == 0:
            val = LibCallable("a-callable", lambda e, a, k: Bool(fresh_name("verdict")))
        elif vk == 1:
            val = st.new_obj("DataValidatorInstance", {})
            st.ghost.setdefault("isa", {})[val.oid] = {"DataValidator": True}
            st.ghost.setdefault("callable_refs", {})[val.oid] = False
            eng.iface[("DataValidatorInstance", "is_valid")] = lambda e, o, a, k: Bool(fresh_name("verdict"))
        else:
            val = st.new_obj("SomethingElse", {})
            st.ghost.setdefault("isa", {})[val.oid] = {"DataValidator": False}
            st.ghost.setdefault("callable_refs", {})[val.oid] = False
        me = st.new_obj("StreamTokenizer", {})
        reject = Or(M <= 0, m <= 0, m > M, s >= M, i0 >= M, Not(Or(mode == 0, mode == 2, mode == 4, mode == 6)))
        eng.current_fn = ctx.fi["__init__"]
        try:
            eng.run_function(ctx.fi["__init__"], [val, m, M, s, i0, ims, mode], {}, me)
        except PyRaise as e:
            if e.exc == "TypeError":
                eng.prove("C02:ctor:TypeError-only-for-bad-validator", vk == 2, props=("C02",))
            elif e.exc == "ValueError":
                eng.prove("C02:ctor:ValueError-only-for-rejected-tuples", reject, props=("C02",))
            else:
                eng.prove("C02:ctor:unexpected-exception-%s" % e.exc, False, props=("C02",))
            return None
        # (what happens with a validator that is neither callable nor a DataValidator is outside the statement)
        # every tokenizer proof (C01-C04, C08, C20) assumes p.accepted(): this is where it is established
        eng.prove("C02:ctor:accepted-tuple-is-not-in-the-rejected-set", Not(reject), props=("C01", "C02", "C03", "C04", "C08", "C20"))
        if vk == 2:
            return None
        h = st.heap[me.oid]

        def eqi(name, t):
            v = h.get(name)
            ok = v is not None and not isinstance(v, bool) and (isinstance(v, int) or (z3.is_expr(v) and v.sort() == IntS))
            eng.prove("C02:ctor:field-%s" % name, (I(v) == t) if ok else False, props=("C02",))
        eqi("min_length", m)
        eqi("max_length", M)
        eqi("max_continuous_silence", s)
        eqi("init_min", i0)
        eqi("init_max_silent", ims)
        sm, dr = h.get("_strict_min_length"), h.get("_drop_trailing_silence")
        okb = all(isinstance(x, bool) or (z3.is_expr(x) and x.sort() == BoolS) for x in (sm, dr))
        eng.prove("C02:ctor:mode-bits", And(B(sm) == Or(mode == 2, mode == 6), B(dr) == Or(mode == 4, mode == 6)) if okb else False,
                  props=("C02", "C03"))
        iv = h.get("_is_valid")
        eng.prove("C02:ctor:validator-bound", (iv is val) if vk == 0 else (getattr(iv, "name", None) == "is_valid" and getattr(iv, "obj", None) == val),
                  props=ALLTOK + ("C07",))
        return None
    res = sess.run_unit(u, eng, run_)
    # both directions must be reachable (vacuity)
    kinds = set()
    for r in res:
        kinds.add(r.outcome)
    return u


ALLTOK = ("C01", "C02", "C03", "C04", "C08", "C20")


def failed_read_untouched(eng, me, f, n):
    o = post_fields(eng, me)
    try:
        return And(I(o.cf) == n - 1, I(o.state) == f.state, I(o.sl) == f.sl, I(o.sf) == f.sf, B(o.ct) == f.ct,
                   I(o.ic) == f.ic, I(o.data.n) == data_len(f, n))
    except Exception:  # noqa  (a field of another kind)
        return False


def unit_iter_tokens(sess, ctx, active):
    """_iter_tokens(data_source): _reinitialize() establishes the invariant from
    ANY previous per-run state (C20); the loop reads one frame per iteration,
    hands over the token in the same iteration (C08), in increasing order
    (C01), asks the source for end of stream exactly once."""
    u = Unit("StreamTokenizer._iter_tokens", [Q + "_iter_tokens", Q + "_reinitialize"])
    eng = setup_engine(sess, ["_reinitialize"])
    fi = ctx.fi["_iter_tokens"]

    def havoc_any(eng, name):
        """A per-run field left over from an earlier run: any kind."""
        k = eng.choose(3, None, "leftover kind of " + name)
        if k == 0:
            return None
        if k == 1:
            return Int(fresh_name("old." + name))
        return Seq("list", Int(fresh_name("old.len")), lambda i: Opq(), new_aid())

    class LoopSpec:
        def run_while(self, eng, s, fr):
            me = fr.env["self"]
            gh = eng.st.ghost
            p, k0 = gh["p"], gh["k0"]
            # ---- entry: invariant established by _reinitialize alone
            o = post_fields(eng, me)
            prove_shape(eng, o, "_iter_tokens:entry")
            n0 = IntVal(0)
            g0 = Ghost("entry.")
            eng.assume(And(g0.last_end == -1, Not(g0.last_cut)))
            eng.prove("C20:frame-counter-reset", I(o.cf) == -1, props=("C20", "C01", "C08"))
            eng.assume(defs_at(n0, p))
            check_inv_post(eng, p, o, n0, g0, k0, active, "_iter_tokens:entry(C20)", extra=("C20", "C08"))
            # ---- arbitrary iteration
            f = Fields("it.")
            g = Ghost("it.")
            n = Int("n")
            assume_pre(eng, p, f, n, g, k0, active)
            h = eng.st.heap[me.oid]
            h.update({"_state": f.state, "_data": bound_data(f, n), "_contiguous_token": f.ct,
                      "_init_count": f.ic, "_silence_length": f.sl, "_start_frame": f.sf,
                      "_current_frame": n - 1})
            gh.update({"n": n, "f": f, "g": g, "reads": n, "eos_seen": False, "yielded_end": g.last_end,
                       "in_loop": True, "yields_this_iter": 0})
            eng.havoc_loop_locals(s, fr)
            eng.loop_guard_holds(s, fr, props=ALLTOK)
            try:
                eng.exec_block(s.body, fr)
            except Exception as ex:
                from pyvc.engine import _Break, _Continue
                if isinstance(ex, PyRaise) and gh.get("src_raised") and ex.exc == "OSError":
                    # the source's error escapes: nothing was handed over on its account (on_yield), state untouched
                    eng.prove("C01:failed-read:escapes-with-the-run-state-untouched", failed_read_untouched(eng, me, f, n), props=ALLTOK)
                    raise PathEnd()
                if isinstance(ex, _Break):
                    # leaving the loop: only after end of stream
                    eng.prove("C08:loop-exits-only-at-end-of-stream", gh["eos_seen"], props=("C08", "C04"))
                    gh["in_loop"] = False
                    return
                if not isinstance(ex, _Continue):
                    raise
            # end of an iteration that stays in the loop
            if gh.get("src_raised"):
                # the code swallowed the source's error (a retry): this iteration read no frame, so it must leave the run
                # exactly where it was -- frame counter included
                eng.prove("C01:failed-read:a-swallowed-failure-counts-no-frame", failed_read_untouched(eng, me, f, n), props=ALLTOK)
                raise PathEnd()
            eng.prove("C08:iteration-without-eos-continues", not gh["eos_seen"], props=("C08",))
            eng.prove("C08:one-read-per-iteration", gh["reads"] == n + 1, props=("C08",))
            o = post_fields(eng, me)
            prove_shape(eng, o, "_iter_tokens:loop")
            eng.prove("C01:frame-counter-advanced-once", I(o.cf) == n, props=("C01", "C08"))
            g1 = gh.get("g_after")
            if g1 is None:
                eng.prove("C08:every-iteration-processes-the-frame-it-read", False, props=("C08", "C01"))
                raise PathEnd()
            check_inv_post(eng, p, o, n + 1, g1, k0, active, "_iter_tokens:loop")
            raise PathEnd()

    eng.loop_specs = {(fi.qualname, 0): LoopSpec()}

    def c_process(eng, fi_, self_val, args, kwargs):
        """Use of _process's contract at the call site."""
        gh = eng.st.ghost
        p, n, f, g, k0 = gh["p"], gh["n"], gh["f"], gh["g"], gh["k0"]
        (frame,) = args
        o = post_fields(eng, self_val)
        eng.prove("call:_process:pre:current-frame", And(I(o.cf) == n, gh["reads"] == n + 1), props=("C01", "C08"))
        eng.prove("call:_process:pre:frame-is-the-one-just-read",
                  isinstance(frame, Opq) and frame.t.eq(F(n)), props=("C01",))
        eng.prove("call:_process:pre:state-untouched",
                  And(I(o.state) == f.state, I(o.sl) == f.sl, I(o.sf) == f.sf, B(o.ct) == f.ct, I(o.ic) == f.ic,
                      I(o.data.n) == data_len(f, n)), props=("C01",))
        # post: fresh state satisfying Inv(n+1); result None or a token with the proven clauses
        f1 = Fields("after.")
        g1 = Ghost("after.")
        conj = inv_conjuncts(p, f1, n + 1, g1, k0)
        for name in active:
            eng.assume(conj[name][1])
        h = eng.st.heap[self_val.oid]
        h.update({"_state": f1.state, "_data": bound_data(f1, n + 1), "_contiguous_token": f1.ct,
                  "_init_count": f1.ic, "_silence_length": f1.sl, "_start_frame": f1.sf})
        gh["g_after"] = g1
        k = eng.choose(2, None, "_process result")
        if k == 0:
            eng.assume(And(g1.last_end == g.last_end, g1.last_cut == g.last_cut))
            return None
        a, b = Int(fresh_name("tok.start")), Int(fresh_name("tok.end"))
        ln = b - a + 1
        d = Seq("list", ln, lambda i: Opq(F(a + I(i))), new_aid())
        eng.assume(And(0 <= a, a <= b, b <= n, a > g.last_end, ln <= p.M,
                       Or(And(b == n, ln == p.M), And(n - b >= 1, n - b <= p.sp + 1)),
                       g1.last_end == b, g1.last_cut == (ln == p.M)))
        return (d, a, b)

    def c_post_process(eng, fi_, self_val, args, kwargs):
        gh = eng.st.ghost
        p, n, f, g, k0 = gh["p"], gh["n"], gh["f"], gh["g"], gh["k0"]
        o = post_fields(eng, self_val)
        eng.prove("call:_post_process:pre:at-end-of-stream", And(gh["eos_seen"] is True, I(o.cf) == n),
                  props=("C01", "C04", "C08", "C14"))
        eng.prove("call:_post_process:pre:state-untouched",
                  And(I(o.state) == f.state, I(o.sl) == f.sl, I(o.sf) == f.sf, B(o.ct) == f.ct,
                      I(o.data.n) == data_len(f, n)), props=("C01",))
        k = eng.choose(2, None, "_post_process result")
        if k == 0:
            return None
        a, b = Int(fresh_name("tok.start")), Int(fresh_name("tok.end"))
        ln = b - a + 1
        d = Seq("list", ln, lambda i: Opq(F(a + I(i))), new_aid())
        eng.assume(And(0 <= a, a <= b, b <= n - 1, a > g.last_end, ln <= p.M))
        return (d, a, b)

    eng.contracts[Q + "_process"] = c_process
    eng.contracts[Q + "_post_process"] = c_post_process

    def src_read(eng, obj, args, kwargs):
        gh = eng.st.ghost
        if args or kwargs:
            eng.prove("C08:read-called-without-arguments", False, props=("C08",))
        eng.prove("C08:no-read-after-end-of-stream", not gh.get("eos_seen", False), props=("C08",))
        n = gh["reads"]
        k = eng.choose(3, None, "source.read: end of stream / a frame / raises")
        if k == 2:
            # any source: read() may fail (device unplugged, broken pipe).  A failed read returns no frame; nothing may be
            # delivered on its account (every statement is about the tokens DELIVERED) and the run's state is untouched
            gh["src_raised"] = True
            raise PyRaise("OSError", ("read failed",))
        gh["reads"] = n + 1
        if k == 0:
            gh["eos_seen"] = True
            return None
        return Opq(F(n))

    eng.iface[("AnyDataSource", "read")] = src_read

    def on_yield(eng, v, fr, node):
        gh = eng.st.ghost
        n = gh["n"]
        if gh.get("src_raised"):
            eng.prove("C01:failed-read:nothing-is-delivered-on-account-of-a-failed-read", False, props=ALLTOK)
            raise PathEnd()
        eng.prove("C08:token-yielded-before-any-further-read", gh["reads"] == n + 1, props=("C08",))
        eng.prove("C08:at-most-one-token-per-frame", gh["yields_this_iter"] == 0, props=("C08", "C04"))
        gh["yields_this_iter"] += 1
        if not (isinstance(v, tuple) and len(v) == 3):
            eng.prove("C01:yielded-value-is-a-token", False, props=("C01",))
            raise PathEnd()
        d, a, b = v
        eng.prove("C01:tokens-yielded-in-increasing-order", I(a) > gh["yielded_end"], props=("C01",))
        tok = gh.get("produced")
        return None

    eng.yield_hook = on_yield

    def on_abandon(eng, final_blocks, fr):
        """A yield inside try/finally: the consumer may keep the token and drop the generator.  CPython finalises it
        later -- close(), garbage collection -- possibly while the SAME tokenizer is in the middle of another run (C20:
        'a partially consumed generator or an abandoned one').  The final blocks must leave that run's state alone."""
        if eng.choose(2, None, "consumer resumes the generator / abandons it here (finalised during a later run)") == 0:
            return
        me = fr.env["self"]
        h = eng.st.heap[me.oid]
        later = {"_state": Int(fresh_name("later.state")), "_contiguous_token": Bool(fresh_name("later.contiguous")),
                 "_init_count": Int(fresh_name("later.init_count")), "_silence_length": Int(fresh_name("later.silence_length")),
                 "_start_frame": Int(fresh_name("later.start_frame")), "_current_frame": Int(fresh_name("later.current_frame")),
                 "_data": Seq("list", Int(fresh_name("later.len")), lambda i: Opq(), new_aid())}
        h.update(later)
        for blk in final_blocks:
            eng.exec_block(blk, fr)
        same = True
        for k_, v_ in later.items():
            cur = h.get(k_)
            if k_ == "_data":
                same = same and cur is v_
            else:
                same = same and z3.is_expr(cur) and z3.eq(cur, v_)
        eng.prove("C20:finalising-an-abandoned-generator-leaves-the-run-in-progress-untouched", same, props=ALLTOK)
        raise PathEnd()

    eng.genexit_hook = on_abandon

    def run_(eng):
        p = P()
        k0 = Int("k0")
        eng.assume(p.accepted())
        st = eng.st
        st.ghost.update({"p": p, "k0": k0})
        # leftover per-run fields of an earlier (complete, partial or abandoned) run: arbitrary
        class Fz:
            pass
        me = st.new_obj("StreamTokenizer", {
            "validator": Opq(tag="validator"), "_is_valid": Opq(tag="callable"),
            "min_length": p.m, "max_length": p.M, "max_continuous_silence": p.s,
            "init_min": p.i0, "init_max_silent": p.ims, "_mode": Opq(tag="mode"),
            "_strict_min_length": p.strict, "_drop_trailing_silence": p.drop,
            "_deliver": Opq(tag="callable"), "_tokens": havoc_any(eng, "_tokens"),
            "_state": havoc_any(eng, "_state"), "_data": havoc_any(eng, "_data"),
            "_contiguous_token": Bool(fresh_name("old.contiguous")),
            "_init_count": Int(fresh_name("old.init_count")),
            "_silence_length": Int(fresh_name("old.silence_length")),
            "_start_frame": Int(fresh_name("old.start_frame")),
            "_current_frame": Int(fresh_name("old.current_frame")),
        })
        src = st.new_obj("AnyDataSource", {})
        eng.current_fn = fi
        try:
            eng.run_function(fi, [src], {}, me)
        except PyRaise as e:
            eng.prove("no-exception:_iter_tokens raises %s" % e.exc, False, props=("C01", "C08", "C20"))
            raise PathEnd()
        eng.prove("C08:generator-ends-only-after-end-of-stream", st.ghost.get("eos_seen", False) is True, props=("C08",))
        return None
    sess.run_unit(u, eng, run_)
    return u


def unit_stale_fields(sess, ctx):
    """C20, history independence: a per-run field that _reinitialize() does NOT reset (found by running the real
    _reinitialize on an object whose per-run fields all hold stale values) must never be read before it is written.
    Such a field can only be stale while the automaton is in SILENCE (every transition out of SILENCE must overwrite
    it): _process and _post_process are run from SILENCE with those fields stale; reading one, or leaving SILENCE
    with one still stale, is a violation."""
    from pyvc.engine import Stale
    u = Unit("StreamTokenizer._reinitialize/_process/_post_process (stale per-run fields)",
             [Q + "_reinitialize", Q + "_process", Q + "_post_process", Q + "_process_end_of_detection"])
    eng = setup_engine(sess, ["_process_end_of_detection", "_reinitialize"])
    PER_RUN = ("_state", "_data", "_tokens", "_contiguous_token", "_init_count", "_silence_length", "_start_frame",
               "_current_frame", "_deliver")

    def run_(eng):
        p = P()
        eng.assume(p.accepted())
        st = eng.st
        tags = ("C20",)
        flds = {"validator": Opq(tag="validator"),
                "_is_valid": LibCallable("validator", lambda e, a, k: Bool(fresh_name("verdict"))),
                "min_length": p.m, "max_length": p.M, "max_continuous_silence": p.s,
                "init_min": p.i0, "init_max_silent": p.ims, "_mode": Opq(tag="mode"),
                "_strict_min_length": p.strict, "_drop_trailing_silence": p.drop}
        for nm in PER_RUN:
            flds[nm] = Stale(nm, tags, "is left over from an earlier run and is read before being written")
        me = st.new_obj("StreamTokenizer", flds)
        eng.current_fn = ctx.fi["_reinitialize"]
        eng.run_function(ctx.fi["_reinitialize"], [], {}, me)
        h = st.heap[me.oid]
        unreset = [nm for nm in PER_RUN if isinstance(h.get(nm), Stale)]
        st0 = h.get("_state")
        ok_state = not isinstance(st0, Stale) and (isinstance(st0, int) or z3.is_expr(st0)) and not isinstance(st0, bool)
        eng.prove("C20:reinitialize-returns-the-automaton-to-SILENCE", (I(st0) == SILENCE) if ok_state else False, props=tags)
        d0 = h.get("_data")
        eng.prove("C20:reinitialize-empties-the-buffer", isinstance(d0, Seq) and d0.kind == "list" and isinstance(d0.n, int) and d0.n == 0,
                  props=tags)
        # (when one of the two obligations above failed the analysis goes on from the state they describe)
        # any later moment at which the automaton is (still / again) in SILENCE: frame counter arbitrary
        n = Int("n")
        eng.assume(n >= 0)
        h["_current_frame"] = n
        h["_state"] = IntVal(SILENCE)
        h["_data"] = seq_lit("list", [], new_aid())
        if isinstance(h.get("_contiguous_token"), Stale):
            pass        # reported by the entry obligations of _iter_tokens as well; stays stale here
        op = eng.choose(2, None, "_process / _post_process")
        st.ghost["cur"] = n
        try:
            if op == 0:
                eng.current_fn = ctx.fi["_process"]
                eng.run_function(ctx.fi["_process"], [Opq(F(n))], {}, me)
            else:
                eng.current_fn = ctx.fi["_post_process"]
                eng.run_function(ctx.fi["_post_process"], [], {}, me)
        except PyRaise as e:
            eng.prove("no-exception:%s raises %s" % (["_process", "_post_process"][op], e.exc), False, props=tags)
            raise PathEnd()
        h = st.heap[me.oid]
        s1 = h.get("_state")
        if isinstance(s1, Stale) or s1 is None:
            raise PathEnd()
        if eng.decide(I(s1) != SILENCE):
            for nm in unreset:
                if nm in ("_tokens", "_deliver"):
                    continue
                eng.prove("C20:no-stale-%s-when-leaving-SILENCE" % nm, not isinstance(h.get(nm), Stale), props=tags)
        return None
    sess.run_unit(u, eng, run_)
    return u


def unit_tokenize(sess, ctx):
    """tokenize(): list, generator and callback modes are thin wrappers over the
    same token generator: list mode returns list(G), generator mode returns G
    itself, callback mode calls callback(*Y[j]) for j = 0, 1, ... in order."""
    u = Unit("StreamTokenizer.tokenize", [Q + "tokenize"])
    eng = sess.engine()
    fi = ctx.fi["tokenize"]

    def c_iter_tokens(eng, fi_, self_val, args, kwargs):
        gh = eng.st.ghost
        eng.prove("C08:token-generator-built-once", "G" not in gh, props=ALLTOK)
        eng.prove("C08:token-generator-reads-the-given-source", len(args) == 1 and args[0] is gh["src"] and not kwargs,
                  props=ALLTOK)
        G = GenVal("abstract", name="tokens", next_fn=None)
        gh["G"] = G
        return G
    eng.contracts[Q + "_iter_tokens"] = c_iter_tokens

    class ForSpec:
        def run_for(self, eng, s, fr, it):
            gh = eng.st.ghost
            eng.prove("C08:callback-loop-iterates-the-token-generator", it is gh.get("G"), props=ALLTOK)
            k = eng.choose(2, None, "for: iteration / exhausted")
            if k == 1:
                return
            j = Int("j")
            tok = (Seq("list", Int(fresh_name("Y.len")), lambda i: Opq(), new_aid()),
                   Int(fresh_name("Y.start")), Int(fresh_name("Y.end")))
            gh["cur_tok"] = tok
            gh["cb_calls"] = []
            eng.havoc_loop_locals(s, fr)
            eng.assign(s.target, tok, fr)
            from pyvc.engine import _Break, _Continue
            try:
                eng.exec_block(s.body, fr)
            except _Continue:
                pass
            except _Break:
                eng.prove("C08:callback-loop-does-not-stop-early", False, props=ALLTOK)
            calls = gh["cb_calls"]
            ok = len(calls) == 1 and len(calls[0][0]) == 3 and not calls[0][1] and \
                all(x is y for x, y in zip(calls[0][0], tok))
            eng.prove("C08:callback-called-once-with-the-token", ok, props=ALLTOK)
            raise PathEnd()
    eng.loop_specs = {(fi.qualname, 0): ForSpec()}

    def run_(eng):
        st = eng.st
        gh = st.ghost
        # the tokenizer was used before (C20): whatever an earlier run left in its delivery fields is still there
        old_calls = gh.setdefault("old_cb_calls", [])
        me = st.new_obj("StreamTokenizer", {
            "_deliver": LibCallable("callback-of-an-earlier-run", lambda e, a, k: old_calls.append(tuple(a))),
            "_tokens": Seq("list", Int(fresh_name("old.ntokens")), lambda i: Opq(), new_aid())})
        src = st.new_obj("AnyDataSource", {})
        gh["src"] = src
        mode = eng.choose(3, None, "delivery mode")   # 0 list, 1 generator, 2 callback
        kwargs = {}
        cb = None
        if mode == 2:
            # the callback's return value is the consumer's business: any value, truthy or not
            cb = LibCallable("callback", lambda e, a, k: gh["cb_calls"].append((tuple(a), dict(k))) or Opq(tag="callback-result"))
            kwargs["callback"] = cb
            # generator flag is irrelevant with a callback
            if eng.choose(2, None, "generator flag with callback") == 1:
                kwargs["generator"] = True
        elif mode == 1:
            kwargs["generator"] = True
        gh["gen_to_list"] = lambda e, g: ("list-of", g)
        eng.current_fn = fi
        try:
            res = eng.run_function(fi, [src], kwargs, me)
        except PyRaise as e:
            eng.prove("no-exception:tokenize raises %s" % e.exc, False, props=ALLTOK)
            raise PathEnd()
        G = gh.get("G")
        if mode == 0:
            eng.prove("C08:list-mode-returns-list-of-the-generator", isinstance(res, tuple) and res[0] == "list-of" and res[1] is G,
                      props=ALLTOK)
        elif mode == 1:
            eng.prove("C08:generator-mode-returns-the-generator-itself", G is not None and res is G, props=ALLTOK)
        else:
            eng.prove("C08:callback-mode-returns-None", res is None and G is not None, props=ALLTOK)
        return res
    sess.run_unit(u, eng, run_)
    return u


def unit_string_source(sess, ctx):
    """StringDataSource (the library's own non-audio source, used with callable validators): read() hands out the
    characters of the string one by one, in order -- position k of the stream IS character k -- then None for ever;
    set_data() restarts at 0 and rejects non-strings."""
    QS = "auditok.util.StringDataSource."
    u = Unit("StringDataSource.__init__/read/set_data", [QS + "__init__", QS + "read", QS + "set_data"])
    eng = sess.engine()
    eng.inline |= {QS + "set_data"}
    PS = ALLTOK

    def run_(eng):
        N = Int("len(data)")
        eng.assume(N >= 0)
        chf = z3.Function("char", z3.IntSort(), z3.IntSort())
        data = Seq("str", N, lambda i: Opq(chf(I(i))))
        op = eng.choose(3, None, "constructor / read / set_data")
        if op == 0:
            good = eng.choose(2, None, "a str / something else") == 0
            me = eng.st.new_obj("StringDataSource", {})
            try:
                eng.run_function(sess.func_info(QS + "__init__"), [data if good else Int("x")], {}, me)
            except PyRaise as e:
                eng.prove("C01:string-source:rejects-only-non-strings", (not good) and e.exc == "ValueError", props=PS)
                return None
            h = eng.st.heap[me.oid]
            eng.prove("C01:string-source:starts-at-character-0-of-the-given-string", good and h.get("_data") is data and
                      is_int_(h.get("_current")) and z3.is_true(z3.simplify(I(h["_current"]) == 0)), props=PS)
            return None
        cur = Int("current")
        eng.assume(And(cur >= 0, cur <= N))
        me = eng.st.new_obj("StringDataSource", {"_data": data, "_current": cur})
        h = eng.st.heap[me.oid]
        if op == 1:
            r = eng.run_function(sess.func_info(QS + "read"), [], {}, me)
            if r is None:
                eng.prove("C08:string-source:None-only-at-the-end-and-the-position-stays", And(cur == N, I(h["_current"]) == cur), props=PS)
                return None
            eng.prove("C01:string-source:read-returns-character-k-and-advances-by-one",
                      And(cur < N, I(h["_current"]) == cur + 1, r.t == chf(cur)) if isinstance(r, Opq) and r.t is not None else False, props=PS)
            return None
        data2 = Seq("str", Int("len(data2)"), lambda i: Opq())
        eng.run_function(sess.func_info(QS + "set_data"), [data2], {}, me)
        eng.prove("C20:string-source:set_data-restarts-at-0-on-the-new-string", h["_data"] is data2 and
                  z3.is_true(z3.simplify(I(h["_current"]) == 0)), props=PS)
        return None
    sess.run_unit(u, eng, run_)
    return u


def is_int_(x):
    from pyvc.values import is_int
    return is_int(x)


def _in_context(fn):
    def run(sess, ctx, opts):
        global CONTEXT
        CONTEXT = opts.get("context")
        try:
            return fn(sess, ctx, opts)
        finally:
            CONTEXT = None
    return run


UNITS = {
    "lemmas": lambda sess, ctx, opts: unit_lemmas(sess),
    "ctor": lambda sess, ctx, opts: unit_ctor(sess, ctx),
    "process": _in_context(lambda sess, ctx, opts: unit_process(sess, ctx, opts["active"])),
    "post_process": _in_context(lambda sess, ctx, opts: unit_post_process(sess, ctx, opts["active"])),
    "iter_tokens": _in_context(lambda sess, ctx, opts: unit_iter_tokens(sess, ctx, opts["active"])),
    "tokenize": lambda sess, ctx, opts: unit_tokenize(sess, ctx),
    "stale_fields": lambda sess, ctx, opts: unit_stale_fields(sess, ctx),
    "string_source": lambda sess, ctx, opts: unit_string_source(sess, ctx),
}
HOUDINI = {"names": INV_NAMES, "units": ["process", "post_process", "iter_tokens"]}


def make_ctx(sess):
    return TokCtx(sess)

"""Contracts for the I/O wiring functions  (C09 container/alias clauses, C18).

External dependencies are library models (assumed, listed in evidence):
  open(name, 'rb').read()  -> CONTENT(name);  open(name, 'wb').write(d) sets CONTENT(name) = d
  wave.open(name) -> reader with the header parameters and frames of WAV(name);
  wave.open(name, 'w'): set{framerate,sampwidth,nchannels} + writeframes(d) defines WAV(name)
  round-trip axiom: a wave file written with (r, w, c, d) reads back (r, w, c, d).
Format names are case-split over representatives {None, wav, wave, WAV, raw, RAW, ogg(other)}
and extensions over {none, .wav, .wave, .WAV, .raw, .ogg(other)}  (bounded on strings, stated).
"""
import z3
from z3 import And, Or, Not, Implies, If, Int, Bool, IntVal, Real

from pyvc.engine import (PyRaise, PathEnd, Unsupported, LibCallable, GenVal, SliceVal, BoundMethod, DictVal,
                         MaybeVal, Absentable, new_aid, IfaceMethod, Frame)
from pyvc.values import (imul, Seq, Opq, Ref, Fl, IntS, BoolS, I, B, R, fresh_name, v_eq_goal, ClassVal,
                         fresh_seq, is_int, r_trunc, r_round_half_even, seq_slice, norm_index)
from pyvc.harness import Unit, CheckerError
from props import regions as RG
from props import readers as RD

QI = "auditok.io."
QC = "auditok.core."
P9 = ("C09",)
P18 = ("C18",)
PB = ("C09", "C18")


class Ctx:
    def __init__(self, sess):
        self.sess = sess

    def fi(self, q):
        return self.sess.func_info(q)


def make_ctx(sess):
    return Ctx(sess)


FMTS = [None, "wav", "wave", "WAV", "raw", "RAW", "ogg"]
EXTS = ["", ".wav", ".wave", ".WAV", ".raw", ".ogg"]


def norm_fmt(fmt, ext):
    """C18: explicit format wins, else the extension, else None (-> raw for writing)."""
    f = fmt if fmt is not None else (ext[1:] if ext else None)
    if f is None:
        return None
    f = f.lower()
    return "wav" if f == "wave" else f


def file_name(eng, ext):
    """A symbolic file name with a known extension class."""
    fn = Opq(tag="str")
    eng.st.ghost.setdefault("ext", {})[id(fn)] = ext
    eng.st.ghost.setdefault("names", {})[id(fn)] = fn
    return fn


def install_os(eng):
    def splitext(e, a, k):
        (f,) = a
        f = e.force(f)
        ext = e.st.ghost.get("ext", {}).get(id(f))
        if ext is None:
            raise Unsupported("splitext of an unknown name")
        return (Opq(tag="str"), ext)
    eng.lib["os.path.splitext"] = splitext
    eng.lib["os.path.exists"] = lambda e, a, k: e.st.ghost["exists"](e, e.force(a[0]))


def unit_guess_format(sess, ctx):
    u = Unit("_guess_audio_format", [QI + "_guess_audio_format"])
    eng = sess.engine()
    install_os(eng)

    def run_(eng):
        fmt = FMTS[eng.choose(len(FMTS), None, "format")]
        ext = EXTS[eng.choose(len(EXTS), None, "extension")]
        fn = file_name(eng, ext)
        res = eng.run_function(ctx.fi(QI + "_guess_audio_format"), [fn, fmt], {})
        eng.prove("C18:guess-format:explicit-format-else-extension-else-None(wave->wav,lowercased)",
                  res == norm_fmt(fmt, ext) and (res is None or isinstance(res, str)), props=PB + ("C13",))
        return None
    sess.run_unit(u, eng, run_)
    return u


def unit_get_audio_parameters(sess, ctx):
    """_get_audio_parameters: long name wins over short; AudioParameterError iff
    an effective value is missing, not an int, or not positive."""
    u = Unit("_get_audio_parameters", [QI + "_get_audio_parameters"])
    eng = sess.engine()
    pairs = [("sampling_rate", "sr"), ("sample_width", "sw"), ("channels", "ch")]

    def run_(eng):
        ent = {}
        eff = []
        good = []
        for lg, sh in pairs:
            vals = {}
            for k in (lg, sh):
                c = eng.choose(5, None, "value class of " + k)
                if c == 0:
                    vals[k] = ("absent", None)
                elif c == 1:
                    x = Int("v_" + k)
                    eng.assume(x > 0)
                    vals[k] = ("good", x)
                elif c == 2:
                    x = Int("v_" + k)
                    eng.assume(x <= 0)
                    vals[k] = ("nonpos", x)
                elif c == 3:
                    vals[k] = ("none", None)
                else:
                    vals[k] = ("nonint", "16000")
                if c != 0:
                    ent[k] = (True, vals[k][1])
            e_ = vals[lg] if vals[lg][0] != "absent" else vals[sh]
            eff.append(e_)
        all_good = all(e_[0] == "good" for e_ in eff)
        try:
            res = eng.run_function(ctx.fi(QI + "_get_audio_parameters"), [DictVal(ent)], {})
        except PyRaise as e:
            eng.prove("C09:audio-parameters:error-iff-an-effective-value-is-missing-or-invalid",
                      e.exc == "AudioParameterError" and not all_good, props=PB)
            return None
        eng.prove("C09:audio-parameters:invalid-effective-value-rejected", all_good, props=PB)
        ok = isinstance(res, tuple) and len(res) == 3 and all_good
        eng.prove("C09:audio-parameters:(rate,width,channels)-long-name-wins",
                  ok and all(res[i] is eff[i][1] for i in range(3)), props=PB)
        return None
    sess.run_unit(u, eng, run_, max_paths=50000)
    return u


def unit_get_audio_source(sess, ctx):
    u = Unit("get_audio_source", [QI + "get_audio_source"])
    eng = sess.engine()

    def run_(eng):
        log = []
        params = (Int("sr"), Int("sw"), Int("ch"))

        def c_gap(e, fi_, sv, a, k):
            log.append(("gap", a[0]))
            if e.choose(2, None, "_get_audio_parameters ok / raises") == 1:
                raise PyRaise("AudioParameterError", ())
            return params
        eng.contracts[QI + "_get_audio_parameters"] = c_gap

        def mk(name):
            def f(e, a, k):
                o = e.st.new_obj("Made:" + name, {})
                log.append((name, tuple(a), dict(k), o))
                return o
            return f
        eng.ctor_contracts = {n: mk(n) for n in ("StdinAudioSource", "BufferAudioSource", "PyAudioSource")}
        eng.contracts[QI + "from_file"] = lambda e, fi_, sv, a, k: mk("from_file")(e, a, k)
        kind = ["-", "bytes", "None", "path"][eng.choose(4, None, "input kind")]
        inp = {"-": "-", "bytes": fresh_seq("bytes", "raw"), "None": None, "path": Opq(tag="str")}[kind]
        kw = {"sr": Absentable(Bool("has_sr"), Int("kw_sr")), "large_file": Absentable(Bool("has_lf"), Opq(tag="lf")),
              "audio_format": Absentable(Bool("has_fmt"), Opq(tag="fmt"))}
        try:
            res = eng.run_function(ctx.fi(QI + "get_audio_source"), [inp], kw)
        except PyRaise as e:
            eng.prove("C09:get_audio_source:only-the-parameter-error-propagates", e.exc == "AudioParameterError" and kind != "path",
                      props=P9)
            return None
        made = [x for x in log if x[0] != "gap"]
        ok = len(made) == 1 and res == made[0][3]
        eng.prove("C09:get_audio_source:one-source-built-and-returned", ok, props=P9)
        if not ok:
            return None
        name, a, k, o = made[0]
        if kind == "-":
            eng.prove("C09:get_audio_source:'-'-is-standard-input-with-the-given-parameters",
                      name == "StdinAudioSource" and a == params and not k, props=P9)
        elif kind == "bytes":
            eng.prove("C09:get_audio_source:bytes-become-a-buffer-source-over-those-bytes",
                      name == "BufferAudioSource" and len(a) == 4 and a[0] is inp and a[1:] == params and not k, props=P9)
        elif kind == "path":
            eng.prove("C09:get_audio_source:a-path-goes-to-from_file-with-all-keywords",
                      name == "from_file" and not a and k.get("filename") is inp and
                      all(isinstance(k.get(x), Absentable) for x in ("sr", "large_file", "audio_format")), props=P9)
        else:
            eng.prove("C09:get_audio_source:None-is-the-microphone", name == "PyAudioSource" and a == params, props=P9)
        return None
    sess.run_unit(u, eng, run_)
    return u


def unit_from_file(sess, ctx):
    """from_file: raw -> _load_raw(params, large_file); wav/wave -> _load_wave(large_file);
    other formats: AudioIOError when large_file or pydub is absent."""
    u = Unit("from_file", [QI + "from_file", QI + "_guess_audio_format"])
    eng = sess.engine()
    eng.inline |= {QI + "_guess_audio_format"}
    install_os(eng)

    def run_(eng):
        log = []
        params = (Int("sr"), Int("sw"), Int("ch"))
        with_pydub = Bool("with_pydub")
        eng.const_overrides[("auditok.io", "_WITH_PYDUB")] = lambda e: with_pydub

        def c_gap(e, fi_, sv, a, k):
            log.append(("gap", a[0]))
            if e.choose(2, None, "parameters ok / raises") == 1:
                raise PyRaise("AudioParameterError", ())
            return params
        eng.contracts[QI + "_get_audio_parameters"] = c_gap

        def rec(name):
            def f(e, fi_, sv, a, k):
                o = e.st.new_obj("Made:" + name, {})
                log.append((name, tuple(a), dict(k), o))
                return o
            return f
        for n in ("_load_raw", "_load_wave", "_load_with_pydub"):
            eng.contracts[QI + n] = rec(n)
        fmt = FMTS[eng.choose(len(FMTS), None, "format")]
        ext = EXTS[eng.choose(len(EXTS), None, "extension")]
        fn = file_name(eng, ext)
        lf = Bool("large_file")
        eff = norm_fmt(fmt, ext)
        kw = {"audio_format": fmt, "large_file": lf, "sr": Absentable(Bool("has_sr"), Int("kw_sr"))}
        try:
            res = eng.run_function(ctx.fi(QI + "from_file"), [fn], kw)
        except PyRaise as e:
            if e.exc == "AudioParameterError":
                eng.prove("C09:from_file:parameter-error-only-for-raw", eff == "raw", props=PB)
            elif e.exc == "AudioIOError":
                eng.prove("C09:from_file:AudioIOError-only-for-other-formats-when-lazy-or-without-pydub",
                          And(eff not in ("raw", "wav"), Or(lf, Not(with_pydub))), props=PB)
            else:
                eng.prove("C09:from_file:unexpected-%s" % e.exc, False, props=PB)
            return None
        made = [x for x in log if x[0] != "gap"]
        ok = len(made) == 1 and res == made[0][3]
        eng.prove("C09:from_file:one-loader-called-and-its-source-returned", ok, props=PB)
        if not ok:
            return None
        name, a, k, o = made[0]
        if eff == "raw":
            eng.prove("C09:from_file:raw-loader-with-the-resolved-parameters-and-large_file",
                      name == "_load_raw" and len(a) == 5 and a[0] is fn and a[1:4] == params and a[4] is lf and not k, props=PB)
        elif eff == "wav":
            eng.prove("C09:from_file:wave-loader-with-large_file", name == "_load_wave" and len(a) == 2 and a[0] is fn and a[1] is lf and not k,
                      props=PB)
        else:
            eng.prove("C09:from_file:other-formats-go-to-pydub-only-eagerly", name == "_load_with_pydub", props=PB)
        return None
    sess.run_unit(u, eng, run_)
    return u


class FS:
    """Abstract file system for one path: recorded opens / reads / writes."""

    def __init__(self, eng):
        self.eng = eng
        self.log = []
        self.content = fresh_seq("bytes", "content")
        self.wav = {"sr": Int("hdr.framerate"), "sw": Int("hdr.sampwidth"), "ch": Int("hdr.nchannels"),
                    "frames": fresh_seq("bytes", "hdr.frames")}
        eng.lib["builtin.open"] = self.open
        eng.lib["wave.open"] = self.wave_open
        for cls, nm, f in (("FileObj", "read", self.f_read), ("FileObj", "write", self.f_write), ("FileObj", "close", self.f_close),
                           ("FileObj", "__enter__", lambda e, o, a, k: o), ("FileObj", "__exit__", self.f_close),
                           ("WaveObj", "__enter__", lambda e, o, a, k: o), ("WaveObj", "__exit__", self.f_close),
                           ("WaveObj", "close", self.f_close),
                           ("WaveObj", "getnchannels", lambda e, o, a, k: self.wav["ch"]),
                           ("WaveObj", "getframerate", lambda e, o, a, k: self.wav["sr"]),
                           ("WaveObj", "getsampwidth", lambda e, o, a, k: self.wav["sw"]),
                           ("WaveObj", "readframes", self.w_readframes),
                           ("WaveObj", "setframerate", self.w_set("sr")), ("WaveObj", "setsampwidth", self.w_set("sw")),
                           ("WaveObj", "setnchannels", self.w_set("ch")), ("WaveObj", "writeframes", self.w_set("frames"))):
            eng.iface[(cls, nm)] = f

    def open(self, e, a, k):
        o = e.st.new_obj("FileObj", {"name": a[0], "mode": a[1] if len(a) > 1 else "r", "closed": False})
        self.log.append(("open", a[0], a[1] if len(a) > 1 else "r", o))
        return o

    def wave_open(self, e, a, k):
        o = e.st.new_obj("WaveObj", {"name": a[0], "mode": a[1] if len(a) > 1 else "rb", "closed": False})
        self.log.append(("wave.open", a[0], a[1] if len(a) > 1 else "rb", o))
        return o

    def f_read(self, e, o, a, k):
        self.log.append(("read", o, tuple(a)))
        return self.content

    def f_write(self, e, o, a, k):
        self.log.append(("write", o, a[0]))
        return None

    def f_close(self, e, o, a, k):
        e.st.heap[o.oid]["closed"] = True
        self.log.append(("close", o))
        return None

    def w_readframes(self, e, o, a, k):
        self.log.append(("readframes", o, a[0]))
        return self.wav["frames"]

    def w_set(self, what):
        def f(e, o, a, k):
            self.log.append(("set:" + what, o, a[0]))
            return None
        return f


def unit_loaders(sess, ctx):
    """_load_raw / _load_wave (eager and lazy), WaveAudioSource.__init__."""
    u = Unit("_load_raw/_load_wave/WaveAudioSource.__init__",
             [QI + "_load_raw", QI + "_load_wave", QI + "WaveAudioSource.__init__", QI + "RawAudioSource.__init__",
              QI + "FileAudioSource.__init__", QI + "AudioSource.__init__"])
    eng = sess.engine()
    eng.inline |= {QI + "FileAudioSource.__init__", QI + "AudioSource.__init__"}

    def run_(eng):
        fs = FS(eng)
        made = []

        def mk(name):
            def f(e, a, k):
                o = e.st.new_obj("Made:" + name, {})
                made.append((name, tuple(a), dict(k), o))
                return o
            return f
        eng.ctor_contracts = {n: mk(n) for n in ("BufferAudioSource", "RawAudioSource", "WaveAudioSource")}
        which = ["raw", "wave", "wavesrc", "rawsrc"][eng.choose(4, None, "loader")]
        fn = Opq(tag="str")
        lf = eng.choose(2, None, "large_file") == 1
        if which == "raw":
            sr, sw, ch = Int("sr"), Int("sw"), Int("ch")
            missing = eng.choose(2, None, "a parameter is None?") == 1
            args = [fn, None if missing else sr, sw, ch, lf]
            try:
                res = eng.run_function(ctx.fi(QI + "_load_raw"), args, {})
            except PyRaise as e:
                eng.prove("C18:load_raw:AudioParameterError-iff-a-parameter-is-missing", e.exc == "AudioParameterError" and missing, props=PB)
                return None
            eng.prove("C18:load_raw:missing-parameter-rejected", not missing, props=PB)
            ok = len(made) == 1 and res == made[0][3]
            eng.prove("C18:load_raw:one-source", ok, props=PB)
            if not ok:
                return None
            name, a, k, o = made[0]
            if lf:
                eng.prove("C09:load_raw:lazy-source-over-the-same-file-and-parameters",
                          name == "RawAudioSource" and (a + tuple(k.get(x) for x in ("sampling_rate", "sample_width", "channels")))[0] is fn
                          and k.get("sampling_rate") is sr and k.get("sample_width") is sw and k.get("channels") is ch
                          and not fs.log, props=PB)
            else:
                opens = [x for x in fs.log if x[0] == "open"]
                reads = [x for x in fs.log if x[0] == "read"]
                okf = len(opens) == 1 and opens[0][1] is fn and opens[0][2] == "rb" and len(reads) == 1 and reads[0][2] == ()
                eng.prove("C09:load_raw:eager-reads-the-whole-file-in-binary-mode", okf, props=PB)
                eng.prove("C09:load_raw:eager-buffer-holds-the-file-content-with-the-given-parameters",
                          name == "BufferAudioSource" and a[0] is fs.content and k.get("sampling_rate") is sr and
                          k.get("sample_width") is sw and k.get("channels") is ch, props=PB)
                eng.prove("C18:load_raw:file-closed", okf and eng.st.heap[opens[0][3].oid]["closed"], props=P18)
            return None
        if which == "wave":
            res = eng.run_function(ctx.fi(QI + "_load_wave"), [fn, lf], {})
            ok = len(made) == 1 and res == made[0][3]
            eng.prove("C18:load_wave:one-source", ok, props=PB)
            if not ok:
                return None
            name, a, k, o = made[0]
            if lf:
                eng.prove("C09:load_wave:lazy-source-over-the-same-file", name == "WaveAudioSource" and a == (fn,) and not fs.log, props=PB)
            else:
                rf = [x for x in fs.log if x[0] == "readframes"]
                eng.prove("C09:load_wave:eager-reads-all-frames", len(rf) == 1 and is_int(rf[0][2]) and z3.is_true(z3.simplify(I(rf[0][2]) < 0)), props=PB)
                eng.prove("C18:load_wave:buffer-has-the-header's-rate-width-channels-un-swapped",
                          name == "BufferAudioSource" and a[0] is fs.wav["frames"] and k.get("sampling_rate") is fs.wav["sr"] and
                          k.get("sample_width") is fs.wav["sw"] and k.get("channels") is fs.wav["ch"], props=PB)
            return None
        if which == "wavesrc":
            me = eng.st.new_obj("WaveAudioSource", {})
            eng.assume(Or(fs.wav["sw"] == 1, fs.wav["sw"] == 2, fs.wav["sw"] == 4))
            eng.run_function(ctx.fi(QI + "WaveAudioSource.__init__"), [fn], {}, me)
            h = eng.st.heap[me.oid]
            eng.prove("C18:WaveAudioSource:parameters-come-from-the-header-un-swapped",
                      h.get("_sampling_rate") is fs.wav["sr"] and h.get("_sample_width") is fs.wav["sw"] and
                      h.get("_channels") is fs.wav["ch"] and h.get("_audio_stream") is None, props=PB + ("C11",))
            wo = [x for x in fs.log if x[0] == "wave.open"]
            eng.prove("C18:WaveAudioSource:header-reader-closed", len(wo) == 1 and eng.st.heap[wo[0][3].oid]["closed"], props=P18)
            return None
        me = eng.st.new_obj("RawAudioSource", {})
        sr, sw, ch = Int("sr"), Int("sw"), Int("ch")
        eng.assume(Or(sw == 1, sw == 2, sw == 4))
        eng.run_function(ctx.fi(QI + "RawAudioSource.__init__"), [fn, sr, sw, ch], {}, me)
        h = eng.st.heap[me.oid]
        eng.prove("C18:RawAudioSource:fields", h.get("_sampling_rate") is sr and h.get("_sample_width") is sw and h.get("_channels") is ch
                  and h.get("_filename") is fn and h.get("_audio_stream") is None and is_int(h.get("_sample_size")) and
                  z3.is_true(z3.simplify(I(h["_sample_size"]) == sw * ch)), props=PB + ("C11",))
        return None
    sess.run_unit(u, eng, run_)
    return u


def unit_to_file(sess, ctx):
    """to_file / _save_raw / _save_wave: format choice and un-swapped parameters."""
    u = Unit("to_file/_save_raw/_save_wave", [QI + "to_file", QI + "_save_raw", QI + "_save_wave", QI + "_guess_audio_format"])
    eng = sess.engine()
    eng.inline |= {QI + "_guess_audio_format", QI + "_save_raw", QI + "_save_wave"}
    install_os(eng)

    def run_(eng):
        fs = FS(eng)
        with_pydub = Bool("with_pydub")
        eng.const_overrides[("auditok.io", "_WITH_PYDUB")] = lambda e: with_pydub
        params = (Int("sr"), Int("sw"), Int("ch"))

        def c_gap(e, fi_, sv, a, k):
            if e.choose(2, None, "parameters ok / raises") == 1:
                raise PyRaise("AudioParameterError", ())
            return params
        eng.contracts[QI + "_get_audio_parameters"] = c_gap
        eng.contracts[QI + "_save_with_pydub"] = lambda e, f, sv, a, k: fs.log.append(("pydub",)) or None
        fmt = FMTS[eng.choose(len(FMTS), None, "format")]
        ext = EXTS[eng.choose(len(EXTS), None, "extension")]
        fn = file_name(eng, ext)
        data = fresh_seq("bytes", "data")
        eff = norm_fmt(fmt, ext)
        try:
            eng.run_function(ctx.fi(QI + "to_file"), [data, fn, fmt], {"sr": Absentable(Bool("has_sr"), Int("kw_sr"))})
        except PyRaise as e:
            if e.exc == "AudioParameterError":
                eng.prove("C18:to_file:parameters-needed-only-for-non-raw", eff not in (None, "raw"), props=P18)
            elif e.exc == "AudioIOError":
                eng.prove("C18:to_file:AudioIOError-only-for-other-formats-without-pydub",
                          And(eff not in (None, "raw", "wav"), Not(with_pydub)), props=P18)
            else:
                eng.prove("C18:to_file:unexpected-%s" % e.exc, False, props=P18)
            return None
        if eff in (None, "raw"):
            op = [x for x in fs.log if x[0] == "open"]
            wr = [x for x in fs.log if x[0] == "write"]
            ok = len(op) == 1 and op[0][1] is fn and op[0][2] == "wb" and len(wr) == 1 and wr[0][2] is data and wr[0][1] == op[0][3]
            eng.prove("C18:to_file:raw-writes-exactly-the-bytes-in-binary-mode", ok and len(fs.log) == 3, props=P18 + ("C13",))
            eng.prove("C18:to_file:raw-file-closed", ok and eng.st.heap[op[0][3].oid]["closed"], props=P18)
        elif eff == "wav":
            wo = [x for x in fs.log if x[0] == "wave.open"]
            sets = {x[0]: x[2] for x in fs.log if x[0].startswith("set:")}
            ok = len(wo) == 1 and wo[0][2] in ("w", "wb") and sets.get("set:sr") is params[0] and sets.get("set:sw") is params[1] \
                and sets.get("set:ch") is params[2] and sets.get("set:frames") is data
            eng.prove("C18:to_file:wave-header-gets-rate-width-channels-un-swapped-and-the-bytes", ok, props=P18 + ("C13",))
            order = [x[0] for x in fs.log]
            eng.prove("C18:to_file:frames-written-after-the-header-fields-then-closed",
                      ok and order.index("set:frames") > max(order.index("set:sr"), order.index("set:sw"), order.index("set:ch"))
                      and eng.st.heap[wo[0][3].oid]["closed"], props=P18)
        else:
            eng.prove("C18:to_file:other-formats-go-to-pydub", fs.log == [("pydub",)], props=P18)
        return None
    sess.run_unit(u, eng, run_)
    return u


def unit_region_save(sess, ctx):
    """AudioRegion.save: placeholders filled from start/end/duration, exists_ok,
    to_file called with the region's bytes and parameters."""
    u = Unit("AudioRegion.save", [QC + "AudioRegion.save"])
    eng = RG.setup(sess)
    install_os(eng)

    def run_(eng):
        calls = []
        eng.contracts[QI + "to_file"] = lambda e, f, sv, a, k: calls.append((tuple(a), dict(k))) or None
        v = RG.RV("r", "float" if eng.choose(2, None, "region has start?") == 0 else "none")
        eng.assume(v.wf(eng))
        me = RG.region_obj(eng, v)
        h = eng.st.heap[me.oid]
        exists = Bool("target_exists")
        exists_ok = Bool("exists_ok")
        is_path = eng.choose(2, None, "Path / str") == 0
        fmts = []
        gh = eng.st.ghost
        if is_path:
            fn = eng.st.new_obj("PathObj", {})
            gh.setdefault("isa", {})[fn.oid] = {"Path": True}
            eng.iface[("PathObj", "exists")] = lambda e, o, a, k: exists
            gh["exists"] = lambda e, name: exists if name == fn else z3.BoolVal(False)
            target = fn
        else:
            fn = Opq(tag="str")
            formatted = Opq(tag="str")

            def opq_method(e, obj, name, a, k):
                if obj is fn and name == "format":
                    fmts.append((tuple(a), dict(k)))
                    return formatted
                return Opq(tag="str")
            gh["opq_str_method"] = opq_method
            gh["isinstance_fn"] = lambda val, name: name == "str" and isinstance(val, Opq) and val.tag == "str"
            gh["exists"] = lambda e, name: exists if name is formatted else z3.BoolVal(False)
            target = formatted
        af = Opq(tag="fmt")
        # extra keyword arguments are options for the encoder; a caller may even spell an audio parameter among them
        # (an options dict forwarded by a worker): the file still gets the REGION's rate, width and channels
        extra = {"bitrate": Opq(tag="x")}
        if eng.choose(2, None, "extra options: encoder options only / also a long-named audio parameter") == 1:
            extra.update({"sampling_rate": Int("caller.sampling_rate"), "channels": Int("caller.channels")})
        try:
            res = eng.run_function(ctx.fi(QC + "AudioRegion.save"), [fn, af, exists_ok], extra, me)
        except PyRaise as e:
            eng.prove("C18:save:FileExistsError-iff-target-exists-and-not-exists_ok",
                      And(exists, Not(exists_ok)) if e.exc == "FileExistsError" else False, props=P18)
            eng.prove("C18:save:nothing-written-when-refusing", not calls, props=P18)
            return None
        eng.prove("C18:save:refuses-to-overwrite-without-exists_ok", Not(And(exists, Not(exists_ok))), props=P18)
        if not is_path:
            ok = len(fmts) == 1 and not fmts[0][0]
            k = fmts[0][1] if ok else {}
            eng.prove("C18:save:placeholders-filled-from-the-region",
                      ok and k.get("start") is h["start"] and k.get("end") is h["end"] and k.get("duration") is h["duration"], props=P18 + ("C13",))
        ok = len(calls) == 1
        eng.prove("C18:save:one-to_file-call", ok, props=P18)
        if ok:
            a, k = calls[0]
            eng.prove("C18:save:writes-the-region's-bytes-to-the-(filled-in)-name-with-the-given-format",
                      len(a) == 3 and a[0] is v.data and (a[1] is target or a[1] == target) and a[2] is af, props=P18 + ("C13",))
            eng.prove("C18:save:passes-rate-width-channels-un-swapped",
                      all(is_int(k.get(x)) for x in ("sr", "sw", "ch")) and
                      z3.is_true(z3.simplify(And(I(k["sr"]) == v.sr, I(k["sw"]) == v.sw, I(k["ch"]) == v.ch))), props=P18 + ("C13",))
            # to_file resolves sampling_rate / sample_width / channels before sr / sw / ch: a long name at top level would win
            eng.prove("C18:save:no-other-spelling-of-the-audio-parameters-reaches-the-writer",
                      not (set(k) & {"sampling_rate", "sample_width", "channels"}), props=P18 + ("C13",))
            eng.prove("C18:save:returns-the-final-name", res is target or res == target, props=P18 + ("C13",))
        return None
    sess.run_unit(u, eng, run_)
    return u


def unit_read_offline(sess, ctx):
    """_read_offline(input, skip, max_read): audio[round(skip*sr) : round(skip*sr) + round(max_read*sr)]
    with Python-slice clipping, through the C11 source contract."""
    u = Unit("_read_offline", [QC + "_read_offline"])
    eng = RD.setup(sess)

    def run_(eng):
        v = RD.IV(eng)
        eng.assume(v.pos == 0)
        v.open = z3.BoolVal(False)
        src = RD.inner_obj(eng, v)
        # the source may or may not be one of the rewindable kinds (buffer source): the result must not depend on it
        rew = eng.choose(2, None, "source is Rewindable?") == 0
        eng.st.ghost["isa"][src.oid].update({"Rewindable": rew, "BufferAudioSource": rew})
        calls = []
        eng.contracts[QI + "get_audio_source"] = lambda e, f, sv, a, k: calls.append((tuple(a), dict(k))) or src
        inp = Opq(tag="input")
        sk = eng.choose(4, None, "skip kind")
        skip = [IntVal(0) if False else 0, Fl(Real("skip")), Int("skip_i"), None][sk]
        mk = eng.choose(3, None, "max_read kind")
        mr = [None, Fl(Real("max_read")), Int("max_read_i")][mk]
        kw = {"sr": Absentable(Bool("has_sr"), Int("kw_sr"))}
        res = eng.run_function(ctx.fi(QC + "_read_offline"), [inp], dict(kw, skip=skip, max_read=mr))
        eng.prove("C18:read_offline:source-built-from-the-input-and-keywords",
                  len(calls) == 1 and calls[0][0] == (inp,) and isinstance(calls[0][1].get("sr"), Absentable)
                  and "skip" not in calls[0][1] and "max_read" not in calls[0][1], props=PB)
        ok = isinstance(res, tuple) and len(res) == 4
        eng.prove("C18:read_offline:returns-(data,rate,width,channels)", ok, props=P18)
        if not ok:
            return None
        data = res[0]
        a = IntVal(0) if (skip is None or sk == 0) else If(R(skip) > 0, r_round_half_even(eng.spec_mul(skip, v.sr)), 0)
        lo = If(a < v.N, If(a > 0, a, 0), v.N)
        if mr is None:
            hi = v.N
        else:
            m = r_round_half_even(eng.spec_mul(mr, v.sr))
            hi = If(R(mr) < 0, v.N, If(lo + m < v.N, If(m > 0, lo + m, lo), v.N))
        okd = isinstance(data, (Seq, bytes))
        eng.prove("C18:read_offline:data-is-bytes-never-None", okd, props=P18)
        if okd:
            eng.prove("C18:read_offline:data-is-the-slice-[round(skip*sr),+round(max_read*sr))-clipped",
                      v_eq_goal(data, RD.chunk(v, lo, hi - lo)), props=P18)
        eng.prove("C18:read_offline:format-is-the-source's",
                  all(is_int(x) for x in res[1:]) and z3.is_true(z3.simplify(And(I(res[1]) == v.sr, I(res[2]) == v.sw, I(res[3]) == v.ch))),
                  props=P18)
        eng.prove("C18:read_offline:source-closed-afterwards", z3.is_false(z3.simplify(v.open)), props=P18)
        return None
    sess.run_unit(u, eng, run_)
    return u


def unit_load(sess, ctx):
    """AudioRegion.load / load(): offline inputs go through _read_offline and become a region."""
    u = Unit("AudioRegion.load/load", [QC + "AudioRegion.load", QC + "load"])
    eng = RG.setup(sess)

    def run_(eng):
        calls = []
        v = RG.RV("r")
        eng.assume(v.wf(eng))

        def c_ro(e, f, sv, a, k):
            calls.append(("offline", tuple(a), dict(k)))
            return (v.data, v.sr, v.sw, v.ch)

        def c_on(e, f, sv, a, k):
            calls.append(("online", tuple(a), dict(k)))
            return (v.data, v.sr, v.sw, v.ch)
        eng.contracts[QC + "_read_offline"] = c_ro
        eng.contracts[QC + "_read_chunks_online"] = c_on
        mic = eng.choose(2, None, "input None?") == 1
        inp = None if mic else Opq(tag="input")
        skip = Fl(Real("skip"))
        mk = eng.choose(2, None, "max_read None?")
        mr = None if mk == 1 else Fl(Real("max_read"))
        kw = {"sr": Absentable(Bool("has_sr"), Int("kw_sr"))}
        via_func = eng.choose(2, None, "load() / AudioRegion.load()") == 0
        try:
            if via_func:
                eng.inline.add(QC + "AudioRegion.load")
                res = eng.run_function(ctx.fi(QC + "load"), [inp, skip, mr], kw)
            else:
                res = eng.run_function(ctx.fi(QC + "AudioRegion.load"), [inp, skip, mr], kw, ClassVal("AudioRegion"))
        except PyRaise as e:
            eng.prove("C18:load:ValueError-only-for-the-microphone-misuse",
                      e.exc == "ValueError" and mic, props=P18)
            return None
        if mic:
            eng.prove("C18:load:microphone-needs-skip-0-and-a-max_read", And(skip.t <= 0, mr is not None), props=P18)
            return None
        ok = len(calls) == 1 and calls[0][0] == "offline"
        eng.prove("C18:load:offline-input-goes-through-_read_offline", ok, props=P18)
        if ok:
            _, a, k = calls[0]
            eng.prove("C18:load:skip-and-max_read-forwarded", a == (inp,) and k.get("skip") is skip and k.get("max_read") is mr
                      and isinstance(k.get("sr"), Absentable), props=P18)
        RG.expect_region(eng, res, v, v.data, "C18:load", P18)
        return None
    sess.run_unit(u, eng, run_)
    return u


UNITS = {
    "guess_format": lambda sess, ctx, opts: unit_guess_format(sess, ctx),
    "get_audio_parameters": lambda sess, ctx, opts: unit_get_audio_parameters(sess, ctx),
    "get_audio_source": lambda sess, ctx, opts: unit_get_audio_source(sess, ctx),
    "from_file": lambda sess, ctx, opts: unit_from_file(sess, ctx),
    "loaders": lambda sess, ctx, opts: unit_loaders(sess, ctx),
    "to_file": lambda sess, ctx, opts: unit_to_file(sess, ctx),
    "region_save": lambda sess, ctx, opts: unit_region_save(sess, ctx),
    "read_offline": lambda sess, ctx, opts: unit_read_offline(sess, ctx),
    "load": lambda sess, ctx, opts: unit_load(sess, ctx),
}

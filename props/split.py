"""Contracts for auditok.core.split and its helpers  (C05, C06, C09; the split
clauses of C08 and C20).

split() is verified modularly: against the *interface* of the reader it reads
(block_dur, sr, sw, ch, open(), read()), the contract of
_duration_to_nb_windows (proved in exact binary64 arithmetic, unit `dtnw`), the
constructor contracts of AudioReader / AudioEnergyValidator / StreamTokenizer
and the token-generator contract of tokenize().  Its result is therefore a
function of (what the reader hands out, sr, sw, ch, parameters) only.
"""
import fractions
import z3
from z3 import And, Or, Not, Implies, If, Int, Bool, IntVal, Real, RealVal

from pyvc.engine import (PyRaise, PathEnd, Unsupported, LibCallable, GenVal, SliceVal, BoundMethod, DictVal,
                         MaybeVal, Absentable, new_aid, _Break, _Continue, IfaceMethod, Frame)
from pyvc.values import (FlQ, fl_floor, fl_ceil, fl_sub_int, imul, Seq, Opq, Ref, Fl, IntS, BoolS, RealS, I, B, R, fresh_name, v_eq_goal, ClassVal,
                         fresh_seq, is_int, r_trunc, r_round_half_even, r_floor, r_ceil, seq_slice, seq_concat)
from pyvc.harness import Unit, CheckerError
from props import regions as RG

QC = "auditok.core."
EPS9 = fractions.Fraction(1e-9)          # the Python literal 1e-9: the double nearest to 10**-9
EPS9_Z3 = RealVal(EPS9.numerator) / RealVal(EPS9.denominator)


class Ctx:
    def __init__(self, sess):
        self.sess = sess

    def fi(self, q):
        return self.sess.func_info(q)


def make_ctx(sess):
    return Ctx(sess)


# ---------------------------------------------------------------------------
# C06: duration -> window count, exact binary64 semantics

def snap_spec(q, mode):
    """Window count for a (positive, real-valued) quotient q:
    the integer k >= 1 with |q - k| <= 1e-9 if there is one, else floor/ceil."""
    kf = z3.ToInt(q + RealVal(1) / 2)
    d = q - z3.ToReal(kf)
    close = And(kf >= 1, d <= EPS9_Z3, -d <= EPS9_Z3)
    other = z3.ToInt(q) if mode == "floor" else -z3.ToInt(-q)
    return If(close, kf, other)


def snap_spec_q(qv, mode):
    """snap_spec for an exact rational quotient num/den, in integer arithmetic."""
    num, den = qv.num, qv.den
    d = IntVal(den)
    kf = (2 * num + d) / (2 * d)                       # floor(q + 1/2)
    diff = num - kf * d                                # (q - kf) * den
    a, b = EPS9.numerator, EPS9.denominator
    close = And(kf >= 1, diff * b <= a * den, -diff * b <= a * den)
    other = num / d if mode == "floor" else -((-num) / d)
    return If(close, kf, other)


def unit_dtnw(sess, ctx):
    """_duration_to_nb_windows in exact binary64 arithmetic.

    A double quotient in [2**-30, 2**53) is m * 2**e with 2**52 <= m < 2**53; for
    each exponent e the function is executed with q = m * 2**e (a rational), every
    float operation it performs is either exact on rationals (round, abs, compare,
    floor, ceil, int) or is the subtraction q - nearest, for which the obligation
    `representable` shows the exact result is a double (so the correctly rounded
    IEEE result IS the exact result).  Quotients below 2**-30 (down to 0) and
    integers >= 2**53 are covered as two further cases."""
    u = Unit("_duration_to_nb_windows (binary64, exponent-sliced)", [QC + "_duration_to_nb_windows"])
    eng = sess.engine()
    install_math(eng)
    fi = ctx.fi(QC + "_duration_to_nb_windows")
    mod = fi.module
    # the tolerance split() must hand over is the literal 1e-9 of the statement (obligation C06:split:tolerance-is-1e-9), whatever
    # the module calls its constant
    import ast as _ast
    from pyvc.engine import State as _State
    if eng.st is None:
        eng.st = _State()
    eps_src = eng.eval(_ast.Constant(value=1e-9), Frame(None, {}, mod))
    slices = list(range(-82, 1)) + ["tiny", "bigint"]
    P6 = ("C06",)

    def run_(eng):
        case = eng.choose(4, None, "argument class")
        d, w = Fl(Real("duration")), Fl(Real("analysis_window"))
        mode = ["floor", "ceil"][eng.choose(2, None, "rounding")]
        rf = eng.lib["math." + mode]
        rfn = LibCallable("math." + mode, rf)
        eps = eps_src
        if case == 0:
            eng.assume(Or(d.t < 0, w.t <= 0))
        elif case == 1:
            eng.assume(And(d.t == 0, w.t > 0))
        else:
            eng.assume(And(d.t > 0, w.t > 0))
        if case in (0, 1):
            try:
                res = eng.run_function(fi, [d, w, rfn, eps], {})
            except PyRaise as e:
                eng.prove("C06:dtnw:ValueError-only-for-negative-duration-or-non-positive-window",
                          case == 0 and e.exc == "ValueError", props=P6)
                return None
            eng.prove("C06:dtnw:zero-duration-is-zero-windows", case == 1 and is_int(res) and I(res) == 0 if case == 1 else False, props=P6)
            return None
        sl = slices[eng.choose(len(slices), None, "exponent slice")] if case == 2 else None
        if case == 3:
            return None
        m = Int("m")
        if sl == "tiny":
            # 0 < q < 2**-30: a real interval (no float subtlety: nothing is subtracted)
            qn = Int("qn")
            eng.assume(And(qn > 0, qn < 2 ** 70))
            qv = FlQ(qn, 2 ** 100)
        elif sl == "bigint":
            k_ = Int("qint")
            eng.assume(k_ >= 2 ** 53)
            qv = FlQ(k_, 1)
        else:
            eng.assume(And(m >= 2 ** 52, m < 2 ** 53))
            qv = FlQ(m, 2 ** (-sl))
        q = qv.t
        eng.float_strict = True
        gh = eng.st.ghost
        gh["fdiv"] = lambda a, b: qv
        gh["subs"] = 0

        def fsub(a, b):
            # float subtraction q - nearest: the exact result must be representable in binary64
            gh["subs"] += 1
            okk = isinstance(a, FlQ) and is_int(b)
            eng.prove("C06:dtnw:only-quotient-minus-integer-is-subtracted", okk, props=P6)
            if not okk:
                raise PathEnd()
            r = fl_sub_int(a, b)
            if sl == "tiny":
                eng.prove("C06:dtnw:no-subtraction-for-tiny-quotients", False, props=P6)
            elif sl == "bigint":
                eng.prove("C06:dtnw:subtraction-exact(zero-or-integer)", True, props=P6)
            else:
                # numerator is an integer multiple of the quotient's ulp: representable iff below 2**53;
                # float(nearest) itself is exact for |nearest| < 2**53
                eng.prove("C06:dtnw:subtraction-representable(exact)",
                          And(r.num < 2 ** 53, -r.num < 2 ** 53, I(b) < 2 ** 53, -I(b) < 2 ** 53), props=P6)
            return r
        gh["fsub"] = fsub
        try:
            res = eng.run_function(fi, [d, w, rfn, eps], {})
        except PyRaise as e:
            eng.prove("C06:dtnw:no-exception-for-positive-arguments(%s)" % e.exc, False, props=P6)
            return None
        ok = is_int(res) and not isinstance(res, bool)
        eng.prove("C06:dtnw:returns-an-int", ok, props=P6)
        if ok:
            eng.prove("C06:dtnw:count-is-snap-to-integer-within-1e-9-else-%s" % mode, I(res) == snap_spec_q(qv, mode), props=P6)
            if mode == "ceil":
                eng.prove("C06:dtnw:ceil-count-at-least-1", I(res) >= 1, props=P6)
        return None
    sess.run_unit(u, eng, run_)
    return u


def eng_const(eng, mod, name):
    from pyvc.engine import State
    if eng.st is None:
        eng.st = State()
    return eng.eval(mod.consts[name], Frame(None, {}, mod))


def install_math(eng):
    def _floor(e, a, k):
        (x,) = a
        x = e.force(x)
        return fl_floor(x) if isinstance(x, Fl) else x

    def _ceil(e, a, k):
        (x,) = a
        x = e.force(x)
        return fl_ceil(x) if isinstance(x, Fl) else x
    eng.lib["math.floor"] = _floor
    eng.lib["math.ceil"] = _ceil


# spec-level window counts (contract of _duration_to_nb_windows for callers)
QUOT = z3.Function("float_quotient", RealS, RealS, RealS)


def nb_spec(d, w, mode):
    q = QUOT(R(d), R(w))
    return If(R(d) == 0, 0, snap_spec(q, mode))


# ---------------------------------------------------------------------------
# split()

KW_PAIRS = [("analysis_window", "aw"), ("max_read", "mr"), ("audio_format", "fmt"), ("validator", "val"),
            ("energy_threshold", "eth"), ("use_channel", "uc"), ("sampling_rate", "sr"), ("sample_width", "sw"),
            ("channels", "ch")]


def sym_kwargs(eng):
    """**kwargs with every documented key possibly present (symbolic flags)."""
    ent = {}
    vals = {}
    for lg, sh in KW_PAIRS:
        for k in (lg, sh):
            p = Bool("has_" + k)
            if lg == "analysis_window":
                v = Fl(Real("kw_" + k))
            elif lg == "energy_threshold":
                v = Fl(Real("kw_" + k))
            elif lg == "validator":
                v = eng.st.new_obj("UserValidator", {})
                eng.st.ghost.setdefault("callable_refs", {})[v.oid] = True
            elif lg == "max_read":
                v = Fl(Real("kw_" + k))
            else:
                v = Opq(tag=k)
            ent[k] = (p, v)
            vals[k] = (p, v)
    ent["large_file"] = (Bool("has_large_file"), Opq(tag="large_file"))
    vals["large_file"] = ent["large_file"]
    return DictVal(ent), vals


def same_maybe(x, spec):
    """x is structurally the lazy value `spec` (same conditions, same leaves)."""
    if isinstance(spec, MaybeVal):
        return isinstance(x, MaybeVal) and x.cond.eq(spec.cond) and same_maybe(x.a, spec.a) and same_maybe(x.b, spec.b)
    return x is spec


def resolve(vals, lg, sh, default):
    """long name if given, else short alias, else default -- as a lazy value."""
    pl, vl = vals[lg]
    ps, vs = vals[sh]
    inner = MaybeVal(ps, vs, default)
    return MaybeVal(pl, vl, inner)


def resolve_fl(vals, lg, sh, default):
    pl, vl = vals[lg]
    ps, vs = vals[sh]
    return If(pl, vl.t, If(ps, vs.t, R(default)))


def unit_split(sess, ctx):
    u = Unit("split", [QC + "split", QC + "AudioRegion.__bytes__"])
    eng = sess.engine()
    eng.inline |= {QC + "AudioRegion.__bytes__"} | set(RG.ACCESSORS)
    install_math(eng)
    fi = ctx.fi(QC + "split")
    P = ("C05", "C06", "C09")

    def run_(eng):
        st = eng.st
        gh = st.ghost
        log = []
        gh["log"] = log
        min_dur, max_dur, max_sil = Fl(Real("min_dur")), Fl(Real("max_dur")), Fl(Real("max_silence"))
        drop, strict = Bool("drop_trailing_silence"), Bool("strict_min_dur")
        kw, vals = sym_kwargs(eng)
        ikind = ["reader", "region", "other"][eng.choose(3, None, "input kind")]
        rdr_view = {}

        def mk_reader(tag):
            r = st.new_obj("IReader", {})
            sr, sw, ch, bs = Int(tag + ".sr"), Int(tag + ".sw"), Int(tag + ".ch"), Int(tag + ".block_size")
            eng.assume(And(sr >= 1, sw >= 1, ch >= 1, bs >= 1))
            bd = Fl(eng.spec_div(bs, sr))
            # an overlapping reader has a hop shorter than its block: frames (and so the window counts and the region
            # starts) are still block_dur long
            hs = Int(tag + ".hop_size")
            eng.assume(And(hs >= 1, hs <= bs))
            st.heap[r.oid].update({"sr": sr, "sw": sw, "ch": ch, "block_dur": bd, "sampling_rate": sr,
                                   "sample_width": sw, "channels": ch, "block_size": bs, "hop_size": hs,
                                   "hop_dur": Fl(eng.spec_div(hs, sr))})
            st.ghost.setdefault("isa", {})[r.oid] = {"AudioReader": True, "AudioRegion": False, "AudioSource": False}
            rdr_view.update({"r": r, "sr": sr, "sw": sw, "ch": ch, "bd": bd})
            return r
        eng.iface[("IReader", "open")] = lambda e, o, a, k: log.append(("open", o))
        eng.iface[("IReader", "read")] = lambda e, o, a, k: log.append(("read", o)) or None
        region_view = None
        if ikind == "reader":
            inp = mk_reader("rd")
        elif ikind == "region":
            # a region that was itself cut out of a longer stream carries a start; the result must not depend on it
            region_view = RG.RV("in", "none" if eng.choose(2, None, "region input: no start / has a start") == 0 else "float")
            eng.assume(region_view.wf(eng))
            inp = RG.region_obj(eng, region_view)
        else:
            inp = Opq(tag="input")
            gh["isinstance_fn"] = lambda v, name: False

        def ctor_reader(e, args, kwargs):
            log.append(("AudioReader", tuple(args), dict(kwargs)))
            if e.choose(2, None, "AudioReader(): ok / TooSmallBlockDuration") == 1:
                ex = PyRaise("TooSmallBlockDuration", ())
                ex.attrs = {"block_dur": Opq(tag="bd"), "sampling_rate": Opq(tag="sr")}
                raise ex
            return mk_reader("new")

        def ctor_validator(e, args, kwargs):
            v = st.new_obj("IEnergyValidator", {})
            log.append(("AudioEnergyValidator", tuple(args), dict(kwargs), v))
            return v

        def ctor_tokenizer(e, args, kwargs):
            t = st.new_obj("ITokenizer", {})
            log.append(("StreamTokenizer", tuple(args), dict(kwargs), t))
            return t

        def tk_tokenize(e, o, args, kwargs):
            g = GenVal("abstract", name="tokens", next_fn=None)
            log.append(("tokenize", o, tuple(args), dict(kwargs), g))
            return g
        eng.ctor_contracts = {"AudioReader": ctor_reader, "AudioEnergyValidator": ctor_validator,
                              "StreamTokenizer": ctor_tokenizer}
        eng.iface[("ITokenizer", "tokenize")] = tk_tokenize

        def c_dtnw(e, fi_, sv, args, kwargs):
            log.append(("dtnw", tuple(args), dict(kwargs)))
            d, w = e.force(args[0]), e.force(args[1])
            rfn = args[2] if len(args) > 2 else kwargs.get("round_fn")
            eps = args[3] if len(args) > 3 else kwargs.get("epsilon", 0)
            okm = isinstance(rfn, LibCallable) and rfn.name in ("math.floor", "math.ceil")
            e.prove("C06:split:window-counts-use-floor-or-ceil", okm, props=("C06",))
            oke = isinstance(eps, Fl) and z3.is_true(z3.simplify(eps.t == EPS9_Z3))
            e.prove("C06:split:tolerance-is-1e-9", oke, props=("C06",))
            if not okm:
                raise PathEnd()
            if e.decide(Or(R(d) < 0, R(w) <= 0)):
                raise PyRaise("ValueError", ())
            return nb_spec(d, w, rfn.name[5:])
        eng.contracts[QC + "_duration_to_nb_windows"] = c_dtnw

        def c_make_region(e, fi_, sv, args, kwargs):
            log.append(("make_region", tuple(args), dict(kwargs)))
            return st.new_obj("RegionPlaceholder", {})
        eng.contracts[QC + "_make_audio_region"] = c_make_region

        # ---- expected effective values
        aw_eff = resolve_fl(vals, "analysis_window", "aw", eng_const(eng, fi.module, "DEFAULT_ANALYSIS_WINDOW"))
        eth_eff = resolve_fl(vals, "energy_threshold", "eth", eng_const(eng, fi.module, "DEFAULT_ENERGY_THRESHOLD"))
        eng.current_fn = fi
        kwargs = {k: Absentable(p, v) for k, (p, v) in kw.entries.items()}
        raised = None
        try:
            res = eng.run_function(fi, [inp, min_dur, max_dur, max_sil, drop, strict], kwargs)
        except PyRaise as ex:
            raised = ex
        # ---- what the window duration is
        names = [x[0] for x in log]
        if ikind == "reader":
            w = rdr_view["bd"].t if rdr_view else None
        else:
            w = aw_eff
        rd_calls = [x for x in log if x[0] == "AudioReader"]
        too_small = raised is not None and raised.exc == "ValueError" and len(rd_calls) == 1 and "dtnw" not in names \
            and not rdr_view
        nmin = nb_spec(min_dur, Fl(w), "ceil")
        nmax = nb_spec(max_dur, Fl(w), "floor")
        nsil = nb_spec(max_sil, Fl(w), "floor")
        bad_args = Or(min_dur.t <= 0, max_dur.t <= 0, max_sil.t < 0)
        bad_aw = (aw_eff <= 0) if ikind != "reader" else z3.BoolVal(False)
        bad_counts = Or(nmin > nmax, nsil >= nmax)
        if raised is not None:
            if raised.exc != "ValueError":
                eng.prove("C06:split:unexpected-%s" % raised.exc, False, props=P)
                return None
            if too_small:
                eng.prove("C06:split:ValueError-for-window-shorter-than-one-sample", And(Not(bad_args), Not(bad_aw)), props=("C06",))
            else:
                eng.prove("C06:split:ValueError-only-for-the-listed-argument-errors", Or(bad_args, bad_aw, bad_counts), props=("C06",))
            eng.prove("C08:split:nothing-read-when-rejecting", "read" not in names and "open" not in names, props=("C06", "C08"))
            return None
        eng.prove("C06:split:every-other-combination-accepted", And(Not(bad_args), Not(bad_aw), Not(bad_counts)), props=("C06",))
        # ---- reader construction (C09 wiring)
        R_ = rdr_view.get("r")
        if ikind == "reader":
            eng.prove("C09:split:an-AudioReader-input-is-used-as-is", not rd_calls and R_ == inp, props=("C09", "C06"))
        else:
            ok = len(rd_calls) == 1
            eng.prove("C09:split:one-reader-built", ok, props=("C09",))
            if not ok:
                return None
            _, a, k = rd_calls[0]
            if ikind == "region":
                eng.prove("C09:split:region-input-supplies-its-own-bytes", len(a) == 1 and a[0] is region_view.data, props=("C09", "C05", "C20"))
                okp = all(is_int(k.get(n)) for n in ("sampling_rate", "sample_width", "channels"))
                eng.prove("C09:split:region-input-supplies-its-own-format",
                          And(I(k["sampling_rate"]) == region_view.sr, I(k["sample_width"]) == region_view.sw,
                              I(k["channels"]) == region_view.ch) if okp else False, props=("C09", "C05"))
            else:
                eng.prove("C09:split:input-handed-to-the-reader-unchanged", len(a) == 1 and a[0] is inp, props=("C09",))
            bd = k.get("block_dur")
            eng.prove("C06:split:reader-block-duration-is-the-analysis-window",
                      (bd.t == aw_eff) if isinstance(bd, Fl) else False, props=("C06", "C09", "C05"))
            eng.prove("C09:split:max_read-long-name-wins-over-mr",
                      same_maybe(k.get("max_read"), resolve(vals, "max_read", "mr", None)), props=("C09",))
            eng.prove("C09:split:audio_format-long-name-wins-over-fmt",
                      same_maybe(k.get("audio_format"), resolve(vals, "audio_format", "fmt", None)), props=("C09",))
            okf = True
            for key, (p, v) in vals.items():
                if key in ("max_read", "audio_format"):
                    continue
                if ikind == "region" and key in ("sampling_rate", "sample_width", "channels"):
                    continue
                x = k.get(key)
                okf = okf and isinstance(x, Absentable) and x.present.eq(p) and x.value is v
            eng.prove("C09:split:all-other-keywords-forwarded-untouched", okf, props=("C09", "C08", "C05"))
            eng.prove("C09:split:no-record-no-hop", "record" not in k and "hop_dur" not in k, props=("C09", "C10"))
        # ---- validator
        tk = [x for x in log if x[0] == "StreamTokenizer"]
        ok = len(tk) == 1
        eng.prove("C05:split:one-tokenizer-built", ok, props=P + ("C20",))
        if not ok:
            return None
        _, ta, tkw, tref = tk[0]
        # a tokenizer carries the state of the run in progress: two split() results alive together must not share one
        shared = eng.st.ghost.get("maybe_shared", {})
        eng.prove("C20:split:the-tokenizer-is-this-call's-own(not-handed-out-by-a-memoising-helper)", tref.oid not in shared,
                  props=("C20", "C08", "C05", "C09"))
        uv = resolve(vals, "validator", "val", None)
        vcalls = [x for x in log if x[0] == "AudioEnergyValidator"]
        val_arg = eng.force(ta[0]) if ta else None
        if vcalls:
            _, va, vk, vref = vcalls[0]
            eng.prove("C09:split:energy-validator-only-without-a-user-validator",
                      len(vcalls) == 1 and Not(Or(vals["validator"][0], vals["val"][0])), props=("C09", "C07"))
            okv = len(va) == 3 and (isinstance(va[0], Fl) or is_int(va[0]))      # the default is the int 50
            eng.prove("C09:split:energy-threshold-long-name-wins-over-eth-default-50",
                      (R(va[0]) == eth_eff) if okv else False, props=("C09", "C07", "C05"))
            eng.prove("C07:split:validator-gets-the-reader's-width-and-channels",
                      And(I(va[1]) == rdr_view["sw"], I(va[2]) == rdr_view["ch"]) if okv and is_int(va[1]) and is_int(va[2]) else False,
                      props=("C05", "C07", "C09"))
            eng.prove("C09:split:use_channel-long-name-wins-over-uc",
                      same_maybe(vk.get("use_channel"), resolve(vals, "use_channel", "uc", None)) and set(vk) == {"use_channel"},
                      props=("C09", "C07"))
            eng.prove("C05:split:tokenizer-uses-that-validator", val_arg == vref, props=("C05", "C07"))
        else:
            eng.prove("C09:split:user-validator-long-name-wins-over-val",
                      Or(And(vals["validator"][0], val_arg == vals["validator"][1]),
                         And(Not(vals["validator"][0]), vals["val"][0], val_arg == vals["val"][1]))
                      if isinstance(val_arg, Ref) else False, props=("C09", "C05", "C07"))
        # ---- window counts and mode
        okc = len(ta) == 4 and all(is_int(x) for x in ta[1:4]) and set(tkw) == {"mode"}
        eng.prove("C06:split:tokenizer-argument-shape", okc, props=("C06",))
        if okc:
            eng.prove("C06:split:min_length-is-ceil-count-of-min_dur", I(ta[1]) == nmin, props=("C06",))
            eng.prove("C06:split:max_length-is-floor-count-of-max_dur", I(ta[2]) == nmax, props=("C06",))
            eng.prove("C06:split:max_continuous_silence-is-floor-count-of-max_silence", I(ta[3]) == nsil, props=("C06",))
            md = tkw["mode"]
            eng.prove("C06:split:mode-bits-from-the-two-flags",
                      I(md) == If(drop, 4, 0) + If(strict, 2, 0) if is_int(md) else False, props=("C06", "C05"))
            # the tokenizer constructor accepts this tuple (C02 constructor contract)
            eng.assume(Implies(min_dur.t > 0, nmin >= 1))     # proved in unit dtnw (ceil count of a positive quotient)
            eng.prove("C06:split:tokenizer-constructor-accepts-the-tuple",
                      And(I(ta[2]) > 0, I(ta[1]) > 0, I(ta[1]) <= I(ta[2]), I(ta[3]) < I(ta[2])), props=("C06", "C02"))
        dt = [x for x in log if x[0] == "dtnw"]
        okw = len(dt) == 3
        if okw:
            for x in dt:
                wv = eng.force(x[1][1]) if len(x[1]) > 1 else None
                okw = okw and isinstance(wv, Fl) and z3.is_true(z3.simplify(wv.t == w))
            ds = [eng.force(x[1][0]) for x in dt]
            okw = okw and ds[0] is min_dur and ds[1] is max_dur and ds[2] is max_sil
            okw = okw and dt[0][1][2].name == "math.ceil" and dt[1][1][2].name == "math.floor" and dt[2][1][2].name == "math.floor"
        eng.prove("C06:split:counts-computed-from-(min_dur,max_dur,max_silence)-over-the-window-duration", okw, props=("C06",))
        # ---- laziness and region construction
        tz = [x for x in log if x[0] == "tokenize"]
        ok = len(tz) == 1 and tz[0][1] == tref and len(tz[0][2]) == 1 and tz[0][2][0] == R_ and tz[0][3].get("generator") is True \
            and set(tz[0][3]) == {"generator"}
        eng.prove("C08:split:token-generator-over-the-reader", ok, props=("C05", "C08"))
        opens = [i for i, x in enumerate(log) if x[0] == "open"]
        eng.prove("C08:split:reader-opened-once-nothing-read-at-call-time",
                  len(opens) == 1 and log[opens[0]][1] == R_ and "read" not in names, props=("C08", "C05"))
        okg = isinstance(res, GenVal) and res.kind == "map" and ok and res.src is tz[0][4]
        eng.prove("C08:split:returns-a-lazy-map-over-the-token-generator", okg, props=("C08", "C05"))
        if okg:
            d = Seq("list", Int("tok.len"), lambda i: Opq(tag="block"), new_aid())
            a, b = Int("tok.start"), Int("tok.end")
            f2 = res.frame
            eng.assign(res.target, (d, a, b), f2)
            n0 = len(log)
            rv = eng.eval(res.elt, f2)
            mk = [x for x in log[n0:] if x[0] == "make_region"]
            okm = len(mk) == 1 and len(log) == n0 + 1 and len(mk[0][1]) == 6 and not mk[0][2]
            eng.prove("C05:split:one-region-per-token-nothing-else-done", okm, props=("C05", "C08", "C09"))
            if okm:
                x = mk[0][1]
                eng.prove("C05:split:region-built-from-the-token-frames-and-start", x[0] is d and x[1] is a, props=("C05", "C09"))
                eng.prove("C05:split:region-start-uses-the-reader's-real-block-duration",
                          (x[2].t == rdr_view["bd"].t) if isinstance(x[2], Fl) else False, props=("C05", "C09"))
                eng.prove("C05:split:region-format-is-the-reader's",
                          And(I(x[3]) == rdr_view["sr"], I(x[4]) == rdr_view["sw"], I(x[5]) == rdr_view["ch"])
                          if all(is_int(y) for y in x[3:6]) else False, props=("C05", "C09"))
        return None
    sess.run_unit(u, eng, run_, max_paths=100000)
    return u


def unit_make_region(sess, ctx):
    """_make_audio_region: data = concatenation of the token's frames, format as
    given, start = start_frame * frame_duration."""
    u = Unit("_make_audio_region", [QC + "_make_audio_region"])
    eng = RG.setup(sess)
    fi = ctx.fi(QC + "_make_audio_region")

    def run_(eng):
        st = eng.st
        sr, sw, ch = Int("sr"), Int("sw"), Int("ch")
        eng.assume(And(sr >= 1, sw >= 1, ch >= 1))
        ns = Int("cat.nsamples")
        eng.assume(ns >= 0)
        f = z3.Function("cat.byte", IntS, IntS)
        cat = Seq("bytes", ns * sw * ch, lambda t: f(I(t)))
        frames = Seq("list", Int("nframes"), lambda i: Opq(tag="block"), new_aid())
        gh = st.ghost

        def join_any(e, sep, parts):
            e.prove("C05:make_region:frames-joined-with-empty-separator", parts is frames and isinstance(sep, bytes) and sep == b"",
                    props=("C05",))
            return cat
        gh["bytes_join_any"] = join_any
        a = Int("start_frame")
        bd = Fl(Real("frame_duration"))
        res = eng.run_function(fi, [frames, a, bd, sr, sw, ch], {})
        ok = isinstance(res, Ref) and res.cls == "AudioRegion"
        eng.prove("C05:make_region:returns-a-region", ok, props=("C05",))
        if not ok:
            return None
        h = st.heap[res.oid]
        eng.prove("C05:make_region:bytes-are-the-concatenated-frames", h["data"] is cat, props=("C05",))
        eng.prove("C05:make_region:format", And(I(h["sampling_rate"]) == sr, I(h["sample_width"]) == sw, I(h["channels"]) == ch),
                  props=("C05",))
        eng.prove("C05:make_region:start-is-start_frame-times-window-duration",
                  (h["start"].t == eng.spec_mul(a, bd)) if isinstance(h["start"], Fl) else False, props=("C05",))
        return None
    sess.run_unit(u, eng, run_)
    return u


def unit_blocks_lemma(sess, ctx):
    """Lemma (C05): with the fixed-size framing contract (block k = audio[k*B :
    min((k+1)*B, N)], proved in C10) the concatenation of blocks a..b is
    audio[a*B : min((b+1)*B, N)]  -- induction on b (step shown here, base is the
    block contract itself); start*rate == a*B over the reals."""
    u = Unit("lemma(concat-of-blocks-is-the-input-slice)", [], kind="lemma")
    eng = sess.engine()

    def run_(eng):
        N, Bs, a, b, bps = Int("N"), Int("B"), Int("a"), Int("b"), Int("bps")
        eng.assume(And(N >= 0, Bs >= 1, bps >= 1, 0 <= a, a < b, imul(b, Bs) < N))     # block b exists (non-empty)
        imul(a, Bs)
        imul(b + 1, Bs)
        f = z3.Function("audio.byte", IntS, IntS)
        audio = Seq("bytes", imul(N, bps), lambda t: f(I(t)))

        def sl(lo, hi):
            return Seq("bytes", imul(hi - lo, bps), lambda t: audio.at(imul(lo, bps) + I(t)))
        hi_prev = imul(b, Bs)                       # blocks a..b-1 are full: they end at b*B <= N
        hi_b = If(imul(b + 1, Bs) < N, imul(b + 1, Bs), N)
        lhs = seq_concat(sl(imul(a, Bs), hi_prev), sl(hi_prev, hi_b))
        eng.prove("lemma:blocks[a..b-1]+block[b]==audio[a*B:min((b+1)*B,N)]", v_eq_goal(lhs, sl(imul(a, Bs), hi_b)), props=("C05",))
        sr = Int("sr")
        eng.assume(sr >= 1)
        bd = R(Bs) / R(sr)
        eng.prove("lemma:start*rate==a*B(real-arithmetic)", (R(a) * bd) * R(sr) == R(imul(a, Bs)), props=("C05",))
    sess.run_unit(u, eng, run_)
    return u


def unit_region_split(sess, ctx):
    """AudioRegion.split: forwards to split(self, ...) unless max_read/mr is given."""
    u = Unit("AudioRegion.split", [QC + "AudioRegion.split"])
    eng = sess.engine()
    fi = ctx.fi(QC + "AudioRegion.split")

    def run_(eng):
        st = eng.st
        calls = []
        regs = Opq(tag="regions")
        eng.contracts[QC + "split"] = lambda e, f, sv, a, k: calls.append((tuple(a), dict(k))) or regs
        v = RG.RV("r", "float" if eng.choose(2, None, "region has a start time (is itself a detection)?") == 0 else "none")
        eng.assume(v.wf(eng))
        me = RG.region_obj(eng, v)
        args = {n: Opq(tag=n) for n in ("min_dur", "max_dur", "max_silence", "drop_trailing_silence", "strict_min_dur")}
        pm, pmr = Bool("has_max_read"), Bool("has_mr")
        vm = Fl(Real("mr1")) if eng.choose(2, None, "max_read value None?") == 0 else None
        vmr = Fl(Real("mr2")) if eng.choose(2, None, "mr value None?") == 0 else None
        kw = dict(args)
        kw["max_read"] = Absentable(pm, vm)
        kw["mr"] = Absentable(pmr, vmr)
        kw["eth"] = Absentable(Bool("has_eth"), Opq(tag="eth"))
        eff_none = If(pm, vm is None, If(pmr, vmr is None, True))
        try:
            res = eng.run_function(fi, [], kw, me)
        except PyRaise as e:
            eng.prove("C05:region-split:RuntimeWarning-only-when-max_read-given", And(Not(eff_none)) if e.exc == "RuntimeWarning" else False,
                      props=("C05", "C09"))
            return None
        eng.prove("C05:region-split:max_read-rejected", eff_none, props=("C05", "C09"))
        ok = len(calls) == 1 and len(calls[0][0]) == 1 and calls[0][0][0] == me
        eng.prove("C05:region-split:calls-split-on-itself", ok, props=("C05", "C09"))
        eng.prove("C05:region-split:returns-exactly-what-split()-returns", res is regs, props=("C05", "C09", "C20"))
        if ok:
            k = calls[0][1]
            eng.prove("C05:region-split:arguments-forwarded", all(k.get(n) is args[n] for n in args) and
                      isinstance(k.get("eth"), Absentable), props=("C05", "C09"))
        return None
    sess.run_unit(u, eng, run_)
    return u


UNITS = {
    "dtnw": lambda sess, ctx, opts: unit_dtnw(sess, ctx),
    "split": lambda sess, ctx, opts: unit_split(sess, ctx),
    "make_region": lambda sess, ctx, opts: unit_make_region(sess, ctx),
    "blocks_lemma": lambda sess, ctx, opts: unit_blocks_lemma(sess, ctx),
    "region_split": lambda sess, ctx, opts: unit_region_split(sess, ctx),
}

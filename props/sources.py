"""Contracts for the audio sources of auditok.io  (C11; close/reopen clause of C20).

Abstract view of a source: (audio: bytes of N whole samples, consumed, open).
Every public operation is verified against its effect on the whole view, so the
property holds for all finite operation histories by induction on the history.

File-like dependencies (binary file objects, wave readers, sys.stdin.buffer)
are library models (assumed contracts, listed in evidence):
  stream.read(k)      next min(k, remaining) bytes (k None / negative: all), b"" at end
  wave.readframes(k)  next min(k, remaining) frames (k negative: all), b"" at end
"""
import z3
from z3 import And, Or, Not, Implies, If, Int, Bool, IntVal, Real

from pyvc.engine import (PyRaise, PathEnd, Unsupported, LibCallable, GenVal, SliceVal, BoundMethod, DictVal,
                         new_aid, _Break, _Continue)
from pyvc.values import (imul, Seq, Opq, Ref, Fl, IntS, BoolS, I, B, R, fresh_name, v_eq_goal, ClassVal, fresh_seq,
                         is_int, r_trunc, seq_slice)
from pyvc.harness import Unit, CheckerError

QI = "auditok.io."
QB = QI + "BufferAudioSource."
P11 = ("C11",)


class Ctx:
    def __init__(self, sess):
        self.sess = sess

    def fi(self, q):
        return self.sess.func_info(q)


def make_ctx(sess):
    return Ctx(sess)


class SV:
    """Symbolic view of a source."""

    def __init__(self, eng, tag="src"):
        self.sr = Int(fresh_name(tag + ".sr"))
        self.sw = Int(fresh_name(tag + ".sw"))
        self.ch = Int(fresh_name(tag + ".ch"))
        self.N = Int(fresh_name(tag + ".nsamples"))
        self.pos = Int(fresh_name(tag + ".consumed"))
        self.bps = self.sw * self.ch
        f = z3.Function(fresh_name(tag + ".byte"), IntS, IntS)
        self.audio = Seq("bytes", self.N * self.sw * self.ch, lambda t: f(I(t)))
        eng.assume(And(self.sr >= 1, self.sw >= 1, self.ch >= 1, self.N >= 0, self.pos >= 0, self.pos <= self.N))
        eng.note_product(self.sw, self.ch, self.bps)
        eng.note_product(self.N, self.bps, self.N * self.sw * self.ch, one_way=True)
        eng.note_product(self.pos, self.bps, self.pos * self.sw * self.ch, one_way=True)


ACCESS = [QI + "AudioSource." + x for x in ("sampling_rate", "sr", "sample_width", "sw", "channels", "ch")] + \
    [QB + "data", QB + "is_open"]


def setup(sess, inline=()):
    eng = sess.engine()
    eng.inline |= set(inline) | set(ACCESS)
    return eng


def buffer_obj(eng, v, is_open):
    return eng.st.new_obj("BufferAudioSource", {
        "_sampling_rate": v.sr, "_sample_width": v.sw, "_channels": v.ch,
        "_data": v.audio, "_sample_size_all_channels": v.bps,
        "_current_position_bytes": v.pos * v.sw * v.ch, "_is_open": is_open,
    })


def size_arg(eng):
    k = eng.choose(2, None, "size None / int")
    if k == 0:
        return None
    return Int("size")


def read_spec(v, size):
    """(count, data) the next read must deliver."""
    rem = v.N - v.pos
    if size is None:
        cnt = rem
    else:
        cnt = If(size < 0, rem, If(size < rem, size, rem))
    lo = imul(v.pos, v.bps)
    audio = v.audio
    return cnt, Seq("bytes", imul(cnt, v.bps), lambda t: audio.at(lo + I(t)))


def prove_read_result(eng, v, size, res, new_pos_bytes, where, props=P11):
    cnt, dspec = read_spec(v, size)
    if res is None:
        eng.prove(where + ":None-only-when-nothing-to-deliver", cnt == 0, props=props)
        eng.prove(where + ":position-unchanged-on-None", I(new_pos_bytes) == imul(v.pos, v.bps), props=props)
        return
    ok = isinstance(res, (Seq, bytes))
    eng.prove(where + ":returns-bytes", ok, props=props)
    if not ok:
        return
    eng.prove(where + ":never-an-empty-bytes-object", I(res.n if isinstance(res, Seq) else len(res)) > 0, props=props)
    eng.prove(where + ":chunk-is-the-next-min(n,remaining)-samples", v_eq_goal(res, dspec), props=props)
    eng.prove(where + ":consumed-advances-by-the-chunk", I(new_pos_bytes) == imul(v.pos + cnt, v.bps), props=props)


def unit_buffer_init(sess, ctx):
    u = Unit("BufferAudioSource.__init__", [QB + "__init__", QI + "AudioSource.__init__", QI + "check_audio_data"])
    eng = setup(sess, [QI + "AudioSource.__init__", QI + "check_audio_data"])

    def run_(eng):
        sr, sw, ch = Int("sr"), Int("sw"), Int("ch")
        eng.assume(And(sr >= 1, ch >= 1))
        data = fresh_seq("bytes", "data")
        eng.assume(I(data.n) >= 0)
        me = eng.st.new_obj("BufferAudioSource", {})
        okw = Or(sw == 1, sw == 2, sw == 4)
        eng.note_product(sw, ch, sw * ch)
        q, r = eng.div_elim(I(data.n), sw * ch)
        whole = r == 0
        eng.current_fn = ctx.fi(QB + "__init__")
        try:
            eng.run_function(ctx.fi(QB + "__init__"), [data, sr, sw, ch], {}, me)
        except PyRaise as e:
            if e.exc == "AudioParameterError":
                eng.prove("C11:buffer-init:rejects-only-bad-width-or-partial-samples", Or(Not(okw), Not(whole)),
                          props=("C11", "C17"))
            else:
                eng.prove("C11:buffer-init:unexpected-%s" % e.exc, False, props=P11)
            return None
        h = eng.st.heap[me.oid]
        eng.prove("C11:buffer-init:accepts-only-1/2/4-byte-whole-samples", And(okw, whole), props=("C11", "C17"))
        eng.prove("C11:buffer-init:starts-closed-at-position-0",
                  And(I(h["_current_position_bytes"]) == 0, Not(B(h["_is_open"]))), props=("C11", "C20"))
        eng.prove("C11:buffer-init:fields", And(h["_data"] is data, I(h["_sample_size_all_channels"]) == sw * ch), props=P11)
        eng.prove("C11:buffer-init:parameters", And(I(h["_sampling_rate"]) == sr, I(h["_sample_width"]) == sw,
                                                     I(h["_channels"]) == ch), props=P11)
        return None
    sess.run_unit(u, eng, run_)
    return u


def unit_buffer_read(sess, ctx):
    u = Unit("BufferAudioSource.read", [QB + "read"])
    eng = setup(sess)

    def run_(eng):
        v = SV(eng)
        is_open = eng.choose(2, None, "open/closed") == 0
        me = buffer_obj(eng, v, is_open)
        size = size_arg(eng)
        eng.current_fn = ctx.fi(QB + "read")
        try:
            res = eng.run_function(ctx.fi(QB + "read"), [size], {}, me)
        except PyRaise as e:
            eng.prove("C11:buffer-read:error-only-when-not-open", (not is_open) and e.exc == "AudioIOError", props=P11)
            return None
        eng.prove("C11:buffer-read:not-open-raises", is_open, props=P11)
        h = eng.st.heap[me.oid]
        prove_read_result(eng, v, size, res, h["_current_position_bytes"], "C11:buffer-read")
        eng.prove("C11:buffer-read:audio-untouched", h["_data"] is v.audio and B(h["_is_open"]) == True, props=P11)
        return None
    sess.run_unit(u, eng, run_)
    return u


def unit_buffer_position(sess, ctx):
    """position / position_s / position_ms getters and setters, rewind, open, close."""
    u = Unit("BufferAudioSource.position*/rewind/open/close",
             [QB + "position", QB + "position.setter", QI + "Rewindable.position_s", QI + "Rewindable.position_s.setter",
              QB + "position_ms", QB + "position_ms.setter", QB + "rewind", QB + "open", QB + "close"])
    eng = setup(sess, [QB + "position", QB + "position.setter", QB + "rewind"])
    ops = ["get", "set", "get_s", "set_s", "get_ms", "set_ms", "rewind", "open", "close"]

    def run_(eng):
        v = SV(eng)
        is_open = Bool("is_open")
        me = buffer_obj(eng, v, is_open)
        op = ops[eng.choose(len(ops), None, "operation")]
        h = eng.st.heap[me.oid]
        cur = lambda: I(h["_current_position_bytes"])

        def setter_spec(p, where):
            """after `position = p` (samples): consumed = p or N+p; IndexError iff out of [-N, N]."""
            return And(p >= -v.N, p <= v.N), If(p < 0, v.N + p, p)
        try:
            if op == "get":
                r = eng.run_function(ctx.fi(QB + "position"), [], {}, me)
                eng.prove("C11:position-reads-back-consumed-samples", I(r) == v.pos if is_int(r) else False, props=P11)
            elif op == "get_s":
                r = eng.run_function(ctx.fi(QI + "Rewindable.position_s"), [], {}, me)
                eng.prove("C11:position_s-is-consumed/rate", (r.t == eng.spec_div(v.pos, v.sr)) if isinstance(r, Fl) else False, props=P11)
            elif op == "get_ms":
                r = eng.run_function(ctx.fi(QB + "position_ms"), [], {}, me)
                eng.prove("C11:position_ms-is-floor(consumed*1000/rate)",
                          And(I(r) * v.sr <= v.pos * 1000, v.pos * 1000 < (I(r) + 1) * v.sr) if is_int(r) else False, props=P11)
            elif op in ("set", "set_s", "set_ms"):
                if op == "set":
                    p = Int("p")
                    arg = p
                    fn = QB + "position.setter"
                elif op == "set_s":
                    k = eng.choose(2, None, "seconds as float/int")
                    arg = Fl(Real("t")) if k == 0 else Int("t")
                    p = r_trunc(eng.spec_mul(v.sr, arg))
                    fn = QI + "Rewindable.position_s.setter"
                else:
                    k = eng.choose(2, None, "ms int / not int")
                    if k == 1:
                        try:
                            eng.run_function(ctx.fi(QB + "position_ms.setter"), [Fl(Real("x"))], {}, me)
                        except PyRaise as e:
                            eng.prove("C11:position_ms-setter:non-int-raises-ValueError", e.exc == "ValueError", props=P11)
                            return None
                        eng.prove("C11:position_ms-setter:non-int-raises-ValueError", False, props=P11)
                        return None
                    arg = Int("ms")
                    p = r_trunc(eng.spec_div(imul(v.sr, arg), 1000))
                    fn = QB + "position_ms.setter"
                inr, newpos = setter_spec(p, op)
                imul(p, v.bps)
                imul(v.N + p, v.bps)
                try:
                    eng.run_function(ctx.fi(fn), [arg], {}, me)
                except PyRaise as e:
                    eng.prove("C11:%s:IndexError-only-when-out-of-range" % op, And(Not(inr)) if e.exc == "IndexError" else False, props=P11)
                    eng.prove("C11:%s:position-unchanged-on-error" % op, cur() == imul(v.pos, v.bps), props=P11)
                    return None
                eng.prove("C11:%s:out-of-range-raises" % op, inr, props=P11)
                eng.prove("C11:%s:next-read-starts-at-the-requested-sample" % op, cur() == imul(newpos, v.bps), props=P11)
            elif op == "rewind":
                eng.run_function(ctx.fi(QB + "rewind"), [], {}, me)
                eng.prove("C11:rewind-returns-to-start", cur() == 0, props=("C11", "C19", "C20"))
                eng.prove("C11:rewind-keeps-open-state", h["_is_open"] is is_open, props=P11)
            elif op == "open":
                eng.run_function(ctx.fi(QB + "open"), [], {}, me)
                eng.prove("C11:open-opens-without-moving", And(B(h["_is_open"]), cur() == imul(v.pos, v.bps)), props=("C11", "C20"))
            elif op == "close":
                eng.run_function(ctx.fi(QB + "close"), [], {}, me)
                eng.prove("C11:close-closes-and-returns-to-start", And(Not(B(h["_is_open"])), cur() == 0), props=("C11", "C20"))
        except PyRaise as e:
            eng.prove("C11:%s:unexpected-%s" % (op, e.exc), False, props=P11)
            return None
        eng.prove("C11:%s:audio-untouched" % op, h["_data"] is v.audio, props=P11)
        return None
    sess.run_unit(u, eng, run_)
    return u


# ---------------------------------------------------------------------------
# file-backed sources

def stream_obj(eng, v, kind):
    """Library model of an open binary stream / wave reader positioned at
    `consumed` samples of the audio."""
    st = eng.st
    s = st.new_obj("FileStream:" + kind, {})
    gh = st.ghost
    gh["stream_pos"] = v.pos          # in samples
    gh["stream_closed"] = False

    def take(eng, cnt):
        lo = imul(gh["stream_pos"], v.bps)
        audio = v.audio
        d = Seq("bytes", imul(cnt, v.bps), lambda t: audio.at(lo + I(t)))
        gh["stream_pos"] = gh["stream_pos"] + cnt
        return d

    def s_read(eng, obj, args, kwargs):
        gh["stream_reads"] = gh.get("stream_reads", 0) + 1
        eng.prove("C11:lib:read-on-an-open-stream", not gh["stream_closed"], props=P11)
        nb = args[0] if args else None
        rem = v.N - gh["stream_pos"]
        if nb is None:
            return take(eng, rem)
        if not is_int(nb):
            raise PyRaise("TypeError", ())
        nb = I(nb)
        if kind == "stdin" and eng.decide(nb < -1):
            raise PyRaise("ValueError", ("read length must be non-negative or -1",))
        # whole samples only: the code must ask for a multiple of the sample size
        q, r = eng.div_elim(nb, v.bps)
        eng.prove("C11:lib:byte-count-is-whole-samples", Or(nb < 0, r == 0), props=P11)
        return take(eng, If(nb < 0, rem, If(q < rem, q, rem)))

    def s_readframes(eng, obj, args, kwargs):
        eng.prove("C11:lib:readframes-on-an-open-reader", not gh["stream_closed"], props=P11)
        (k,) = args
        if not is_int(k):
            raise PyRaise("TypeError", ())
        k = I(k)
        rem = v.N - gh["stream_pos"]
        return take(eng, If(k < 0, rem, If(k < rem, k, rem)))

    def s_close(eng, obj, args, kwargs):
        gh["stream_closed"] = True
        return None
    cls = "FileStream:" + kind
    eng.iface[(cls, "read")] = s_read
    eng.iface[(cls, "readframes")] = s_readframes
    eng.iface[(cls, "close")] = s_close
    return s


def unit_file_read(sess, ctx):
    """FileAudioSource.read with each concrete _read_from_stream (raw, wave,
    stdin), is_open, close: same contract as the buffer source."""
    u = Unit("FileAudioSource.read (Raw/Wave/Stdin)",
             [QI + "FileAudioSource.read", QI + "FileAudioSource.is_open", QI + "FileAudioSource.close",
              QI + "RawAudioSource._read_from_stream", QI + "WaveAudioSource._read_from_stream",
              QI + "StdinAudioSource._read_from_stream", QI + "StdinAudioSource.is_open"])
    eng = setup(sess, [QI + "FileAudioSource.is_open", QI + "StdinAudioSource.is_open",
                       QI + "RawAudioSource._read_from_stream", QI + "WaveAudioSource._read_from_stream",
                       QI + "StdinAudioSource._read_from_stream"])
    kinds = ["raw", "wave", "stdin"]

    def run_(eng):
        v = SV(eng)
        kind = kinds[eng.choose(3, None, "source kind")]
        is_open = eng.choose(2, None, "open/closed") == 0
        stream = stream_obj(eng, v, kind)
        base = {"_sampling_rate": v.sr, "_sample_width": v.sw, "_channels": v.ch}
        if kind == "raw":
            base.update({"_filename": "f.raw", "_audio_stream": stream if is_open else None, "_sample_size": v.bps})
            me = eng.st.new_obj("RawAudioSource", base)
        elif kind == "wave":
            base.update({"_filename": "f.wav", "_audio_stream": stream if is_open else None})
            me = eng.st.new_obj("WaveAudioSource", base)
        else:
            base.update({"_is_open": is_open, "_sample_size": v.bps, "_stream": stream, "_audio_stream": None})
            me = eng.st.new_obj("StdinAudioSource", base)
        if kind == "stdin":
            size = Int("size")
            eng.assume(size >= 0)     # C11 claims None / negative sizes for buffer and file sources only
        else:
            size = size_arg(eng)
        op = eng.choose(2, None, "read / close")
        h = eng.st.heap[me.oid]
        if op == 1:
            if kind == "stdin":
                eng.run_function(ctx.fi(QI + "StdinAudioSource.close"), [], {}, me)
                eng.prove("C11:stdin-close-closes", Not(B(h["_is_open"])), props=P11)
                # closing must not wait for the producer: no read on the (possibly live) stream
                eng.prove("C11:stdin-close-does-not-read-the-stream", eng.st.ghost.get("stream_reads", 0) == 0, props=P11 + ("C14",))
            else:
                eng.run_function(ctx.fi(QI + "FileAudioSource.close"), [], {}, me)
                eng.prove("C11:file-close-releases-the-handle", h["_audio_stream"] is None and
                          (eng.st.ghost["stream_closed"] or not is_open), props=P11)
            return None
        eng.current_fn = ctx.fi(QI + "FileAudioSource.read")
        try:
            res = eng.run_function(ctx.fi(QI + "FileAudioSource.read"), [size], {}, me)
        except PyRaise as e:
            eng.prove("C11:%s-read:error-only-when-not-open" % kind, (not is_open) and e.exc == "AudioIOError", props=P11)
            return None
        eng.prove("C11:%s-read:not-open-raises" % kind, is_open, props=P11)
        prove_read_result(eng, v, size, res, imul(eng.st.ghost["stream_pos"], v.bps), "C11:%s-read" % kind)
        # a read -- also one that finds nothing left -- leaves the source open: "once nothing remains read returns None"
        # on EVERY further call
        if kind == "stdin":
            still = z3.is_true(z3.simplify(B(h["_is_open"]))) if not isinstance(h["_is_open"], bool) else h["_is_open"]
        else:
            still = h["_audio_stream"] is stream and not eng.st.ghost["stream_closed"]
        eng.prove("C11:%s-read:source-stays-open" % kind, still, props=P11 + ("C10",))
        return None
    sess.run_unit(u, eng, run_)
    return u


def unit_file_open(sess, ctx):
    """open() of raw / wave / stdin sources: opens the named file (library model
    returns a stream at position 0) only when not already open."""
    u = Unit("Raw/Wave/Stdin open()", [QI + "RawAudioSource.open", QI + "WaveAudioSource.open", QI + "StdinAudioSource.open"])
    eng = setup(sess)
    kinds = ["raw", "wave", "stdin"]

    def run_(eng):
        kind = kinds[eng.choose(3, None, "kind")]
        already = eng.choose(2, None, "already open?") == 0
        opened = []
        fname = Opq(tag="str")

        def lib_open(e, a, k):
            opened.append((a, k))
            # the stream model (read(k) returns min(k, remaining) bytes) holds for Python's default BUFFERED binary
            # streams only: an unbuffered raw stream may return fewer bytes
            bf = k.get("buffering", a[2] if len(a) > 2 else -1)
            e.prove("C11:lib:file-opened-with-default-buffering(stream-model-precondition)",
                    isinstance(bf, int) and bf != 0, props=("C11", "C09", "C18", "C05"))
            return eng.st.new_obj("FileStream:new", {})
        eng.lib["builtin.open"] = lib_open
        eng.lib["wave.open"] = lib_open
        old = eng.st.new_obj("FileStream:old", {})
        if kind == "raw":
            me = eng.st.new_obj("RawAudioSource", {"_filename": fname, "_audio_stream": old if already else None})
            eng.run_function(ctx.fi(QI + "RawAudioSource.open"), [], {}, me)
        elif kind == "wave":
            me = eng.st.new_obj("WaveAudioSource", {"_filename": fname, "_audio_stream": old if already else None})
            eng.run_function(ctx.fi(QI + "WaveAudioSource.open"), [], {}, me)
        else:
            me = eng.st.new_obj("StdinAudioSource", {"_is_open": already})
            eng.run_function(ctx.fi(QI + "StdinAudioSource.open"), [], {}, me)
            eng.prove("C11:stdin-open-opens", B(eng.st.heap[me.oid]["_is_open"]) == True, props=P11)
            return None
        h = eng.st.heap[me.oid]
        if already:
            eng.prove("C11:%s-open:keeps-the-open-handle(position-preserved)" % kind, h["_audio_stream"] == old and not opened, props=P11)
        else:
            ok = len(opened) == 1 and opened[0][0][0] is fname and isinstance(h["_audio_stream"], Ref) and \
                h["_audio_stream"].cls == "FileStream:new"
            if ok and kind == "raw":
                ok = len(opened[0][0]) > 1 and opened[0][0][1] == "rb"
            eng.prove("C11:%s-open:opens-the-named-file-for-binary-reading" % kind, ok, props=("C11", "C09", "C18"))
        return None
    sess.run_unit(u, eng, run_)
    return u


def unit_accessors(sess, ctx):
    """The audio parameters of every source kind read back through all six spellings (sampling_rate/sr,
    sample_width/sw, channels/ch: AudioSource properties); is_open() of the buffer source;
    StdinAudioSource.__init__ / FileAudioSource.__init__ (fields, width check, reads standard input's binary buffer)."""
    names = ["sampling_rate", "sr", "sample_width", "sw", "channels", "ch"]
    u = Unit("AudioSource parameter aliases, is_open, Stdin/File constructors",
             [QI + "AudioSource." + x for x in names] + [QB + "is_open", QI + "StdinAudioSource.__init__",
                                                           QI + "FileAudioSource.__init__"])
    eng = setup(sess, [QI + "AudioSource.__init__", QI + "FileAudioSource.__init__"])
    kinds = ["buffer", "raw", "wave", "stdin"]
    PA = ("C11", "C05", "C09")

    def run_(eng):
        op = eng.choose(3, None, "aliases / is_open / stdin constructor")
        if op == 2:
            sr, sw, ch = Int("sr"), Int("sw"), Int("ch")
            eng.assume(And(sr >= 1, ch >= 1))
            # sys.stdin.buffer is a BufferedReader: read(n) blocks until n bytes (or EOF); its `.raw` is the unbuffered
            # FileIO underneath, whose read(n) returns whatever a pipe holds -- a different object with a different contract
            stdin_buf = eng.st.new_obj("FileStream:stdin", {"raw": eng.st.new_obj("FileStream:stdin-raw-unbuffered", {})})
            eng.modattrs["sys.stdin"] = eng.st.new_obj("SysStdin", {"buffer": stdin_buf})
            me = eng.st.new_obj("StdinAudioSource", {})
            okw = Or(sw == 1, sw == 2, sw == 4)
            try:
                eng.run_function(ctx.fi(QI + "StdinAudioSource.__init__"), [sr, sw, ch], {}, me)
            except PyRaise as e:
                eng.prove("C11:stdin-init:rejects-only-a-bad-width", And(e.exc == "AudioParameterError", Not(okw)), props=P11)
                return None
            h = eng.st.heap[me.oid]
            eng.prove("C11:stdin-init:accepts-only-1/2/4-byte-samples", okw, props=P11)
            eng.prove("C11:stdin-init:parameters", And(I(h["_sampling_rate"]) == sr, I(h["_sample_width"]) == sw,
                                                        I(h["_channels"]) == ch) if all(is_int(h.get(k)) for k in
                                                        ("_sampling_rate", "_sample_width", "_channels")) else False, props=PA)
            eng.prove("C11:stdin-init:sample-size-is-width*channels",
                      I(h["_sample_size"]) == sw * ch if is_int(h.get("_sample_size")) else False, props=P11 + ("C09",))
            eng.prove("C11:stdin-init:starts-closed-reading-the-binary-standard-input",
                      h.get("_is_open") is False and h.get("_stream") == stdin_buf, props=P11 + ("C09",))
            return None
        v = SV(eng)
        kind = kinds[eng.choose(4, None, "source kind")]
        is_open = eng.choose(2, None, "open/closed") == 0
        base = {"_sampling_rate": v.sr, "_sample_width": v.sw, "_channels": v.ch}
        if kind == "buffer":
            me = buffer_obj(eng, v, is_open)
        elif kind == "raw":
            base.update({"_filename": "f.raw", "_audio_stream": None, "_sample_size": v.bps})
            me = eng.st.new_obj("RawAudioSource", base)
        elif kind == "wave":
            base.update({"_filename": "f.wav", "_audio_stream": None})
            me = eng.st.new_obj("WaveAudioSource", base)
        else:
            base.update({"_is_open": is_open, "_sample_size": v.bps, "_stream": None, "_audio_stream": None})
            me = eng.st.new_obj("StdinAudioSource", base)
        if op == 1:
            if kind != "buffer":
                raise PathEnd()        # file-backed kinds: unit file_read
            r = eng.call_value(eng.getattr(me, "is_open"), [], {})
            eng.prove("C11:buffer-is_open:tells-whether-open", r is is_open or (not isinstance(r, bool) and z3.is_true(z3.simplify(B(r) == is_open))),
                      props=P11)
            return None
        exp = {"sampling_rate": v.sr, "sr": v.sr, "sample_width": v.sw, "sw": v.sw, "channels": v.ch, "ch": v.ch}
        nm = names[eng.choose(6, None, "spelling")]
        r = eng.getattr(me, nm)
        eng.prove("C11:%s:%s-is-the-source's-own-parameter" % (kind, nm),
                  z3.is_true(z3.simplify(I(r) == exp[nm])) if is_int(r) else False, props=PA)
        return None
    sess.run_unit(u, eng, run_)
    return u


UNITS = {
    "buffer_init": lambda sess, ctx, opts: unit_buffer_init(sess, ctx),
    "buffer_read": lambda sess, ctx, opts: unit_buffer_read(sess, ctx),
    "buffer_position": lambda sess, ctx, opts: unit_buffer_position(sess, ctx),
    "file_read": lambda sess, ctx, opts: unit_file_read(sess, ctx),
    "file_open": lambda sess, ctx, opts: unit_file_open(sess, ctx),
    "accessors": lambda sess, ctx, opts: unit_accessors(sess, ctx),
}

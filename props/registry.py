"""Which verification units decide which property, and what each check assumes."""

COMMON_TRUSTED = [
    "CPython semantics of the Python subset the engine interprets (DESIGN 2.2), as encoded in /verif/pyvc/engine.py "
    "and values.py: unbounded ints, floor division/modulo, slice clamping, short-circuit and/or, truthiness, "
    "attribute lookup order (property > instance dict > class > __getattr__), exception matching by class",
    "soundness of z3 5.1 (API); cvc5 1.0.3 / z3 4.8.12 only for obligations z3 leaves unknown",
    "the sidecar contracts in /verif/props/*.py state the property as DESIGN.md section 5 reads it",
]

FLOAT_ASSUME = (
    "binary64 operations on symbolic operands are an UNINTERPRETED rounding of the exact real result, of which only sign preservation (no underflow), identity on 0 and 'never crosses an integer of magnitude <= 2**53 that the exact value does not cross' are assumed; int()/round() are exact on the rounded value; a spec that says 't*rate' means the same float product as the code computes (no algebraic identity of the reals is available); overflow/underflow not modelled")

TOK_ASSUME = [
    "the validator's verdict on the k-th frame is an arbitrary Boolean V(k) (covers stateful validators); "
    "its truthiness is taken as a bool",
    "frames are opaque values; data_source.read() returns None at end of stream and a frame otherwise",
    "lists are modelled as values; the aliasing this hides is covered by the ownership obligations "
    "(inv[buffer_not_aliased_by_delivered_token], ownership:*)",
    "generator resumption semantics of Python (each next() runs the body to the following yield)",
    "partial correctness: termination of tokenize() is not proved (it follows the source's end of stream)",
]

TOK_UNITS = ["lemmas", "ctor", "process", "post_process", "iter_tokens", "tokenize"]

REG_ASSUME = [
    FLOAT_ASSUME,
    "bytes and lists are modelled as values (length, index -> element); @dataclass(frozen=True) semantics assumed",
    "regions are well-formed by construction (len(data) == nsamples*sw*ch with sr, sw, ch >= 1), which is what the "
    "constructor contract (unit post_init) establishes",
    "exact polynomial rewriting of integer terms (pyvc/nl.py: distribution over if-then-else, (x*B)//B == x) and "
    "instantiated monotonicity-of-multiplication lemmas are arithmetic identities, not checked by a second tool",
]

RD_ASSUME = [
    "the wrapped source obeys the C11 interface contract (read(k): next min(k, remaining) samples of `audio`, None when "
    "nothing remains, AudioIOError when not open; rewind(): back to 0); every concrete source kind is verified to "
    "implement it (C11) and each wrapper is verified to implement it again for its own view, which is what composes the layers",
    "hop_size = int(hop_dur*sr) >= 1 (a hop shorter than one sample is outside the statement; noted in DESIGN C10)",
    FLOAT_ASSUME,
    "generator semantics of Python: each next() runs the body to the following yield; a finished generator keeps "
    "raising StopIteration",
    "recorder cache: the list of blocks is abstracted to (length, concatenation) with append/join as the ghost updates",
    "exact polynomial rewriting (pyvc/nl.py) and instantiated multiplication-monotonicity lemmas",
]

SPLIT_ASSUME = [
    "split() is verified against the interface of the reader (block_dur, sr, sw, ch, open, read) and the constructor "
    "contracts of AudioReader (C10), AudioEnergyValidator (C07), StreamTokenizer (C02) and tokenize() (C08)",
    "**kwargs is modelled as a finite map over the documented keys, each with a symbolic presence flag",
    "outside _duration_to_nb_windows: " + FLOAT_ASSUME,
    "generator expressions are lazy, order-preserving maps (Python semantics, assumed)",
]

IO_ASSUME = [
    "file system and wave module are library models (assumed): open(name,'rb').read() is the file content, "
    "open(name,'wb').write(d) defines it; wave.open(name) yields the header's (framerate, sampwidth, nchannels) and frames; "
    "ROUND-TRIP AXIOM: a wave file written with setframerate/setsampwidth/setnchannels(r,w,c) + writeframes(d) reads back (r,w,c,d)",
    "format names / extensions are case-split over representatives {None, wav, wave, WAV, raw, RAW, ogg=other} x "
    "{none, .wav, .wave, .WAV, .raw, .ogg}: bounded on strings",
    "pydub code paths are outside the verified set (pydub absent); _WITH_PYDUB is treated as an arbitrary Boolean",
    "str.format / os.path.exists / Path.exists are oracles (opaque result / arbitrary Boolean)",
]

WK_ASSUME = [
    "THREAD-MODULAR REDUCTION (DESIGN section 6, argued not machine-checked): threads share only queue.Queue inboxes; each "
    "thread is verified sequentially for EVERY result sequence of its queue waits (message / stop marker / Empty), which "
    "covers all interleavings and timeout firings under the assumptions below",
    "queue.Queue is a linearizable FIFO; get(timeout) raises Empty only if the queue was empty at some instant of the wait; "
    "Thread.join is a happens-before edge; CPython executes each thread sequentially consistently",
    "liveness (every thread terminates) holds under fairness and a finite stream / a requested stop: every loop exits on the "
    "stop marker, which its producer is proved to send in program order after the data; the wait-for graph "
    "main -> tokenizer -> stream saver, main -> observers is acyclic (structure unit); external calls return",
    "AudioDataSaverWorker.__del__ (re-runs _post_process at garbage collection) is not modelled",
    "datetime / logging calls are opaque no-ops; observers are an abstract list of K workers (K symbolic)",
]

REGISTRY = {
    "C01": {"module": "props.tokenizer", "units": ["lemmas", "ctor", "process", "post_process", "iter_tokens", "string_source", "tokenize"],
            "witness": "tok", "assumptions": TOK_ASSUME},
    "C02": {"module": "props.tokenizer", "units": ["lemmas", "ctor", "process", "post_process", "iter_tokens", "tokenize", "string_source"],
            "witness": "tok", "assumptions": TOK_ASSUME},
    "C03": {"module": "props.tokenizer", "units": ["lemmas", "ctor", "process", "post_process", "iter_tokens", "tokenize", "string_source"],
            "witness": "tok", "assumptions": TOK_ASSUME},
    "C04": {"module": "props.tokenizer", "units": ["lemmas", "ctor", "process", "post_process", "iter_tokens", "tokenize", "string_source"],
            "witness": "tok", "assumptions": TOK_ASSUME + [
                "the 'consequently' sentences of C04 are read as corollaries of Emit-equivalence; lemma E "
                "(piece inside its stretch, stretch starts valid) is proved, the coverage corollary is proved "
                "for the delivered-token rule only (DESIGN 5, C04)"]},
    "C05": {"parts": [{"module": "props.split", "units": ["split", "make_region", "blocks_lemma", "region_split"]},
                      {"module": "props.regions", "units": ["post_init", "concat_lemma", "meta"]},
                      {"module": "props.readers", "units": ["fixed", "audioreader", "proxy"]},
                      {"module": "props.readers", "units": ["recorder"], "include_all": True},
                      {"module": "props.sources", "units": ["buffer_read", "file_read", "file_open", "accessors"], "include_all": True},
                      # a file input: the eager loaders hand the file's own frames and header to the buffer source
                      {"module": "props.iofuncs", "units": ["loaders", "from_file", "get_audio_source"], "include_all": True},
                      # "the regions are exactly the tokenizer segmentation (C01-C04) of the per-window decisions (C07)"
                      # ... of the tokenizer AS split() USES IT: fresh object per call, no initial phase (context "split")
                      {"module": "props.tokenizer", "units": ["lemmas", "process", "post_process", "iter_tokens", "tokenize"],
                       "also_tags": ["C01", "C02", "C03", "C04"], "opts": {"context": "split"}, "exclude": [":entry"]},
                      {"module": "props.validator", "units": ["to_array", "energy", "selector", "is_valid"], "also_tags": ["C07"]}],
            "witness": "api", "witness_also": [("api", "C09")], "assumptions": SPLIT_ASSUME + [
                "the last sentence of C05 (regions are the tokenizer segmentation of the per-window decisions) is the "
                "composition of the split wiring proved here with C01-C04 (tokenizer) and C07 (validator), whose units and "
                "obligations are part of this check",
                "start == a * block_dur and end == start + duration are the float operations the code performs (equal computations); "
                "start*rate == a*B is a lemma over the reals only (blocks_lemma)", FLOAT_ASSUME]},
    "C06": {"parts": [{"module": "props.split", "units": ["dtnw", "split"]},
                      {"module": "props.readers", "units": ["fixed"]},
                      # the event-level sentences are the tokenizer's length and silence bounds at the proved window counts
                      # (of the tokenizer as split() uses it: fresh object per call, no initial phase)
                      {"module": "props.tokenizer", "units": ["lemmas", "process", "post_process", "iter_tokens"],
                       "also_tags": ["C02", "C03", "C04"], "opts": {"context": "split"}, "exclude": [":entry"]}],
            "witness": "api", "assumptions": SPLIT_ASSUME + [
                "_duration_to_nb_windows is proved in exact binary64 semantics for every float quotient: one linear-integer "
                "problem per binary exponent (83 slices cover [2**-30, 2**53)), plus (0, 2**-30) and integers >= 2**53; "
                "the quotient itself (fl(duration/analysis_window)) is taken as given, finite and positive; "
                "the only IEEE fact used is that a correctly rounded subtraction returns the exact result when it is "
                "representable (representability is an obligation of each slice)",
                "1e-9 is read as the Python literal (the double nearest to 10**-9) in code and spec",
                "the event-level sentences of C06 are C02/C03/C04 instantiated with the proved window counts; the tokenizer units "
                "run inside this check in the context split() creates (fresh tokenizer per call, init_min = init_max_silence = 0) "
                "and their C02/C03/C04 obligations are part of it"]},
    "C07": {"module": "props.validator", "units": ["to_array", "energy", "selector", "is_valid", "monotone"],
            "witness": "api", "assumptions": [
                "numpy is a LIBRARY MODEL (pyvc/npmodel.py, assumed): frombuffer(int8/16/32) = signed little-endian decode of "
                "consecutive width-byte groups (little-endian host), astype(float64) exact, reshape(c,-1,order='F')[j][i] = flat[j+i*c] "
                "(order='C' modelled too), x[k], mean(axis), x**2, sqrt, log10, clip, max as described there",
                "reductions (mean/max over an axis of symbolic extent) are uninterpreted functions keyed by the canonical syntax of "
                "the reduced body: equal bodies give equal reductions (extensionality assumed); over one element they are the element",
                "real arithmetic: IEEE rounding of mean/sqrt/log10 is NOT modelled -- a window whose exact energy is within "
                "rounding distance of the threshold is outside what is proved (DESIGN section 8)",
                "sqrt/log10 axioms (instantiated): y>=0 => sqrt(y)>=0 and (sqrt(y)>0 <=> y>0); y>0 => log10(y) = 2*log10(sqrt(y)); "
                "log10(1e-10) = -10; the -200 dB floor is en(y) = -200 if sqrt(y) < 1e-10 else 10*log10(y)",
                "sample widths are case-split over {1, 2, 4, other}; channel count and window length are symbolic"]},
    "C08": {"parts": [{"module": "props.tokenizer", "units": ["lemmas", "ctor", "process", "post_process", "iter_tokens", "tokenize", "string_source"]},
                      {"module": "props.split", "units": ["split"]},
                      {"module": "props.readers", "units": ["fixed", "overlap_iter", "overlap_misc", "limiter"], "include_all": True},
                      # "the source is not read further": also when the stream is ended by a stop request (worker pipeline)
                      {"module": "props.workers", "units": ["tokenizer_init_read"]}],
            "witness": "tok", "witness_also": [("api", "C05"), ("workers", "C14")],
            "assumptions": TOK_ASSUME + ["split(): the AudioReader / tokenizer constructors are used by contract"]},
    "C09": {"parts": [{"module": "props.split", "units": ["split", "region_split"]},
                      {"module": "props.iofuncs", "units": ["guess_format", "get_audio_parameters", "get_audio_source", "from_file", "loaders"]},
                      {"module": "props.readers", "units": ["audioreader", "limiter", "fixed", "proxy"], "include_all": True},
                      {"module": "props.sources", "units": ["buffer_init", "buffer_read", "buffer_position", "file_read", "file_open", "accessors"],
                       "include_all": True}],
            "witness": "api", "assumptions": SPLIT_ASSUME + IO_ASSUME + [
                "'same audio, same result' is the modularity argument: split() and the framing are verified against the "
                "source INTERFACE only, and every container kind is verified to build a source implementing that interface "
                "over the same audio (C11); no cross-container execution is compared"]},
    "C18": {"parts": [{"module": "props.iofuncs", "units": ["guess_format", "get_audio_parameters", "to_file", "region_save", "from_file",
                                                              "loaders", "read_offline", "load"]},
                      {"module": "props.sources", "units": ["buffer_read", "file_read", "file_open"], "include_all": True},
                      {"module": "props.regions", "units": ["post_init"]},
                      {"module": "props.readers", "units": ["proxy"]},
                      {"module": "props.validator", "units": ["to_array", "numpy_export"]}],
            "witness": "api", "assumptions": IO_ASSUME + [
                "numpy export: element [c][i] is the signed little-endian value of channel c of sample i -- proved as the "
                "to_array contract in C07 (numpy axiomatised)"]},
    "C10": {"parts": [{"module": "props.readers", "units": ["limiter", "fixed", "overlap_iter", "overlap_misc", "audioreader", "proxy"]},
                      # a recording reader frames its replay source: that source must be the recording in the recorder's own format
                      {"module": "props.readers", "units": ["recorder"], "include_all": True},
                      # the wrapped source really obeys the interface contract the wrappers are verified against
                      {"module": "props.sources", "units": ["buffer_read", "file_read", "file_open"], "include_all": True}],
            "witness": "api", "witness_also": [("api", "C11")], "assumptions": RD_ASSUME},
    "C19": {"parts": [{"module": "props.readers", "units": ["overlap_iter", "overlap_misc", "recorder", "replay_lemma", "audioreader", "proxy"]},
                      # rewind goes through the limiter: its whole contract (read / rewind / data) is part of the check
                      {"module": "props.readers", "units": ["limiter"], "include_all": True}],
            "witness": "api", "assumptions": RD_ASSUME},
    "C11": {"parts": [{"module": "props.sources", "units": ["buffer_init", "buffer_read", "buffer_position", "file_read", "file_open", "accessors"]},
                      {"module": "props.iofuncs", "units": ["loaders"], "include_all": True}],
            "witness": "api", "assumptions": [
                "library models (assumed contracts): binary stream.read(k) / wave.readframes(k) return the next "
                "min(k, remaining) bytes / frames (None or negative: all remaining; sys.stdin.buffer.read rejects k < -1) "
                "and b'' at the end; open()/wave.open() return a stream positioned at the start of the named file; "
                "the file holds a whole number of samples",
                "all finite operation histories follow by induction from the per-operation contracts, each stated "
                "over the whole abstract view (audio, consumed, open)",
                "position_s / position_ms setters: " + FLOAT_ASSUME,
                "StdinAudioSource: sizes None / negative are outside the statement (read(None) raises TypeError in the real code)",
                "exact polynomial rewriting (pyvc/nl.py) and instantiated multiplication-monotonicity lemmas"]},
    "C12": {"parts": [{"module": "props.workers", "units": ["worker_run", "worker_misc", "notify", "tokenizer_run", "tokenizer_init_read",
                                                              "stream_saver", "print_worker", "observers_misc", "structure"]},
                      {"module": "props.split", "units": ["split"]},
                      {"module": "props.regions", "units": ["post_init", "meta"]}],
            "witness": "workers", "assumptions": WK_ASSUME},
    "C13": {"parts": [{"module": "props.workers", "units": ["worker_run", "worker_misc", "notify", "stream_saver", "joiner", "region_saver", "saver_init",
                                                              "split_and_join", "tokenizer_init_read", "observers_misc", "export", "structure"]},
                      {"module": "props.regions", "units": ["make_silence", "join", "check_iter_others"]},
                      {"module": "props.iofuncs", "units": ["region_save", "to_file", "guess_format"]},
                      # which saver / joiner exists for which options
                      {"module": "props.cmdline", "units": ["initialize_workers"]}],
            "witness": "workers", "assumptions": WK_ASSUME + [
                "the wave writer is a library model: the file holds, in order, what writeframes was given; a closed file has a "
                "complete header with the parameters set at creation (assumed)"]},
    "C14": {"parts": [{"module": "props.workers", "units": ["worker_run", "worker_misc", "notify", "tokenizer_run", "tokenizer_init_read",
                                                              "stream_saver", "joiner", "saver_init", "structure"]},
                      {"module": "props.tokenizer", "units": ["lemmas", "post_process", "iter_tokens"]},
                      # the stop path closes a reader that is not exhausted: close() of every source kind returns
                      {"module": "props.sources", "units": ["file_read", "buffer_position"]},
                      # the Ctrl-C path of the command line: stop_all is reached whatever state the tokenizer thread is in
                      {"module": "props.cmdline", "units": ["main"], "include_all": True}],
            "witness": "workers", "assumptions": WK_ASSUME + [
                "'every point at which the stop can arrive' = every outcome of the stop poll that precedes each read (stop marker "
                "present / absent): once it is seen read() returns end-of-stream without touching the reader, and the tokenizer's "
                "flush contract (C04 at N = blocks read so far) gives the detections of the prefix",
                "cmdline.main's interrupt handler is covered by C15's path contract (KeyboardInterrupt => stop_all => status 0)"]},
    "C15": {"parts": [{"module": "props.cmdline", "units": ["formatter", "option_table", "make_kwargs", "initialize_workers", "main"]},
                      {"module": "props.workers", "units": ["print_worker", "worker_run", "tokenizer_run", "tokenizer_init_read", "observers_misc", "export"]},
                      # "on a file or on standard input": the stdin source reads the process's buffered binary stdin
                      {"module": "props.sources", "units": ["accessors", "file_read"], "include_all": True}],
            "witness": "cli", "witness_also": [("workers", "C12")], "assumptions": [
                "argparse semantics (add_argument / parse_args), str.format, str.replace/index and print are library models (assumed); "
                "the option table is read from the literal add_argument calls in main()'s AST",
                "format strings for the duration formatter are case-split over 16 representatives (bounded on strings, incl. unknown "
                "directives, duplicates, %S/%I combined with other text); durations (float or int, >= 0) are symbolic",
                "seconds*1000 is the float product the code computes (uninterpreted rounding), int() exact truncation: %I and the field directives use this same "
                "whole-millisecond value",
                "the end-to-end sentence is the composition: option table -> make_kwargs -> initialize_workers -> TokenizerWorker "
                "(C12: detections are split(**kwargs) on the reader) -> PrintWorker line; files of -o/-O/-j are C13",
                "KeyboardInterrupt is modelled as arriving during the main wait loop (an interrupt before the workers exist raises "
                "NameError in the real code: outside the statement, noted in DESIGN)"]},
    "C16": {"module": "props.regions", "units": ["post_init", "getitem", "len", "seconds", "millis"],
            "witness": "region", "assumptions": REG_ASSUME},
    "C17": {"module": "props.regions", "units": ["post_init", "getitem", "add", "mul", "eq", "make_silence", "truediv",
                                                 "concat_lemma", "frozen", "check_iter_others", "join"],
            "witness": "region", "assumptions": REG_ASSUME + [
                "join(): others is an abstract sequence of K regions (K symbolic); bytes.join is the library operation "
                "itself (spec and code use the same one), modelled as: consumes its iterable completely, propagates its "
                "exception, result length is a whole number of samples when separator and parts are (assumed lemma); "
                "sum() is 0 + r1 (-> __radd__) followed by __add__",
                "division: 'sum of the pieces equals the original' follows from the proved tiling "
                "(pieces are self[s(j):s(j+1)], s(0)=0, s(count)=len) by the proved concat lemma and induction on the piece count"]},
    "C20": {"parts": [{"module": "props.tokenizer", "units": ["lemmas", "ctor", "process", "post_process", "iter_tokens", "stale_fields", "string_source", "tokenize"]},
                      {"module": "props.split", "units": ["split"]},
                      {"module": "props.validator", "units": ["is_valid"]},
                      {"module": "props.sources", "units": ["buffer_position", "buffer_init"]},
                      # "closing and reopening a buffer source restarts at the beginning": what read() hands out after the reopen
                      {"module": "props.sources", "units": ["buffer_read"], "include_all": True},
                      {"module": "props.readers", "units": ["recorder", "replay_lemma", "limiter", "overlap_misc"], "include_all": True}],
            "witness": "tok", "witness_also": [("api", "C05")], "assumptions": TOK_ASSUME + [
                "split(): every call builds a new reader, validator and tokenizer (constructor contracts) and reads a region's "
                "immutable bytes; is_valid assigns no field (frame obligation), numpy functions are pure (assumed); "
                "BufferAudioSource.close() returns to position 0; a rewound recorder replays its recording (C19)",
                "two interleaved generators of ONE tokenizer share state and are outside the statement"]},
}

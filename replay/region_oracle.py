#!/venv/bin/python
"""Statement-level oracles for C16 / C17 against the REAL AudioRegion
(PYTHONPATH = tree under test).  Bounded search for a public-API witness of a
failed obligation, and replay of a stored witness.  Not a decision procedure."""
import itertools
import json
import sys
import time
from fractions import Fraction


def mkdata(n, sw, ch):
    return bytes((7 * i + 3) % 251 for i in range(n * sw * ch))


def samples(data, sw, ch):
    b = sw * ch
    return [data[i:i + b] for i in range(0, len(data), b)]


def fmt(x):
    return repr(x)


def c16_cases():
    for (sw, ch) in ((1, 1), (2, 1), (2, 2), (4, 3)):
        for sr in (10, 16, 3):
            for n in range(0, 6):
                yield sw, ch, sr, n


FLOAT_SENSITIVE = ((1001, 8000), (1003, 16000), (15, 44100), (23, 22050), (27, 48000), (21, 1234), (30, 44100), (1005, 8000))


def check_c16(budget):
    from auditok.core import AudioRegion
    t0 = time.time()
    ev = 0
    # the milliseconds view of a very short region (rounded duration 0 ms) still equals the seconds view at t/1000
    for nn, sr_ in ((4, 16000), (3, 8000), (1, 44100)):
        ev += 1
        r = AudioRegion(bytes(range(2 * nn)), sr_, 2, 1)
        for a_, b_ in ((None, None), (0, None), (0, 1), (None, 1)):
            ms_ = bytes(r.ms[a_:b_])
            sec_ = bytes(r.sec[(None if a_ is None else a_ / 1000):(None if b_ is None else b_ / 1000)])
            if ms_ != sec_:
                return {"kind": "region", "pid": "C16", "op": "millis-short", "args": [nn, sr_, a_, b_],
                        "observed": "%d samples at %d Hz: ms[%r:%r] has %d bytes, sec view at t/1000 has %d" % (nn, sr_, a_, b_, len(ms_), len(sec_))}, ev
    # a step raises TypeError whatever the bounds are
    r = AudioRegion(bytes(range(40)), 10, 2, 1)
    for view, nm in ((r, "region"), (r.sec, "sec"), (r.ms, "ms")):
        for sl in (slice(None, None, 2), slice(None, None, -1), slice(None, None, 1), slice(1, None, 2), slice(None, 3, 1)):
            ev += 1
            try:
                view[sl]
                return {"kind": "region", "pid": "C16", "op": "step", "args": [nm, repr(sl)],
                        "observed": "%s[%r] returned a result instead of raising TypeError" % (nm, sl)}, ev
            except TypeError:
                pass
    # a view taken from a temporary region keeps working after the region variable is gone and the collector has run
    import gc
    for nm in ("sec", "ms"):
        ev += 1
        view = getattr(AudioRegion(bytes(range(40)), 10, 2, 1)[2:], nm)
        gc.collect()
        try:
            got = bytes(view[0:(0.5 if nm == "sec" else 500)])
        except Exception as e:  # noqa
            return {"kind": "region", "pid": "C16", "op": "view-lifetime", "args": [nm],
                    "observed": "slicing the .%s view of a region that is no longer referenced raised %s" % (nm, type(e).__name__)}, ev
        if got != bytes(range(4, 14)):
            return {"kind": "region", "pid": "C16", "op": "view-lifetime", "args": [nm], "observed": "wrong bytes %r" % got}, ev
    # lengths / rates for which n / rate * rate is not n in binary floating point
    for n, sr in FLOAT_SENSITIVE:
        for sw, ch in ((2, 1), (1, 2)):
            ev += 1
            r = AudioRegion(bytes(n * sw * ch), sr, sw, ch)
            if len(r) != n or len(r[:]) != n or len(r[1:]) != n - 1:
                return {"kind": "region", "pid": "C16", "op": "len", "args": [n, sr, sw, ch],
                        "observed": "len()=%d, len(r[:])=%d, len(r[1:])=%d for %d samples" % (len(r), len(r[:]), len(r[1:]), n)}, ev
    for sw, ch, sr, n in c16_cases():
        data = mkdata(n, sw, ch)
        r = AudioRegion(data, sr, sw, ch)
        smp = samples(data, sw, ch)
        if len(r) != n:
            return {"kind": "region", "pid": "C16", "op": "len", "args": [n, sr, sw, ch], "observed": "len()=%d" % len(r)}, ev
        if abs(r.duration - n / sr) > 1e-12:
            return {"kind": "region", "pid": "C16", "op": "duration", "args": [n, sr, sw, ch], "observed": "duration=%r" % r.duration}, ev
        bounds = [None] + list(range(-2 * n - 3, 2 * n + 4))
        for a in bounds:
            for b in bounds:
                ev += 1
                w = {"kind": "region", "pid": "C16", "op": "getitem", "args": [n, sr, sw, ch], "a": a, "b": b}
                try:
                    got = r[a:b]
                except Exception as e:  # noqa
                    w["observed"] = "raised %s" % type(e).__name__
                    return w, ev
                exp = b"".join(smp[a:b])
                if bytes(got) != exp or (got.sr, got.sw, got.ch) != (sr, sw, ch):
                    w["observed"] = "%d bytes %r, expected %r" % (len(bytes(got)), bytes(got)[:12], exp[:12])
                    return w, ev
        # wrong types / step
        for idx, nm in ((slice(0, 2, 1), "step"), (1, "int index"), (slice(0.5, 2), "float start"), (slice(0, 1.5), "float stop"),
                        (slice(0.0, 2), "float zero start"), (slice("", 2), "empty str start"), (slice("a", 2), "str start"),
                        (slice(0, "b"), "str stop")):
            ev += 1
            try:
                r[idx]
                return {"kind": "region", "pid": "C16", "op": "getitem-type", "args": [n, sr, sw, ch], "index": nm,
                        "observed": "no TypeError for %s" % nm}, ev
            except TypeError:
                pass
            except Exception as e:  # noqa
                return {"kind": "region", "pid": "C16", "op": "getitem-type", "args": [n, sr, sw, ch], "index": nm,
                        "observed": "raised %s instead of TypeError" % type(e).__name__}, ev
        for idx, nm in ((slice(0, 2, 1), "step"), (slice("a", 2), "str start"), (slice(0, "b"), "str stop"),
                        (slice("", 2), "empty str start"), (1.5, "float index")):
            for view, vn in ((r.seconds, "seconds"), (r.millis, "millis")):
                ev += 1
                try:
                    view[idx]
                    return {"kind": "region", "pid": "C16", "op": "view-type", "args": [n, sr, sw, ch], "view": vn, "index": nm,
                            "observed": "no TypeError for %s on %s view" % (nm, vn)}, ev
                except TypeError:
                    pass
        for idx, nm in ((slice(0.5, 2), "float start"), (slice(0, 1.5), "float stop"), (slice(0.0, 2), "float zero start")):
            ev += 1
            try:
                r.millis[idx]
                return {"kind": "region", "pid": "C16", "op": "view-type", "args": [n, sr, sw, ch], "view": "millis", "index": nm,
                        "observed": "no TypeError for %s on millis view" % nm}, ev
            except TypeError:
                pass
        # seconds / millis views
        ts = [None] + [k / (2.0 * sr) for k in range(-2 * n - 3, 2 * n + 4)] + [k for k in (-1, 0, 1)]
        for a in ts:
            for b in ts:
                ev += 1
                sa = 0 if a is None else int(a * sr)
                sb = None if b is None else round(b * sr)
                exp = b"".join(smp[sa:sb])
                try:
                    got = bytes(r.seconds[a:b])
                except Exception as e:  # noqa
                    return {"kind": "region", "pid": "C16", "op": "seconds", "args": [n, sr, sw, ch], "a": a, "b": b,
                            "observed": "raised %s" % type(e).__name__}, ev
                if got != exp:
                    return {"kind": "region", "pid": "C16", "op": "seconds", "args": [n, sr, sw, ch], "a": a, "b": b,
                            "observed": "%d bytes, expected %d" % (len(got), len(exp))}, ev
        ms = [None] + list(range(-150 * n - 50, 150 * n + 60, 50))
        for a in ms:
            for b in ms:
                ev += 1
                fa = 0 if a is None else a / 1000
                fb = None if b is None else b / 1000
                try:
                    exp = bytes(r.seconds[fa:fb])
                    got = bytes(r.millis[a:b])
                except Exception as e:  # noqa
                    return {"kind": "region", "pid": "C16", "op": "millis", "args": [n, sr, sw, ch], "a": a, "b": b,
                            "observed": "raised %s" % type(e).__name__}, ev
                if got != exp:
                    return {"kind": "region", "pid": "C16", "op": "millis", "args": [n, sr, sw, ch], "a": a, "b": b,
                            "observed": "millis view gives %d bytes, seconds view at t/1000 %d" % (len(got), len(exp))}, ev
        if time.time() - t0 > budget:
            break
    return None, ev


def check_c17(budget):
    from auditok.core import AudioRegion, make_silence
    from auditok.exceptions import AudioParameterError
    import dataclasses
    t0 = time.time()
    ev = 0
    fmts = ((1, 1), (2, 1), (2, 2), (4, 3))
    # division at lengths / rates for which n / rate * rate is not n in binary floating point
    for n, sr in FLOAT_SENSITIVE:
        data = mkdata(n, 2, 2)
        r = AudioRegion(data, sr, 2, 2)
        for k in (1, 2, 4, 7, n, n + 3):
            ev += 1
            parts = r / k
            lens = [len(p) for p in parts]
            if b"".join(bytes(p) for p in parts) != data or len(parts) != min(k, n) or max(lens) - min(lens) > 1:
                return {"kind": "region", "pid": "C17", "op": "div", "args": [n, k, sr, 2, 2],
                        "observed": "%d pieces of lengths %r for %d samples" % (len(parts), lens, n)}, ev
    # data that is not a whole number of samples is rejected, with or without a start time
    for st_ in (None, 0, 1.5):
        for extra in (1, 3):
            ev += 1
            try:
                AudioRegion(bytes(16 + extra), 8000, 2, 2, start=st_)
                return {"kind": "region", "pid": "C17", "op": "ctor", "args": [16 + extra, st_],
                        "observed": "%d bytes of 16-bit stereo accepted at construction (start=%r)" % (16 + extra, st_)}, ev
            except AudioParameterError:
                pass
    # same frame size, different width / channels: still an audio-parameter error
    for (p1, p2) in (((16, 2, 1), (16, 1, 2)), ((16, 4, 1), (16, 2, 2)), ((16, 2, 2), (16, 1, 4))):
        a, b = AudioRegion(bytes(8), *p1), AudioRegion(bytes(8), *p2)
        for opn, f in (("add", lambda: a + b), ("sum", lambda: sum([a, b])), ("join", lambda: a.join([a, b]))):
            ev += 1
            try:
                f()
                return {"kind": "region", "pid": "C17", "op": opn + "-same-frame-size", "args": [list(p1), list(p2)],
                        "observed": "no AudioParameterError for regions %r and %r" % (p1, p2)}, ev
            except AudioParameterError:
                pass
    # pieces of a division (and slices) are ordinary regions: their sum is the original, they can be repeated and
    # concatenated, and += on a variable leaves the objects it referred to unchanged
    for sw, ch in fmts:
        data = mkdata(7, sw, ch)
        r = AudioRegion(data, 16, sw, ch)
        for k in (1, 2, 3, 7):
            ev += 1
            parts = r / k
            try:
                ok = (sum(parts) == r) and bytes(parts[0] * 2) == bytes(parts[0]) * 2 and bytes(parts[0] + r[1:3]) == bytes(parts[0]) + bytes(r[1:3]) \
                    and bytes(r[1:3] * 2 + r[0:1]) == bytes(r[1:3]) * 2 + bytes(r[0:1])
                what = "sum(region / %d) != region or repetition / concatenation of a piece gives wrong bytes" % k
            except Exception as e:  # noqa
                ok, what = False, "sum / repetition / concatenation of the pieces of region / %d raised %s: %s" % (k, type(e).__name__, e)
            if not ok:
                return {"kind": "region", "pid": "C17", "op": "div-sum", "args": [7, k, 16, sw, ch], "observed": what}, ev
        ev += 1
        parts = r / 3
        before = [bytes(p) for p in parts]
        acc = parts[0]
        acc += parts[1]
        acc += parts[2]
        if [bytes(p) for p in parts] != before or bytes(acc) != data or bytes(r) != data:
            return {"kind": "region", "pid": "C17", "op": "iadd", "args": [7, 3, 16, sw, ch],
                    "observed": "`acc = parts[0]; acc += parts[1]; acc += parts[2]` altered an operand: pieces now have %r samples, before %r" % (
                        [len(p) for p in parts], [len(b) // (sw * ch) for b in before])}, ev
    # join accepts any iterable of regions, also one that can be traversed only once
    for sw, ch in fmts:
        regs = [AudioRegion(mkdata(n, sw, ch), 16, sw, ch) for n in (3, 0, 2)]
        sep = AudioRegion(mkdata(1, sw, ch), 16, sw, ch)
        exp = bytes(sep).join(bytes(x) for x in regs)
        for nm, mkit in (("list", lambda: list(regs)), ("tuple", lambda: tuple(regs)), ("generator", lambda: (x for x in regs)),
                         ("iterator", lambda: iter(regs)), ("map", lambda: map(lambda x: x, regs))):
            ev += 1
            got = sep.join(mkit())
            if bytes(got) != exp:
                return {"kind": "region", "pid": "C17", "op": "join-iterable", "args": [nm, sw, ch],
                        "observed": "join over a %s gives %d bytes, expected %d" % (nm, len(bytes(got)), len(exp))}, ev
    for sw, ch in fmts:
        for sr in (10, 16):
            for n in range(0, 7):
                data = mkdata(n, sw, ch)
                r = AudioRegion(data, sr, sw, ch)
                for m in range(0, 4):
                    d2 = bytes((5 * i + 1) % 253 for i in range(m * sw * ch))
                    o = AudioRegion(d2, sr, sw, ch)
                    ev += 1
                    s = r + o
                    if bytes(s) != data + d2 or bytes(r) != data or bytes(o) != d2:
                        return {"kind": "region", "pid": "C17", "op": "add", "args": [n, m, sr, sw, ch], "observed": "wrong bytes"}, ev
                    if bytes(sum([r, o, r])) != data + d2 + data:
                        return {"kind": "region", "pid": "C17", "op": "sum", "args": [n, m, sr, sw, ch], "observed": "wrong bytes"}, ev
                    j = o.join([r, r, o])
                    if bytes(j) != d2.join([data, data, d2]):
                        return {"kind": "region", "pid": "C17", "op": "join", "args": [n, m, sr, sw, ch], "observed": "wrong bytes"}, ev
                    if (r == o) != (data == d2):
                        return {"kind": "region", "pid": "C17", "op": "eq", "args": [n, m, sr, sw, ch], "observed": "eq=%r" % (r == o)}, ev
                for (sr2, sw2, ch2) in ((sr + 1, sw, ch), (sr, sw * 2 if sw < 4 else 1, ch), (sr, sw, ch + 1)):
                    nb = sw * ch * sw2 * ch2
                    a1 = AudioRegion(bytes(nb), sr, sw, ch)
                    a2 = AudioRegion(bytes(nb), sr2, sw2, ch2)
                    for opn, f in (("add", lambda: a1 + a2), ("join", lambda: a1.join([a1, a2]))):
                        ev += 1
                        try:
                            f()
                            return {"kind": "region", "pid": "C17", "op": opn + "-mismatch", "args": [sr, sw, ch, sr2, sw2, ch2],
                                    "observed": "no AudioParameterError"}, ev
                        except AudioParameterError:
                            pass
                    if a1 == a2:
                        return {"kind": "region", "pid": "C17", "op": "eq-mismatch", "args": [sr, sw, ch, sr2, sw2, ch2],
                                "observed": "regions with different parameters compare equal"}, ev
                for k in range(-1, 4):
                    ev += 1
                    if bytes(r * k) != data * k or bytes(k * r) != data * k:
                        return {"kind": "region", "pid": "C17", "op": "mul", "args": [n, k, sr, sw, ch], "observed": "wrong bytes"}, ev
                for k in list(range(1, n + 4)) + [2 * n + 5]:
                    ev += 1
                    parts = r / k
                    lens = [len(p) for p in parts]
                    ok = b"".join(bytes(p) for p in parts) == data
                    if n > 0:
                        ok = ok and len(parts) == min(k, n) and max(lens) - min(lens) <= 1 and min(lens) >= 1
                    if not ok or bytes(r) != data:
                        return {"kind": "region", "pid": "C17", "op": "div", "args": [n, k, sr, sw, ch],
                                "observed": "%d pieces of lengths %r" % (len(parts), lens)}, ev
                for bad in (0, -1, 1.5, "2"):
                    ev += 1
                    try:
                        r / bad
                        return {"kind": "region", "pid": "C17", "op": "div-type", "args": [n, repr(bad)], "observed": "no TypeError"}, ev
                    except TypeError:
                        pass
                try:
                    r.data = b""
                    return {"kind": "region", "pid": "C17", "op": "frozen", "args": [], "observed": "field assignment succeeded"}, ev
                except dataclasses.FrozenInstanceError:
                    pass
                for fld in ("data", "sampling_rate", "sample_width", "channels"):
                    r_ = AudioRegion(bytes(2 * sw * ch), sr, sw, ch)
                    try:
                        delattr(r_, fld)
                        return {"kind": "region", "pid": "C17", "op": "frozen", "args": [], "observed": "del region.%s succeeded (regions are immutable)" % fld}, ev
                    except (dataclasses.FrozenInstanceError, AttributeError, TypeError):
                        pass
            for extra in range(1, sw * ch):
                ev += 1
                try:
                    AudioRegion(bytes(sw * ch + extra), sr, sw, ch)
                    return {"kind": "region", "pid": "C17", "op": "ctor-partial", "args": [sw * ch + extra, sr, sw, ch],
                            "observed": "partial sample accepted"}, ev
                except AudioParameterError:
                    pass
    # equality must also tell apart regions with the same bytes and frame size but swapped width / channels
    for (p1, p2) in (((16, 2, 1), (16, 1, 2)), ((16, 4, 1), (16, 2, 2)), ((16, 2, 2), (8, 2, 2)), ((16, 2, 1), (16, 2, 1))):
        for nb in (0, 8):
            ev += 1
            a, b = AudioRegion(bytes(range(nb)), *p1), AudioRegion(bytes(range(nb)), *p2)
            if (a == b) != (p1 == p2):
                return {"kind": "region", "pid": "C17", "op": "eq-params", "args": [nb, list(p1), list(p2)],
                        "observed": "regions with parameters %r and %r and equal bytes compare %r" % (p1, p2, a == b)}, ev
    for (p1, p2) in (((16, 2, 1), (8, 2, 1)), ((16, 2, 1), (16, 1, 1)), ((16, 2, 1), (16, 2, 2))):
        for (n1, n2) in ((0, 4), (4, 0), (0, 0)):
            ev += 1
            a, b = AudioRegion(bytes(n1 * p1[1] * p1[2]), *p1), AudioRegion(bytes(n2 * p2[1] * p2[2]), *p2)
            for opn, f in (("add", lambda: a + b), ("sum", lambda: sum([a, b])), ("join", lambda: a.join([b]))):
                try:
                    f()
                    return {"kind": "region", "pid": "C17", "op": opn + "-mismatch-empty", "args": [n1, n2, list(p1), list(p2)],
                            "observed": "no AudioParameterError when one operand is empty"}, ev
                except AudioParameterError:
                    pass
    # silence generation has no memory: same byte count and rate, other width / channels
    for (a1, a2) in (((0.5, 8, 2, 1), (0.5, 8, 1, 2)), ((1.0, 4, 4, 1), (1.0, 4, 2, 2)), ((0.5, 8, 1, 2), (0.25, 8, 2, 2))):
        ev += 1
        make_silence(*a1)
        s2 = make_silence(*a2)
        if (s2.sr, s2.sw, s2.ch, len(s2)) != (a2[1], a2[2], a2[3], round(a2[0] * a2[1])) or any(bytes(s2)):
            return {"kind": "region", "pid": "C17", "op": "make_silence-history", "args": [list(a1), list(a2)],
                    "observed": "make_silence%r after make_silence%r has parameters %r and %d samples" % (a2, a1, (s2.sr, s2.sw, s2.ch), len(s2))}, ev
    for sr in (10, 16, 11025, 22050, 8, 3):
        for num in range(0, 41):
            for den in (1, 2, 4, 8, 3, 16):
                d = num / den
                ev += 1
                s = make_silence(d, sr, 2, 2)
                exp = round(d * sr)
                if len(s) != exp or any(bytes(s)):
                    return {"kind": "region", "pid": "C17", "op": "make_silence", "args": [d, sr, 2, 2],
                            "observed": "%d samples, expected round(%r*%d)=%d" % (len(s), d, sr, exp)}, ev
        if time.time() - t0 > budget:
            break
    return None, ev


def replay(w):
    from auditok.core import AudioRegion, make_silence
    op = w["op"]
    pid = w["pid"]
    # re-run the whole (cheap) oracle and report whether the same operation still fails
    w2, _ = (check_c16 if pid == "C16" else check_c17)(120)
    print("witness: %s" % json.dumps(w))
    if w2 is None:
        print("property holds on the witness' search space (no failing case)")
        return 0
    print("expected: property %s holds;  observed on the current tree: %s" % (pid, json.dumps(w2)))
    return 1


if __name__ == "__main__":
    cmd = sys.argv[1]
    if cmd == "search":
        pid = sys.argv[2]
        budget = float(sys.argv[3]) if len(sys.argv) > 3 else 60
        w, n = (check_c16 if pid == "C16" else check_c17)(budget)
        print(json.dumps({"witness": w, "evaluated": n}))
    else:
        sys.exit(replay(json.loads(sys.argv[2])))

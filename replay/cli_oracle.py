#!/venv/bin/python
"""Statement-level oracle for C15 on the REAL command line (PYTHONPATH = tree under
test): runs auditok.cmdline.main(argv) in-process on synthetic files and compares
the printed lines / exit status with split(); sweeps the duration formatter.
Witness search / bounded stand-in only."""
import contextlib
import io
import json
import os
import struct
import sys
import tempfile
import threading
import time
import wave


class Fail(Exception):
    def __init__(self, w):
        self.w = w


def fail(op, observed, **kw):
    d = {"kind": "cli", "pid": "C15", "op": op, "observed": observed}
    d.update(kw)
    raise Fail(d)


def tone(n, v=20000):
    return struct.pack("<%dh" % n, *[(v if i % 2 == 0 else -v) for i in range(n)])


def synth(pattern, B):
    return b"".join(tone(B) if c == "A" else bytes(2 * B) for c in pattern)


def ref_fmt(seconds, fmt):
    ms = int(seconds * 1000)
    if fmt == "%S":
        return "{:.3f}".format(seconds)
    if fmt == "%I":
        return str(ms)
    h, r = divmod(ms, 3600000)
    m, r = divmod(r, 60000)
    s, i = divmod(r, 1000)
    return fmt.replace("%h", "%02d" % h).replace("%m", "%02d" % m).replace("%s", "%02d" % s).replace("%i", "%03d" % i)


def run_main(argv, stdin_bytes=None, timeout=30):
    from auditok import cmdline
    out, err = io.StringIO(), io.StringIO()
    res = {}
    old_stdin = sys.stdin
    if stdin_bytes is not None:
        sys.stdin = type("S", (), {"buffer": io.BytesIO(stdin_bytes)})()
    real_sleep = time.sleep
    cmdline.time.sleep = lambda s: real_sleep(0.02)
    try:
        with contextlib.redirect_stdout(out), contextlib.redirect_stderr(err):
            res["rc"] = cmdline.main(argv)
    finally:
        sys.stdin = old_stdin
        cmdline.time.sleep = real_sleep
    return res.get("rc"), out.getvalue(), err.getvalue()


def search(budget):
    from auditok import split
    from auditok.util import make_duration_formatter
    from auditok.exceptions import TimeFormatError
    n = 0
    t0 = time.time()
    # formatter
    vals = [0, 0.0004, 0.001, 0.57, 0.9996, 1, 1.9996875, 59.9996, 59.9994, 60, 61.5, 3599.9999, 3600, 3723.25, 86399.9995, 8.03, 123.589]
    vals += [k * 0.0371 for k in range(0, 3000, 7)]
    for fmt in ("%S", "%I", "%h:%m:%s.%i", "%m min %s sec %i ms %h h", "%i"):
        f = make_duration_formatter(fmt)
        for v in vals:
            n += 1
            got, exp = f(v), ref_fmt(v, fmt)
            if got != exp:
                fail("formatter", "make_duration_formatter(%r)(%r) = %r, expected %r" % (fmt, v, got, exp), fmt=fmt, value=v)
    for bad in ("%x", "%h:%m:%s.%S", "%H", "%", "%I ms", "%S s"):
        n += 1
        try:
            make_duration_formatter(bad)
            fail("formatter", "no error for unknown directive in %r" % bad, fmt=bad)
        except TimeFormatError:
            pass
    tmp = tempfile.mkdtemp(prefix="c15-")
    try:
        sr = 16000
        pat = "aaAAAAAaaaAAAAAAAAaaAAa" + "A" * 8
        B = 160
        data = synth(pat, B)
        data = data[:-6]                       # ends inside a window: sub-millisecond end time
        wavp, rawp = os.path.join(tmp, "in.wav"), os.path.join(tmp, "in.raw")
        with wave.open(wavp, "wb") as f:
            f.setframerate(sr); f.setsampwidth(2); f.setnchannels(1); f.writeframes(data)
        open(rawp, "wb").write(data)
        # stereo input with -u: the channel selection reaches the tokenizer
        L, R = "aAAAAaaaaaaaaaaa", "aaaaaaaaAAAAAaaa"
        sdata = b"".join(struct.pack("<2h", (20000 if L[i // B] == "A" else 0) * (1 if i % 2 == 0 else -1),
                                     (20000 if R[i // B] == "A" else 0) * (1 if i % 2 == 0 else -1)) for i in range(len(L) * B))
        swav = os.path.join(tmp, "st.wav")
        with wave.open(swav, "wb") as f:
            f.setframerate(sr); f.setsampwidth(2); f.setnchannels(2); f.writeframes(sdata)
        for u in (None, "0", "1", "mix", "-1", "-2"):
            n += 1
            kws = dict(min_dur=0.02, max_dur=5, max_silence=0.01, analysis_window=0.01, energy_threshold=50)
            uc = None if u is None else (int(u) if u.lstrip("-").isdigit() else u)
            regs = list(split(sdata, sr=sr, sw=2, ch=2, use_channel=uc, **kws))
            exp = ["%d %s %s" % (i + 1, ref_fmt(r.start, "%S"), ref_fmt(r.end, "%S")) for i, r in enumerate(regs)]
            argv = [swav, "-n", "0.02", "-s", "0.01", "--printf", "{id} {start} {end}"] + ([] if u is None else ["-u", u])
            try:
                rc, out, err = run_main(argv)
            except Exception as e:  # noqa
                fail("main", "stereo wav with -u %s: main() raised %s: %s; split(use_channel=%r) gives %d detections" % (
                    u, type(e).__name__, e, uc, len(exp)), argv=argv)
            if rc != 0 or out.strip().splitlines() != exp:
                fail("main", "stereo wav with -u %s: printed %r; split(use_channel=%r) gives %r" % (u, out.strip().splitlines()[:4], uc, exp[:4]),
                     argv=argv)
        # -s 0 is a legal tolerance; --printf accepts format specs and doubled braces like str.format
        n += 1
        regs = list(split(data, sr=sr, sw=2, ch=1, min_dur=0.2, max_dur=5, max_silence=0, analysis_window=0.01, energy_threshold=50))
        try:
            rc, out, err = run_main([wavp, "-s", "0", "--printf", "{id}"])
            what = "exit %r, printed %r" % (rc, out.split()[:5])
        except SystemExit as e:
            rc, out, what = e.code, "", "argument parser exited with status %r" % (e.code,)
        if rc != 0 or out.split() != [str(i + 1) for i in range(len(regs))]:
            fail("main", "-s 0: %s; split(max_silence=0) gives %d detections" % (what, len(regs)))
        n += 1
        regs = list(split(data, sr=sr, sw=2, ch=1, min_dur=0.2, max_dur=5, max_silence=0.3, analysis_window=0.01, energy_threshold=50))
        rc, out, err = run_main([wavp, "--printf", "{id:03d}|{{x}}|{start}"])
        exp = ["%03d|{x}|%s" % (i + 1, ref_fmt(r.start, "%S")) for i, r in enumerate(regs)]
        if rc != 0 or out.strip().splitlines() != exp:
            fail("main", "--printf '{id:03d}|{{x}}|{start}': printed %r, expected %r" % (out.strip().splitlines()[:2], exp[:2]))
        # a failing final export of -O (target is a directory): detections are printed, status 0
        n += 1
        bad_target = os.path.join(tmp, "outdir.raw")
        os.mkdir(bad_target)
        try:
            regs = list(split(data, sr=sr, sw=2, ch=1, min_dur=0.2, max_dur=5, max_silence=0.3, analysis_window=0.01, energy_threshold=50))
            try:
                rc, out, err = run_main([wavp, "-O", bad_target, "--printf", "{id}"])
                what = "exit status %r, printed %r" % (rc, out.split())
            except BaseException as e:  # noqa
                rc, out, what = None, "", "main() raised %s" % type(e).__name__
            if rc != 0 or out.split() != [str(i + 1) for i in range(len(regs))]:
                fail("main", "-O to a raw target that cannot be written (export fails at the end): %s; expected the %d detections and "
                     "status 0" % (what, len(regs)))
        finally:
            for f in os.listdir(tmp):
                if f.startswith("outdir.raw") and os.path.isfile(os.path.join(tmp, f)):
                    os.remove(os.path.join(tmp, f))
            os.rmdir(bad_target)
        cases = [
            ([], {}),
            (["-n", "0.05", "-m", "0.07", "-s", "0.01"], dict(min_dur=0.05, max_dur=0.07, max_silence=0.01)),
            (["-e", "30", "-d", "-R", "-n", "0.03"], dict(energy_threshold=30, drop_trailing_silence=True, strict_min_dur=True, min_dur=0.03)),
            (["-a", "0.02", "-M", "0.2", "-n", "0.04"], dict(analysis_window=0.02, max_read=0.2, min_dur=0.04)),
            (["-L", "-n", "0.03", "-s", "0"], dict(large_file=True, min_dur=0.03, max_silence=0)),
        ]
        for tf in ("%S", "%I", "%h:%m:%s.%i"):
            for opts, kw in cases:
                for src in ("wav", "raw", "stdin"):
                    n += 1
                    kws = dict(min_dur=0.2, max_dur=5, max_silence=0.3, analysis_window=0.01, energy_threshold=50)
                    kws.update(kw)
                    regs = list(split(data, sr=sr, sw=2, ch=1, **{k: v for k, v in kws.items() if k != "large_file"}))
                    exp = ["%d %s %s %s" % (i + 1, ref_fmt(r.start, tf), ref_fmt(r.end, tf), ref_fmt(r.duration, tf)) for i, r in enumerate(regs)]
                    argv = list(opts) + ["--time-format", tf, "--printf", "{id} {start} {end} {duration}"]
                    stdin = None
                    if src == "wav":
                        argv = [wavp] + argv
                    elif src == "raw":
                        argv = [rawp, "-f", "raw", "-r", str(sr), "-w", "2", "-c", "1"] + argv
                    else:
                        if "-L" in opts:
                            continue
                        argv = ["-", "-r", str(sr), "-w", "2", "-c", "1"] + argv
                        stdin = data
                    rc, out, err = run_main(argv, stdin)
                    got = out.strip().splitlines()
                    if rc != 0 or got != exp:
                        fail("main", "exit %r, printed %r; split() gives %r" % (rc, got[:4], exp[:4]), argv=argv)
                    if time.time() - t0 > budget:
                        return n
        # a --printf template with non-ASCII text and escapes
        n += 1
        tpl = "[{id}] {start} \u2192 {end}\\td\u00e9tection"
        regs = list(split(data, sr=sr, sw=2, ch=1, min_dur=0.2, max_dur=5, max_silence=0.3, analysis_window=0.01, energy_threshold=50))
        exp = ["[%d] %s \u2192 %s\td\u00e9tection" % (i + 1, ref_fmt(r.start, "%S"), ref_fmt(r.end, "%S")) for i, r in enumerate(regs)]
        rc, out, err = run_main([wavp, "--printf", tpl])
        if rc != 0 or out.rstrip("\n").split("\n") != exp:
            fail("main", "--printf %r: printed %r, expected %r" % (tpl, out[:80], exp[:2]))
        # -q prints nothing; -j without -O exits 1
        n += 1
        rc, out, err = run_main([wavp, "-q", "-n", "0.03"])
        if rc != 0 or out.strip():
            fail("main", "-q: exit %r, printed %r" % (rc, out[:60]))
        for j in ("1.5", "0.25", "0"):
            n += 1
            rc, out, err = run_main([wavp, "-j", j])
            if rc != 1 or out.strip():
                fail("main", "-j %s without -O: exit status %r (expected 1), stdout %r" % (j, rc, out[:40]), argv=["-j", j])
        # -O writes the stream, -o the detections, -O -j the joined events
        n += 1
        so = os.path.join(tmp, "stream.wav")
        rc, out, err = run_main([wavp, "-O", so, "-n", "0.03", "-q"])
        with wave.open(so, "rb") as f:
            saved = f.readframes(-1)
        if rc != 0 or saved != data[:len(data) // 320 * 320] + data[len(data) // 320 * 320:]:
            fail("main", "-O: exit %r, saved %d bytes of %d" % (rc, len(saved), len(data)))
    finally:
        for f in os.listdir(tmp):
            try:
                os.remove(os.path.join(tmp, f))
            except OSError:
                pass
        os.rmdir(tmp)
    return n


def run(budget):
    try:
        return None, search(budget)
    except Fail as f:
        return f.w, 1


if __name__ == "__main__":
    import warnings
    warnings.simplefilter("ignore")
    cmd = sys.argv[1]
    if cmd == "search":
        w, n = run(float(sys.argv[3]) if len(sys.argv) > 3 else 60)
        print(json.dumps({"witness": w, "evaluated": n}, default=str))
    else:
        w = json.loads(sys.argv[2])
        w2, n = run(300)
        print("stored witness: %s" % json.dumps(w))
        if w2 is None:
            print("property C15 holds on the witness' search space on the current tree (%d cases)" % n)
            sys.exit(0)
        print("expected: property C15 holds; observed on the current tree: %s" % json.dumps(w2, default=str))
        sys.exit(1)

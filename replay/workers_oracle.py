#!/venv/bin/python
"""Deterministic scripted-schedule oracles for C12 / C13 / C14 on the REAL worker
classes (PYTHONPATH = tree under test).  Each worker's run()/methods are driven
in the calling thread with a scripted inbox (every pattern of timeouts / messages
/ stop marker up to a small length), so no OS scheduling is involved.
Witness search / bounded stand-in only -- never counted as proof."""
import itertools
import json
import os
import struct
import sys
import tempfile
import threading
import time
import wave
from queue import Empty


class Fail(Exception):
    def __init__(self, w):
        self.w = w


def fail(pid, op, observed, **kw):
    d = {"kind": "workers", "pid": pid, "op": op, "observed": observed}
    d.update(kw)
    raise Fail(d)


class ScriptQ:
    """Inbox whose get/get_nowait outcomes are scripted: 'E' = Empty."""

    def __init__(self, script, stop):
        self.script = list(script)
        self.stop = stop
        self.puts = []
        self.over = False

    def _next(self):
        if not self.script:
            self.over = True
            raise Empty
        x = self.script.pop(0)
        if x == "E":
            raise Empty
        if x == "S":
            return self.stop
        return x

    def get(self, timeout=None):
        if not self.script:
            self.over = True
            raise KeyboardInterrupt("script exhausted: worker still waiting after the stop marker")
        return self._next()

    def get_nowait(self):
        return self._next()

    def put(self, m):
        self.puts.append(m)

    # non-consuming views of the same script: something is queued right now iff the next scripted outcome is a message
    def empty(self):
        return not self.script or self.script[0] == "E"

    def qsize(self):
        k = 0
        while k < len(self.script) and self.script[k] != "E":
            k += 1
        return k


def tone(n, v=20000):
    return struct.pack("<%dh" % n, *[(v if i % 2 == 0 else -v) for i in range(n)])


def synth(pattern, B):
    return b"".join(tone(B) if c == "A" else bytes(2 * B) for c in pattern)


def search_C12(pid, budget):
    from auditok import workers, split, AudioReader
    from auditok.workers import Worker, TokenizerWorker, _STOP_PROCESSING as STOPM
    n = 0

    class Rec(Worker):
        def __init__(self):
            super().__init__(timeout=0.01)
            self.seen = []
            self.post = 0

        def _process_message(self, m):
            self.seen.append(m)

        def _post_process(self):
            self.post += 1
    msgs = [(1, "r1"), (2, "r2"), (3, "r3")]
    for L in range(0, 6):
        for pat in itertools.product("EM", repeat=L):
            n += 1
            it = iter(msgs)
            script = []
            for c in pat:
                if c == "E":
                    script.append("E")
                else:
                    try:
                        script.append(next(it))
                    except StopIteration:
                        script.append("E")
            exp = [x for x in script if x != "E"]
            w = Rec()
            w._inbox = ScriptQ(script + ["S"], STOPM)
            try:
                w.run()
            except KeyboardInterrupt:
                fail(pid, "Worker.run", "still waiting on its inbox after consuming the stop marker", script="".join(pat) + "S")
            if w.seen != exp or w.post != 1 or w._inbox.script:
                fail(pid, "Worker.run", "processed %r (post_process x%d, %d scripted outcomes unconsumed), expected %r then exit" % (
                    w.seen, w.post, len(w._inbox.script), exp), script="".join(pat) + "S")
    # "every pattern of queue-wait timeouts": arbitrarily long idle stretches (a live source that stays silent, a tokenizer
    # blocked in read()) between messages and before the stop marker -- scripted, so no real waiting is involved
    for idle in (7, 40, 400, 5000):
        n += 1
        script = ["E"] * idle + [msgs[0]] + ["E"] * idle + [msgs[1], msgs[2]] + ["E"] * idle
        w = Rec()
        w._inbox = ScriptQ(script + ["S"], STOPM)
        try:
            w.run()
        except KeyboardInterrupt:
            fail(pid, "Worker.run", "still waiting on its inbox after consuming the stop marker", script="E*%d M E*%d M M E*%d S" % (idle, idle, idle))
        if w.seen != msgs or w.post != 1 or w._inbox.script:
            fail(pid, "Worker.run", "with %d consecutive queue-wait timeouts between messages: processed %r (post_process x%d, %d scripted "
                 "outcomes never consumed), expected %r then exit on the stop marker" % (idle, w.seen, w.post, len(w._inbox.script), msgs),
                 script="E*%d M E*%d M M E*%d S" % (idle, idle, idle))
    # tokenizer worker: observers get (id, region) in order, then the stop marker; detections list matches
    for pat in ("aAAAaaAAAAaa", "aaaaaa", "", "AAAAAAAA", "aAa"):
        n += 1
        data = synth(pat, 10)
        kw = dict(min_dur=0.02, max_dur=0.05, max_silence=0.01, analysis_window=0.01)
        exp = [(round(r.start * 1000), bytes(r)) for r in split(data, sr=1000, sw=2, ch=1, **kw)]

        class Obs:
            def __init__(self):
                self.got = []

            def send(self, m):
                self.got.append(m)
        obs = [Obs(), Obs()]
        rd = AudioReader(data, block_dur=0.01, sr=1000, sw=2, ch=1)
        kw2 = {k: v for k, v in kw.items() if k != "analysis_window"}
        tw = TokenizerWorker(rd, obs, **kw2)
        tw._inbox = ScriptQ(["E"] * 10000, STOPM)
        tw.run()
        dets = [(d.id, round(d.start * 1000)) for d in tw.detections]
        for o in obs:
            data_msgs = [m for m in o.got if m != STOPM]
            if not o.got or o.got[-1] != STOPM or o.got.count(STOPM) != 1:
                fail(pid, "TokenizerWorker.run", "observer did not get exactly one stop marker at the end: %r" % (
                    [m if m == STOPM else m[0] for m in o.got],), pattern=pat)
            got = [(m[0], round(m[1].start * 1000), bytes(m[1])) for m in data_msgs]
            if got != [(i + 1, s, b) for i, (s, b) in enumerate(exp)]:
                fail(pid, "TokenizerWorker.run", "observer received ids/starts %r, split() gives %r" % (
                    [(g[0], g[1]) for g in got], [(i + 1, s) for i, (s, b) in enumerate(exp)]), pattern=pat)
        if dets != [(i + 1, s) for i, (s, b) in enumerate(exp)]:
            fail(pid, "TokenizerWorker.run", "detections list %r, split() gives %r" % (dets, exp), pattern=pat)
    # when an observer receives detection k the worker's own list already holds it, and the region is complete
    n += 1
    data = synth("aAAAaaAAAAaa", 10)
    rd = AudioReader(data, block_dur=0.01, sr=1000, sw=2, ch=1)
    seen = []

    class Peek:
        def send(self, m):
            if m != STOPM:
                ids = [d.id for d in tw.detections]
                ts = getattr(getattr(m[1], "meta", None), "timestamp", "absent") if getattr(m[1], "meta", None) is not None else "no-meta"
                seen.append((m[0], m[0] in ids, ts))
    tw = TokenizerWorker(rd, [Peek()], min_dur=0.02, max_dur=0.05, max_silence=0.01)
    tw._inbox = ScriptQ(["E"] * 10000, STOPM)
    tw.run()
    for k, known, ts in seen:
        if not known or ts == "absent":
            fail(pid, "TokenizerWorker.run", "observer handling detection %d as soon as it is sent: in the worker's detections list: %r, "
                 "timestamp on the region: %r" % (k, known, ts))
    # multi-channel input with a channel selection: the worker's detections are split()'s for the same parameters
    import struct as _st
    n += 1
    L, R = "aAAAAaaaaaaaaa", "aaaaaaaAAAAaaa"
    st_data = b"".join(_st.pack("<2h", (20000 if (i // 10) < len(L) and L[i // 10] == "A" else 0) * (1 if i % 2 == 0 else -1),
                                (20000 if R[i // 10] == "A" else 0) * (1 if i % 2 == 0 else -1)) for i in range(len(L) * 10))
    for ukw in ({}, {"use_channel": 0}, {"use_channel": 1}, {"uc": 1}, {"use_channel": "mix"}):
        kw2 = dict(min_dur=0.02, max_dur=0.1, max_silence=0.01)
        kw2.update(ukw)
        exp = [(round(r.start * 1000), bytes(r)) for r in split(AudioReader(st_data, block_dur=0.01, sr=1000, sw=2, ch=2), **kw2)]
        o = Obs()
        tw = TokenizerWorker(AudioReader(st_data, block_dur=0.01, sr=1000, sw=2, ch=2), [o], **kw2)
        tw._inbox = ScriptQ(["E"] * 10000, STOPM)
        tw.run()
        got = [(round(m[1].start * 1000), bytes(m[1])) for m in o.got if m != STOPM]
        if got != exp:
            fail(pid, "TokenizerWorker.run", "stereo input with %r: observers got detections starting at %r, split() with the same "
                 "parameters gives %r" % (ukw, [g[0] for g in got], [e[0] for e in exp]))
    # a long run: the worker's own list holds every detection
    n += 1
    many = synth("Aa" * 1100, 2)
    o = Obs()
    tw = TokenizerWorker(AudioReader(many, block_dur=0.002, sr=1000, sw=2, ch=1), [o], min_dur=0.002, max_dur=0.002, max_silence=0)
    tw._inbox = ScriptQ(["E"] * 100000, STOPM)
    tw.run()
    ids_obs = [m[0] for m in o.got if m != STOPM]
    ids_own = [d.id for d in tw.detections]
    if ids_obs != list(range(1, 1101)) or ids_own != ids_obs:
        fail(pid, "TokenizerWorker.run", "1100 events: observers got %d ids (%r..%r), the worker's detections list holds %d (%r..%r)" % (
            len(ids_obs), ids_obs[:1], ids_obs[-1:], len(ids_own), ids_own[:1], ids_own[-1:]))
    # the observers are released even if closing the reader fails
    n += 1
    data = synth("aAAAaa", 10)
    obs = [Obs(), Obs()]
    rd = AudioReader(data, block_dur=0.01, sr=1000, sw=2, ch=1)

    class BadClose:
        def __init__(self, r):
            self.r = r

        def __getattr__(self, a):
            return getattr(self.r, a)

        def close(self):
            raise OSError("device lost")
    tw = TokenizerWorker(BadClose(rd), obs, min_dur=0.02, max_dur=0.05, max_silence=0.01)
    tw._inbox = ScriptQ(["E"] * 10000, STOPM)
    try:
        tw.run()
    except OSError:
        pass
    for o in obs:
        if o.got[-1:] != [STOPM]:
            fail(pid, "TokenizerWorker.run", "reader.close() failed at the end of the stream and the observers never got the stop marker "
                 "(they would wait forever): %r" % ([m if m == STOPM else m[0] for m in o.got],))
    return n


def wav_bytes(path):
    try:
        with wave.open(path, "rb") as f:
            return f.readframes(-1), (f.getframerate(), f.getsampwidth(), f.getnchannels())
    except (EOFError, wave.Error, OSError) as e:
        return "unreadable wav (%s: %s)" % (type(e).__name__, e), None


def search_C13(pid, budget):
    from auditok import split, AudioReader, split_and_join_with_silence
    from auditok.workers import (StreamSaverWorker, AudioEventsJoinerWorker, RegionSaverWorker, TokenizerWorker,
                                 _STOP_PROCESSING as STOPM)
    n = 0
    tmp = tempfile.mkdtemp(prefix="c13-")
    try:
        blocks = [bytes([i + 1]) * 20 for i in range(6)]
        data = b"".join(blocks)
        for cache in (0, 0.015, 0.03, 0.5):
            for pre in range(0, 5):            # blocks processed by the loop
                for late in range(0, 3):       # blocks still queued when the stop marker is consumed
                    for stop_pos in range(0, late + 1):
                        n += 1
                        rd = AudioReader(data, block_dur=0.01, sr=1000, sw=2, ch=1)
                        p = os.path.join(tmp, "s_%d.wav" % n)
                        sv = StreamSaverWorker(rd, p, cache_size_sec=cache)
                        used = blocks[:pre + late]
                        for b in used[:pre]:
                            sv._process_message(b)
                        rest = used[pre:]
                        script = rest[:stop_pos] + ["S"] + rest[stop_pos:]
                        sv._inbox = ScriptQ(script, STOPM)
                        sv._post_process()
                        got, params = wav_bytes(p)
                        if got != b"".join(used) or params != (1000, 2, 1):
                            fail(pid, "StreamSaverWorker", "file holds blocks %r, consumed %r (cache_size_sec=%r, %d in loop, drained %r)" % (
                                got if isinstance(got, str) else [x for x in got[::20]], [x[0] for x in used], cache, pre,
                                ["S" if x == "S" else x[0] for x in script]), cache=cache)
                        sv._exported = True
        # 8-bit audio through the whole run loop; one block spells the stop marker's text (any bytes are legal audio)
        sent = STOPM if isinstance(STOPM, (bytes, bytearray)) else str(STOPM).encode()
        L8 = len(sent)
        blocks8 = [bytes([65 + i] * L8) for i in range(3)] + [bytes(sent)] + [bytes(range(120, 120 + L8)), bytes([200, 3] * L8)[:L8]]
        for cache in (0, 0.25, 5):
            for npre in (len(blocks8), 4, 2):
                n += 1
                rd8 = AudioReader(b"".join(blocks8), block_dur=L8 / 150, sr=150, sw=1, ch=1)
                p8 = os.path.join(tmp, "s8_%d.wav" % n)
                sv = StreamSaverWorker(rd8, p8, cache_size_sec=cache)
                sv._inbox = ScriptQ(blocks8[:npre] + ["E", "S"] + blocks8[npre:], STOPM)
                try:
                    sv.run()
                except KeyboardInterrupt:
                    pass
                got, params = wav_bytes(p8)
                sv._exported = True
                exp8 = b"".join(blocks8)      # the shutdown drain also writes what was queued behind the stop marker
                if got != exp8 or params != (150, 1, 1):
                    fail(pid, "StreamSaverWorker.run", "8-bit stream, blocks %r queued (stop marker after the first %d): file holds %r with parameters %r, expected "
                         "exactly those blocks with (150, 1, 1)" % ([bytes(b) for b in blocks8], npre, got, params), cache=cache)
        # read() forwards
        rd = AudioReader(data, block_dur=0.01, sr=1000, sw=2, ch=1)
        rd.open()
        sv = StreamSaverWorker(rd, os.path.join(tmp, "f.wav"))
        sv._inbox = ScriptQ([], STOPM)
        outs = [sv.read() for _ in range(8)]
        if outs[:6] != blocks or outs[6] is not None or sv._inbox.puts[:6] != blocks or sv._inbox.puts[6] != STOPM:
            fail(pid, "StreamSaverWorker.read", "read() returned %r / forwarded %r" % ([o and o[0] for o in outs], [x if x == STOPM else x[0] for x in sv._inbox.puts]))
        sv._wfp.close(); sv._exported = True
        # joiner
        for pat in ("aAAAaaAAAAaaAAa", "aaaa", "aAAAAa", ""):
            for sil in (0, 0.25, 0.05, 0.45, 0.013, 0.1, 0.0005, 0.0025, 0.0045):
                n += 1
                d = synth(pat, 10)
                kw = dict(min_dur=0.02, max_dur=0.05, max_silence=0.01, analysis_window=0.01)
                regs = list(split(d, sr=1000, sw=2, ch=1, **kw))
                p = os.path.join(tmp, "j_%d.wav" % n)
                jw = AudioEventsJoinerWorker(sil, p, "wav", 1000, 2, 1)
                k = len(regs) // 2
                for i, r in enumerate(regs[:k]):
                    jw._process_message((i + 1, r))
                jw._inbox = ScriptQ([(i + 1, r) for i, r in enumerate(regs)][k:] + ["S"], STOPM)
                jw._post_process()
                got, params = wav_bytes(p)
                exp = (b"\0" * (round(sil * 1000) * 2)).join(bytes(r) for r in regs)
                ref = split_and_join_with_silence(d, sil, sr=1000, sw=2, ch=1, **kw)
                if got != exp or (ref is not None and bytes(ref) != exp) or (ref is None and regs):
                    fail(pid, "AudioEventsJoinerWorker", "joined file has %d bytes, events separated by round(%r*1000)=%d zero samples need %d" % (
                        len(got), sil, round(sil * 1000), len(exp)), pattern=pat, silence=sil)
                jw._exported = True
        # two stream savers alive at the same time do not share their caches
        n += 1
        ra = AudioReader(bytes([1]) * 120, block_dur=0.01, sr=1000, sw=2, ch=1)
        rb = AudioReader(bytes([2]) * 120, block_dur=0.01, sr=1000, sw=2, ch=1)
        pa, pb = os.path.join(tmp, "two_a.wav"), os.path.join(tmp, "two_b.wav")
        sa = StreamSaverWorker(ra, pa, cache_size_sec=0.5)
        sb = StreamSaverWorker(rb, pb, cache_size_sec=0.5)
        for i in range(3):
            sa._process_message(bytes([1]) * 20)
        for i in range(2):
            sb._process_message(bytes([2]) * 20)
        sb._inbox = ScriptQ(["S"], STOPM)
        sb._post_process()
        sa._inbox = ScriptQ(["S"], STOPM)
        sa._post_process()
        ga, _ = wav_bytes(pa)
        gb, _ = wav_bytes(pb)
        sa._exported = sb._exported = True
        if ga != bytes([1]) * 60 or gb != bytes([2]) * 40:
            fail(pid, "StreamSaverWorker", "two savers alive together: file A holds %s bytes (expected 60 of its own), file B %s (expected 40)" % (
                len(ga) if not isinstance(ga, str) else ga, len(gb) if not isinstance(gb, str) else gb))
        # two-channel joiner: the gap is round(silence*rate) FRAMES of zeros
        import struct as _st
        n += 1
        pat2 = "aAAAaaAAAAaa"
        d2 = b"".join(_st.pack("<2h", v, v) for v in _st.unpack("<%dh" % (len(pat2) * 10), synth(pat2, 10)))
        kw2 = dict(min_dur=0.02, max_dur=0.05, max_silence=0.01, analysis_window=0.01)
        regs2 = list(split(d2, sr=1000, sw=2, ch=2, **kw2))
        p2 = os.path.join(tmp, "j2.wav")
        jw = AudioEventsJoinerWorker(0.025, p2, "wav", 1000, 2, 2)
        jw._inbox = ScriptQ([(i + 1, r) for i, r in enumerate(regs2)] + ["S"], STOPM)
        jw._post_process()
        got2, params2 = wav_bytes(p2)
        exp2 = (b"\0" * (25 * 4)).join(bytes(r) for r in regs2)
        jw._exported = True
        if got2 != exp2 or len(regs2) < 2:
            fail(pid, "AudioEventsJoinerWorker", "two-channel stream, silence 0.025 s: joined file has %s bytes, events separated by 25 zero "
                 "frames (100 bytes) need %d" % (len(got2) if not isinstance(got2, str) else got2, len(exp2)))
        # -O with -j 0: the events glued back to back, not the whole stream
        from auditok import cmdline_util as _cu
        for jval in (0, 0.0, 0.02):
            n += 1
            pj = os.path.join(tmp, "jz_%d.wav" % n)
            d1 = synth("aAAAaaAAAAaa", 10)
            kwj = dict(input=d1, audio_format=None, max_read=None, block_dur=0.01, sampling_rate=1000, sample_width=2, channels=1,
                       use_channel=None, save_stream=pj, save_detections_as=None, join_detections=jval, export_format=None,
                       large_file=False, frames_per_buffer=None, input_device_index=None, record=False,
                       min_dur=0.02, max_dur=0.05, max_silence=0.01, drop_trailing_silence=False, strict_min_dur=False,
                       energy_threshold=50, echo=False, progress_bar=False, command=None, quiet=True, printf="{id}",
                       time_format="%S", timestamp_format="%h:%m:%s")
            sv, tkw = _cu.initialize_workers(**kwj)
            tkw.start_all()
            tkw.join(20)
            for ob_ in tkw._observers:
                ob_.join(20)
            if sv is not None and hasattr(sv, "join"):
                sv.join(20)
            gotj, _ = wav_bytes(pj)
            regsj = list(split(d1, sr=1000, sw=2, ch=1, min_dur=0.02, max_dur=0.05, max_silence=0.01, analysis_window=0.01))
            expj = (b"\0" * (round(jval * 1000) * 2)).join(bytes(r) for r in regsj)
            if gotj != expj:
                fail(pid, "initialize_workers", "-O with a join silence of %r: the saved file has %s bytes, the joined events have %d "
                     "(the whole stream has %d)" % (jval, len(gotj) if not isinstance(gotj, str) else gotj, len(expj), len(d1)))
        # region saver
        d = synth("aAAAaaAAAAaa", 10)
        regs = list(split(d, sr=1000, sw=2, ch=1, min_dur=0.02, max_dur=0.05, max_silence=0.01, analysis_window=0.01))
        tpl = os.path.join(tmp, "det_{id}_{start:.3f}_{end:.3f}_{duration:.3f}.wav")
        rs = RegionSaverWorker(tpl)
        for i, r in enumerate(regs):
            n += 1
            rs._process_message((i + 1, r))
            fn = tpl.format(id=i + 1, start=r.start, end=r.end, duration=r.duration)
            if not os.path.exists(fn) or wav_bytes(fn)[0] != bytes(r):
                fail(pid, "RegionSaverWorker", "detection %d not saved as %r with its audio" % (i + 1, os.path.basename(fn)))
        # unformatted fields, detections whose start + duration is not exact in binary
        from auditok import AudioRegion
        tpl = os.path.join(tmp, "d_{id}_{start}_{end}_{duration}.wav")
        rs = RegionSaverWorker(tpl)
        for i, (st, ns) in enumerate(((0.1, 200), (0.7, 100), (1.1, 2200), (0.3, 600))):
            n += 1
            r = AudioRegion(bytes([i + 1]) * (2 * ns), 1000, 2, 1, start=st)
            rs._process_message((i + 1, r))
            fn = tpl.format(id=i + 1, start=r.start, end=r.end, duration=r.duration)
            if not os.path.exists(fn) or wav_bytes(fn)[0] != bytes(r):
                fail(pid, "RegionSaverWorker", "detection (start=%r, duration=%r) not saved as %r; files: %r" % (
                    r.start, r.duration, os.path.basename(fn), sorted(f for f in os.listdir(tmp) if f.startswith("d_%d_" % (i + 1)))))
    finally:
        for f in os.listdir(tmp):
            try:
                os.remove(os.path.join(tmp, f))
            except OSError:
                pass
        os.rmdir(tmp)
    return n


def search_C14(pid, budget):
    from auditok import split, AudioReader
    from auditok import workers
    from auditok.workers import TokenizerWorker, StreamSaverWorker, Worker, _STOP_PROCESSING as STOPM
    n = 0
    tmp = tempfile.mkdtemp(prefix="c14-")
    try:
        pat = "aAAAaaAAAAAAaaAAa"
        B = 10
        data = synth(pat, B)
        kw = dict(min_dur=0.02, max_dur=0.05, max_silence=0.01)
        import threading
        # a source that starts failing (device unplugged) and a stop requested afterwards: everything still terminates
        n += 1
        threading.excepthook = lambda *a, **k: None      # the tokenizer thread may end on the source's error: expected

        class Failing:
            def __init__(self, r):
                self.r, self.k = r, 0

            def __getattr__(self, a):
                return getattr(self.r, a)

            def read(self):
                self.k += 1
                if self.k > 5:
                    raise OSError("device unplugged")
                return self.r.read()
        fo = []

        class FObs(Worker):
            def __init__(self):
                super().__init__(timeout=0.05)

            def _process_message(self, m):
                fo.append(m[0])
        fobs = FObs()
        twf = TokenizerWorker(Failing(AudioReader(synth("aAAa" * 30, 10), block_dur=0.01, sr=1000, sw=2, ch=1)), [fobs], **kw)
        twf.start_all()
        time.sleep(0.3)
        donef = threading.Event()
        threading.Thread(target=lambda: (twf.stop_all(), donef.set()), daemon=True).start()
        if not donef.wait(4) or twf.is_alive():
            fail(pid, "stop_all", "the source fails with OSError from its 6th read on, a stop is requested 0.3 s later: after 4 s stop_all() has %s, "
                 "tokenizer thread alive: %r, observer alive: %r" % ("returned" if donef.is_set() else "NOT returned", twf.is_alive(), fobs.is_alive()))
        fobs.join(2)
        # a stop while an observer slower than the tokenizer still has detections queued (real threads, real queues):
        # every detection the tokenizer made is processed by the observer before it ends -- none is lost behind the marker
        n += 1
        long_data = synth("aAAa" * 60, 10)
        slow_got = []

        class SlowObs(Worker):
            def __init__(self):
                super().__init__(timeout=0.05)

            def _process_message(self, m):
                time.sleep(0.01)
                slow_got.append(m[0])
        so = SlowObs()
        tw5 = TokenizerWorker(AudioReader(long_data, block_dur=0.01, sr=1000, sw=2, ch=1), [so], **kw)
        tw5.start_all()
        time.sleep(0.15)
        tw5.stop_all()
        tw5.join(5)
        so.join(5)
        made = [d.id for d in tw5.detections]
        if slow_got != made or so.is_alive() or tw5.is_alive():
            fail(pid, "stop_all", "stop with a backlog: the tokenizer made detections %d..%d (%d), the slow observer processed %d of them "
                 "(last id %r); threads alive: %r" % (made[0] if made else 0, made[-1] if made else 0, len(made), len(slow_got),
                                                      slow_got[-1] if slow_got else None, [so.is_alive(), tw5.is_alive()]))
        for k in range(0, len(pat) + 3):       # the stop marker is seen by the poll that precedes read number k+1
            for with_saver in (False, True):
                n += 1

                class Obs:
                    def __init__(self):
                        self.got = []

                    def send(self, m):
                        self.got.append(m)
                obs = Obs()
                inner = AudioReader(data, block_dur=0.01, sr=1000, sw=2, ch=1)
                rd = inner
                p = os.path.join(tmp, "s_%d.wav" % n)
                if with_saver:
                    rd = StreamSaverWorker(inner, p)
                    rd._inbox = ScriptQ([], STOPM)
                    rd.join = lambda *a, **kk: None
                tw = TokenizerWorker(rd, [obs], **kw)
                tw._inbox = ScriptQ(["E"] * k + ["S"] + ["E"] * 1000, STOPM)
                tw.run()
                nread = min(k, len(pat))
                prefix = data[:nread * B * 2]
                exp = [(round(r.start * 1000), bytes(r)) for r in split(prefix, sr=1000, sw=2, ch=1, analysis_window=0.01, **kw)]
                got = [(round(m[1].start * 1000), bytes(m[1])) for m in obs.got if m != STOPM]
                ids = [m[0] for m in obs.got if m != STOPM]
                if got != exp or ids != list(range(1, len(exp) + 1)) or obs.got[-1:] != [STOPM]:
                    fail(pid, "stop", "stop seen before read %d: observers got %r, detections of the %d blocks read are %r" % (
                        k + 1, [g[0] for g in got], nread, [e[0] for e in exp]), k=k, saver=with_saver)
                if with_saver:
                    blocks = [m for m in rd._inbox.puts if m != STOPM]
                    if b"".join(blocks) != prefix or STOPM not in rd._inbox.puts:
                        fail(pid, "stop", "writer queue got %d blocks / stop marker %r; %d blocks were read" % (
                            len(blocks), STOPM in rd._inbox.puts, nread), k=k)
                    # writer thread: consume what was queued
                    q = ScriptQ(list(rd._inbox.puts), STOPM)
                    rd._inbox = q
                    Worker.run(rd)
                    fb, params = wav_bytes(p)
                    if fb != prefix:
                        fail(pid, "stop", "saved wav holds %d bytes, %d were read" % (len(fb), len(prefix)), k=k)
                    rd._exported = True
        # ordering of stop_all / close
        log = []

        class O2:
            def stop(self):
                log.append("obs.stop")

            def send(self, m):
                log.append("obs.stop" if m == STOPM else "obs.send")

            def join(self, *a):
                log.append("obs.join")
        inner = AudioReader(data, block_dur=0.01, sr=1000, sw=2, ch=1)
        tw = TokenizerWorker(inner, [O2(), O2()], **kw)
        tw.send = lambda m: log.append("tok.send")
        tw.join = lambda *a: log.append("tok.join")
        inner.close = lambda: log.append("reader.close")
        tw._reader = type("R", (), {"close": lambda s: log.append("reader.close")})()
        tw.stop_all()
        n += 1
        core = [x for x in log if x != "obs.join"]
        if core != ["tok.send", "tok.join", "obs.stop", "obs.stop", "reader.close"]:
            fail(pid, "stop_all", "order of actions %r; the tokenizer must be stopped and joined before the observers are stopped, reader closed last" % log)
        log = []
        rd2 = AudioReader(data, block_dur=0.01, sr=1000, sw=2, ch=1)
        sv = StreamSaverWorker(rd2, os.path.join(tmp, "o.wav"))
        sv._reader = type("R", (), {"close": lambda s: log.append("reader.close")})()
        sv.send = lambda m: log.append("send:%s" % ("STOP" if m == STOPM else "x"))
        sv.join = lambda *a: log.append("join")
        sv.close()
        sv._wfp.close(); sv._exported = True
        n += 1
        if log != ["reader.close", "send:STOP", "join"]:
            fail(pid, "StreamSaverWorker.close", "order of actions %r; expected reader closed, stop marker sent, writer joined" % log)
        # a read that stays blocked for a few seconds after the stop request: stop_all() waits for the tokenizer
        import threading
        n += 1
        gate = threading.Event()
        inner4 = AudioReader(data, block_dur=0.01, sr=1000, sw=2, ch=1)

        class Slow:
            def __init__(self, r):
                self.r, self.k = r, 0

            def __getattr__(self, a):
                return getattr(self.r, a)

            def read(self):
                self.k += 1
                if self.k == 5:
                    gate.wait(10)
                return self.r.read()
        got4 = []

        class O4(Worker):
            def __init__(self):
                super().__init__(timeout=0.05)

            def _process_message(self, m):
                got4.append(m[0])
        o4 = O4()
        tw = TokenizerWorker(Slow(inner4), [o4], **kw)
        tw.start_all()
        time.sleep(0.3)
        threading.Timer(2.6, gate.set).start()
        tw.stop_all()
        alive = tw.is_alive()
        gate.set()
        tw.join(5)
        o4.join(5)
        if alive:
            fail(pid, "stop_all", "stop_all() returned while the tokenizer thread was still running (a read blocked for 2.6 s): "
                 "observers were stopped and the reader closed under a live tokenizer; observer got ids %r" % got4)
        # standard input fed by a producer that never closes it: a stop still terminates everything
        import sys as _sys
        n += 1
        drained = threading.Event()

        class LiveBuffer:
            def read(self, k=-1):
                if drained.is_set():
                    return b""
                time.sleep(0.02)
                return bytes(k if k and k > 0 else 20)
            read1 = read
        old_stdin = _sys.stdin
        _sys.stdin = type("S", (), {"buffer": LiveBuffer()})()
        try:
            rdl = AudioReader("-", block_dur=0.01, sr=1000, sw=2, ch=1)
        finally:
            _sys.stdin = old_stdin
        tw = TokenizerWorker(rdl, [], **kw)
        tw.start_all()
        time.sleep(0.3)
        done = threading.Event()
        threading.Thread(target=lambda: (tw.stop_all(), done.set()), daemon=True).start()
        finished = done.wait(4)
        drained.set()
        done.wait(5)
        tw.join(5)
        if not finished:
            fail(pid, "stop_all", "live standard input (producer never closes the pipe): stop_all() had not returned after 4 s")
        # a stream that ends before any block: the saved file is still a complete (empty) wav
        for cache in (0, 0.5):
            n += 1
            rd3 = AudioReader(b"", block_dur=0.01, sr=1000, sw=2, ch=1)
            p3 = os.path.join(tmp, "e_%d.wav" % n)
            sv = StreamSaverWorker(rd3, p3, cache_size_sec=cache)
            sv._inbox = ScriptQ(["S"], STOPM)
            Worker.run(sv)
            got, params = wav_bytes(p3)
            sv._exported = True
            if got != b"" or params != (1000, 2, 1):
                fail(pid, "StreamSaverWorker", "empty stream: saved file is %r, expected a complete wav with no frames" % (got,), cache=cache)
    finally:
        for f in os.listdir(tmp):
            try:
                os.remove(os.path.join(tmp, f))
            except OSError:
                pass
        os.rmdir(tmp)
    return n


def search_C12_all(pid, budget):
    n = search_C12(pid, budget)
    return n + search_C14(pid, budget)      # stop_all / stop paths also deliver every detection exactly once, in order


def search_C13_all(pid, budget):
    n = search_C13(pid, budget)
    return n + search_C14(pid, budget)      # saved stream == blocks the tokenizer read, also when a stop arrives


SEARCH = {"C12": search_C12_all, "C13": search_C13_all, "C14": search_C14}


def run(pid, budget):
    try:
        return None, SEARCH[pid](pid, budget)
    except Fail as f:
        return f.w, 1


if __name__ == "__main__":
    import warnings
    warnings.simplefilter("ignore")
    cmd = sys.argv[1]
    if cmd == "search":
        w, n = run(sys.argv[2], float(sys.argv[3]) if len(sys.argv) > 3 else 60)
        print(json.dumps({"witness": w, "evaluated": n}, default=str))
        sys.stdout.flush()
        os._exit(0)          # a change under test may leave worker threads that never end: do not wait for them
    else:
        w = json.loads(sys.argv[2])
        w2, n = run(w["pid"], 300)
        print("stored witness: %s" % json.dumps(w))
        if w2 is None:
            print("property %s holds on the witness' scripted schedules on the current tree (%d cases)" % (w["pid"], n))
            sys.stdout.flush()
            os._exit(0)
        print("expected: property %s holds; observed on the current tree: %s" % (w["pid"], json.dumps(w2, default=str)))
        sys.stdout.flush()
        os._exit(1)

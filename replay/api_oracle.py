#!/venv/bin/python
"""Statement-level oracles run against the REAL public API (PYTHONPATH = tree
under test) for C05 C06 C07 C09 C10 C11 C18 C19.  Bounded, exhaustive-in-the-
small sweeps used (a) to turn a failed obligation into a concrete failing input
and (b) as the labelled *bounded stand-in* when changed code falls outside the
contracts.  Never counted as proof.

usage: api_oracle.py search <PID> <budget-s>     -> {"witness": ..., "evaluated": n}
       api_oracle.py replay '<witness json>'     -> exit 1 if it still fails
"""
import io
import itertools
import json
import math
import os
import struct
import sys
import tempfile
import time
import wave
from fractions import Fraction

sys.path.insert(0, os.path.dirname(os.path.abspath(__file__)))
from tok_oracle import spec_C04   # noqa: E402

LOUD, QUIET = 20000, 0


class Fail(Exception):
    def __init__(self, w):
        self.w = w


def fail(pid, op, observed, **kw):
    d = {"kind": "api", "pid": pid, "op": op, "observed": observed}
    d.update(kw)
    raise Fail(d)


class Dribble(io.RawIOBase):
    """A raw stream that, like a slow pipe, hands out at most `piece` bytes per low-level read."""

    def __init__(self, data, piece=3):
        self.d, self.i, self.piece = data, 0, piece

    def readable(self):
        return True

    def readinto(self, b):
        k = min(len(b), self.piece, len(self.d) - self.i)
        b[:k] = self.d[self.i:self.i + k]
        self.i += k
        return k


def slow_stdin(data, piece=3):
    return type("S", (), {"buffer": io.BufferedReader(Dribble(data, piece))})()


def fifo_regions(data, sr, sw, ch, **kw):
    """split() on a raw 'file' that is a named pipe fed in small, sample-unaligned pieces."""
    import threading
    from auditok import split
    d = tempfile.mkdtemp(prefix="fifo-")
    p = os.path.join(d, "in.raw")
    os.mkfifo(p)

    def feed():
        with open(p, "wb", buffering=0) as f:
            for i in range(0, len(data), 7):
                f.write(data[i:i + 7])
                time.sleep(0.002)
    t = threading.Thread(target=feed, daemon=True)
    t.start()
    try:
        return [(round(r.start * 1e6), bytes(r)) for r in split(p, sr=sr, sw=sw, ch=ch, large_file=True, audio_format="raw", **kw)]
    finally:
        t.join(5)
        os.remove(p)
        os.rmdir(d)


def sample_bytes(val, sw):
    if sw == 1:
        return struct.pack("<b", max(-128, min(127, val >> 8)))
    if sw == 2:
        return struct.pack("<h", val)
    return struct.pack("<i", val << 16)


def synth(pattern, B, sw, ch, tail=0, loud_channel=None):
    """pattern: string over A (active window) / a (silent); B samples per window."""
    out = bytearray()
    for i, c in enumerate(pattern):
        for s in range(B):
            for k in range(ch):
                v = LOUD if (c == "A" and (loud_channel is None or k == loud_channel)) else QUIET
                v = v if (s % 2 == 0) else -v
                out += sample_bytes(v, sw)
    for s in range(tail):
        for k in range(ch):
            out += sample_bytes(QUIET, sw)
    return bytes(out)


def count(q, fn):
    """window count of a float quotient per C06."""
    k = round(q)
    if k > 0 and abs(q - k) <= 1e-9:
        return int(k)
    return int(fn(q))


def expected_regions(pattern_len_windows, pattern, min_dur, max_dur, max_sil, w, drop, strict):
    m = count(min_dur / w, math.ceil)
    M = count(max_dur / w, math.floor)
    s = count(max_sil / w, math.floor) if max_sil > 0 else 0
    if m > M or s >= M or M <= 0:
        return None
    mode = (4 if drop else 0) | (2 if strict else 0)
    return spec_C04({"m": m, "M": M, "s": s, "mode": mode}, pattern)


def check_split_case(pid, pattern, sr, aw, sw, ch, min_dur, max_dur, max_sil, drop, strict, tail, via="bytes", **extra):
    from auditok import split, AudioRegion
    B = int(aw * sr)
    data = synth(pattern, B, sw, ch, tail)
    pat = pattern + ("a" if tail else "")
    info = dict(pattern=pattern, sr=sr, aw=aw, sw=sw, ch=ch, min_dur=min_dur, max_dur=max_dur, max_silence=max_sil,
                drop=drop, strict=strict, tail=tail, via=via)
    w = aw
    exp = expected_regions(len(pat), pat, min_dur, max_dur, max_sil, w, drop, strict)
    kw = dict(min_dur=min_dur, max_dur=max_dur, max_silence=max_sil, drop_trailing_silence=drop, strict_min_dur=strict,
              analysis_window=aw, energy_threshold=50 if sw > 1 else 30)
    try:
        if via == "region":
            regs = list(AudioRegion(data, sr, sw, ch).split(**kw))
        elif via == "region+kwargs":
            # audio-parameter keywords given next to a region input must not override the region's own format
            regs = list(AudioRegion(data, sr, sw, ch).split(sampling_rate=sr * 2 + 1, sample_width=(2 if sw != 2 else 1),
                                                            channels=ch + 1, **kw))
        else:
            regs = list(split(data, sr=sr, sw=sw, ch=ch, **kw))
    except ValueError as e:
        if exp is not None:
            fail(pid, "split", "ValueError(%s) for an acceptable combination" % e, **info)
        return
    if exp is None:
        fail(pid, "split", "no ValueError for an unacceptable combination", **info)
    bps = sw * ch
    nsamp = len(data) // bps
    got = []
    prev_end = -1
    for r in regs:
        a = round(r.start * sr / B) if B else 0
        if abs(r.start * sr - a * B) > 1e-6:
            fail(pid, "split", "start %r is not a whole number of windows" % r.start, **info)
        lo = a * B
        if bytes(r) != data[lo * bps: lo * bps + len(bytes(r))] or len(bytes(r)) % bps:
            fail(pid, "split", "region at %r does not carry the input bytes of its sample range" % r.start, **info)
        if (r.sr, r.sw, r.ch) != (sr, sw, ch):
            fail(pid, "split", "region format %r" % ((r.sr, r.sw, r.ch),), **info)
        if abs(r.duration - len(r) / sr) > 1e-9 or abs((r.end - r.start) - r.duration) > 1e-9:
            fail(pid, "split", "duration/end inconsistent", **info)
        if lo <= prev_end:
            fail(pid, "split", "regions overlap / out of order", **info)
        prev_end = lo + len(r) - 1
        nwin = -(-len(r) // B)
        got.append((a, a + nwin - 1))
    if got != exp:
        fail(pid, "split", "regions (windows) %r, expected %r" % (got, exp), **info)


def search_C05_C06(pid, budget):
    t0 = time.time()
    n = 0
    pats = ["".join(p) for L in (3, 5, 7, 9) for p in itertools.product("Aa", repeat=L)][::3]
    durs = [(0.2, 0.4, 0.1), (0.3, 1.0, 0.2), (0.07, 0.07, 0.0), (0.07, 1.0, 0.0), (0.14, 0.14, 0.02), (0.15, 0.3, 0.05),
            (0.1, 0.1, 0.0), (0.3, 0.3, 0.1), (100.00000005, 100, 0.0), (0.21, 0.8, 0.3)]
    # accept / reject grid (C06)
    from auditok import split
    for (mn, mx, ms, aw) in [(0, 1, 0, .1), (-1, 1, 0, .1), (.1, 0, 0, .1), (.1, 1, -.1, .1), (.1, 1, 0, 0), (.1, 1, 0, -.1),
                             (.3, .2, 0, .1), (.2, .3, .3, .1), (.2, .3, .4, .1), (.1, 1, 0, .00001)]:
        n += 1
        try:
            list(split(bytes(200), sr=1000, sw=2, ch=1, min_dur=mn, max_dur=mx, max_silence=ms, analysis_window=aw))
            fail(pid, "split-args", "no ValueError", args=[mn, mx, ms, aw])
        except ValueError:
            pass
    # an abandoned, partially consumed split() generator over a recorder is finalised while the next split() is in progress
    import struct as _s3
    import gc as _gc
    from auditok import AudioReader as _AR
    sig_ = b"".join((_s3.pack("<10h", *([9000, -9000] * 5)) if c == "A" else bytes(20)) for c in "aAAAaaAAAAaaaAAa")
    kw_ = dict(min_dur=0.02, max_dur=0.05, max_silence=0.01)
    ref_ = [(round(r.start * 1000), bytes(r)) for r in split(sig_, sr=1000, sw=2, ch=1, analysis_window=0.01, **kw_)]
    for how in ("close", "del"):
        n += 1
        rec_ = _AR(sig_, block_dur=0.01, record=True, sr=1000, sw=2, ch=1)
        g1 = split(rec_, **kw_)
        next(g1)
        list(split(rec_, **kw_))            # drain the stream through a second generator so that everything is recorded
        rec_.rewind()
        g2 = split(rec_, **kw_)
        got_ = [next(g2)]
        if how == "close":
            g1.close()
        else:
            del g1
            _gc.collect()
        try:
            got_ += list(g2)
            got_ = [(round(r.start * 1000), bytes(r)) for r in got_]
        except Exception as e:  # noqa
            got_ = "raised %s" % type(e).__name__
        if got_ != ref_:
            fail(pid, "split-stale-generator", "an earlier, partially consumed split() generator over the same recorder is finalised (%s) "
                 "after the next split() delivered its first region: the new run gives %r, expected %d regions" % (
                     how, got_ if isinstance(got_, str) else len(got_), len(ref_)))
    # an AudioReader with overlapping windows: w is its BLOCK duration (each frame the tokenizer sees is one block)
    from auditok import AudioReader
    import struct as _s2
    for (bd, hd, mx) in ((0.1, 0.05, 1.0), (0.2, 0.05, 0.6)):
        n += 1
        dd = _s2.pack("<400h", *([9000, -9000] * 200))       # 4 s of activity at 100 Hz
        rd_ = AudioReader(dd, block_dur=bd, hop_dur=hd, sr=100, sw=2, ch=1)
        regs = list(split(rd_, min_dur=bd, max_dur=mx, max_silence=0))
        nwin = [round(len(r) / (bd * 100)) for r in regs]
        lim = int(mx / bd + 1e-9)
        if any(len(r) > lim * bd * 100 for r in regs) or not regs:
            fail(pid, "split-overlap-reader", "AudioReader(block_dur=%r, hop_dur=%r) split with max_dur=%r: events of %r samples, "
                 "floor(max_dur/block_dur)=%d windows of %d samples allow %d" % (bd, hd, mx, [len(r) for r in regs], lim, bd * 100, lim * bd * 100))
    # a threshold of 0 dB is a threshold, not "use the default"
    import struct
    faint, zero = struct.pack("<10h", *([3, -3] * 5)), bytes(20)
    for pat in ("zzFFFFzzzFFFzz", "FFFF", "zFz"):
        for key in ("energy_threshold", "eth"):
            n += 1
            d = b"".join(faint if c == "F" else zero for c in pat)
            exp = expected_regions(len(pat), pat.replace("F", "A").replace("z", "a"), 0.02, 0.1, 0.0, 0.01, False, False)
            regs = list(split(d, sr=1000, sw=2, ch=1, min_dur=0.02, max_dur=0.1, max_silence=0.0, analysis_window=0.01, **{key: 0}))
            got = [(round(r.start * 100), round(r.start * 100) + -(-len(r) // 10) - 1) for r in regs]
            if got != exp:
                fail(pid, "split", "%s=0 on faint (amplitude 3, about 9.5 dB) windows: regions %r, the windows at or above 0 dB give %r" % (
                    key, got, exp), pattern=pat)
    # window durations that are not a whole number of samples: the reader's real window is floor(aw*rate) samples
    for (sr_, aw_) in ((100, 0.026), (11025, 0.03), (22050, 0.03)):
        n += 1
        check_split_case(pid, "aAAAAaaAAAaaa", sr_, aw_, 2, 1, 3 * aw_, 6 * aw_, aw_, False, False, 0, "bytes")
    # a multi-channel recorder split, rewound and split again gives the same regions with the same format
    from auditok import AudioReader as _ARd
    n += 1
    d3 = synth("aAAAAaaAAAaaa", 10, 2, 3)
    rec_ = _ARd(d3, block_dur=0.01, record=True, sr=1000, sw=2, ch=3)
    rec_.open()
    kwr_ = dict(min_dur=0.02, max_dur=0.1, max_silence=0.01)
    first_ = [(round(r.start * 1000), r.ch, bytes(r)) for r in split(rec_, **kwr_)]
    rec_.rewind()
    second_ = [(round(r.start * 1000), r.ch, bytes(r)) for r in split(rec_, **kwr_)]
    if first_ != second_ or not first_:
        fail(pid, "split", "3-channel recorder: first split gives %d regions (channels %r), after rewind %d regions (channels %r)" % (
            len(first_), sorted({x[1] for x in first_}), len(second_), sorted({x[1] for x in second_})))
    # two split() generators with the same format and parameters, consumed alternately, do not disturb each other
    import itertools as _it
    n += 1
    da, db = synth("aAAAAaaAAAaaaa", 10, 2, 1), synth("aaaAAAaAAAAAaa", 10, 2, 1)
    kwi = dict(sr=1000, sw=2, ch=1, min_dur=0.02, max_dur=0.1, max_silence=0.01, analysis_window=0.01)
    ea = [(round(r.start * 1000), bytes(r)) for r in split(da, **kwi)]
    eb = [(round(r.start * 1000), bytes(r)) for r in split(db, **kwi)]
    ga, gb = [], []
    for ra, rb in _it.zip_longest(split(da, **kwi), split(db, **kwi)):
        if ra is not None:
            ga.append((round(ra.start * 1000), bytes(ra)))
        if rb is not None:
            gb.append((round(rb.start * 1000), bytes(rb)))
    if ga != ea or gb != eb:
        fail(pid, "split", "two split() generators consumed alternately: starts %r / %r, each input alone gives %r / %r" % (
            [g[0] for g in ga], [g[0] for g in gb], [e[0] for e in ea], [e[0] for e in eb]))
    # a region that starts on the (shorter) last window, and splitting a region that has a start time of its own
    from auditok import AudioRegion as _AR
    n += 1
    d = synth("AAAA", 10, 2, 1) + synth("A", 10, 2, 1)[:8]
    for via in ("function", "method", "method-on-a-detection"):
        if via == "function":
            regs = list(split(d, sr=1000, sw=2, ch=1, min_dur=0.004, max_dur=0.04, max_silence=0, analysis_window=0.01))
        else:
            reg0 = _AR(d, 1000, 2, 1, start=(1.5 if via == "method-on-a-detection" else None))
            regs = list(reg0.split(min_dur=0.004, max_dur=0.04, max_silence=0, analysis_window=0.01))
        got = [(round(r.start * 1000), len(r)) for r in regs]
        if got != [(0, 40), (40, 4)]:
            fail(pid, "split", "4 active windows + an active partial window, max_dur = 4 windows (%s): regions (start sample, length) %r, "
                 "expected [(0, 40), (40, 4)] relative to the beginning of the input" % (via, got))
    # lazily read raw input that arrives slowly (named pipe): same regions as the bytes
    n += 1
    d = synth("aAAAAaaAAAaa", 10, 2, 1)
    kwf = dict(min_dur=0.02, max_dur=0.1, max_silence=0.01, analysis_window=0.01)
    exp = [(round(r.start * 1e6), bytes(r)) for r in split(d, sr=1000, sw=2, ch=1, **kwf)]
    try:
        got = fifo_regions(d, 1000, 2, 1, **kwf)
    except Exception as e:  # noqa
        fail(pid, "split", "raw input read lazily from a slow named pipe: split raised %s: %s" % (type(e).__name__, e))
    if got != exp:
        fail(pid, "split", "raw input read lazily from a slow named pipe: %d regions starting at %r; the same bytes give %d starting at %r" % (
            len(got), [g[0] for g in got], len(exp), [e[0] for e in exp]))
    # reader input: w is the reader's block duration
    from auditok import AudioReader, split
    for sr, bd in ((10, 0.25), (22050, 0.01), (10, 0.1)):
        B = int(bd * sr)
        w = B / sr
        for pat in ("aAAAAaa", "AAAAAAAA", "aAaAAa", "AAAAaaaaAAAA"):
            for mn, mx in ((1.0, 3.0), (0.2, 0.5), (4 * w, 8 * w), (0.79, 2.0)):
                n += 1
                data = synth(pat, B, 2, 1)
                exp = expected_regions(len(pat), pat, mn, mx, 0, w, False, False)
                try:
                    regs = list(split(AudioReader(data, block_dur=bd, sr=sr, sw=2, ch=1), min_dur=mn, max_dur=mx, max_silence=0))
                except ValueError:
                    regs = None
                got = None if regs is None else [(round(r.start * sr / B), round(r.start * sr / B) + -(-len(r) // B) - 1) for r in regs]
                if got != exp:
                    fail(pid, "split-reader", "regions %r, expected %r (w = reader block duration %r)" % (got, exp, w),
                         pattern=pat, sr=sr, block_dur=bd, min_dur=mn, max_dur=mx)
                # an analysis_window keyword next to a reader input does not change w
                for key in ("analysis_window", "aw"):
                    n += 1
                    try:
                        regs = list(split(AudioReader(data, block_dur=bd, sr=sr, sw=2, ch=1), min_dur=mn, max_dur=mx, max_silence=0,
                                          **{key: bd / 2.5}))
                    except ValueError:
                        regs = None
                    got = None if regs is None else [(round(r.start * sr / B), round(r.start * sr / B) + -(-len(r) // B) - 1) for r in regs]
                    if got != exp:
                        fail(pid, "split-reader", "with %s=%r next to a reader input: regions %r, expected %r (w = reader block duration %r)" % (
                            key, bd / 2.5, got, exp, w), pattern=pat, sr=sr, block_dur=bd, min_dur=mn, max_dur=mx)
    for key in ("analysis_window", "aw"):
        for bad in (0, 0.0, -0.05):
            n += 1
            try:
                list(split(bytes(400), sr=100, sw=2, ch=1, min_dur=0.1, max_dur=1, max_silence=0, **{key: bad}))
                fail(pid, "split-args", "no ValueError for %s=%r (at a rate where the default window would be acceptable)" % (key, bad),
                     args=[key, bad])
            except ValueError:
                pass
    # multi-channel wav read lazily: regions carry the input bytes of their sample range
    import wave as _wave
    tmpd = tempfile.mkdtemp(prefix="c05w-")
    try:
        for chn in (2, 3):
            n += 1
            dw = synth("aAAAAaaAAAaaaAAAAA", 10, 2, chn)
            wp = os.path.join(tmpd, "m%d.wav" % chn)
            with _wave.open(wp, "wb") as f:
                f.setframerate(1000); f.setsampwidth(2); f.setnchannels(chn); f.writeframes(dw)
            kwf = dict(min_dur=0.02, max_dur=0.1, max_silence=0.01, analysis_window=0.01)
            exp = [(round(r.start * 1e6), bytes(r)) for r in split(dw, sr=1000, sw=2, ch=chn, **kwf)]
            for lf in (False, True):
                got = [(round(r.start * 1e6), bytes(r)) for r in split(wp, large_file=lf, **kwf)]
                if got != exp:
                    fail(pid, "split", "%d-channel wav, large_file=%r: regions start at %r (%r bytes), the same audio as bytes gives %r (%r bytes)" % (
                        chn, lf, [g[0] for g in got], [len(g[1]) for g in got], [e[0] for e in exp], [len(e[1]) for e in exp]))
    finally:
        for f in os.listdir(tmpd):
            os.remove(os.path.join(tmpd, f))
        os.rmdir(tmpd)
    for (sr, aw) in ((10, 0.1), (1000, 0.01), (100, 0.05), (10, 0.25), (22050, 0.05), (50, 0.02), (1, 1),
                     (48000, 1024 / 48000), (48000, 256 / 48000), (3, 1 / 3), (100, 0.026), (11025, 0.03)):
        wdurs = [(10 * aw, 10 * aw, 0.0), (4 * aw, 9 * aw, 2 * aw), (3 * aw, 3 * aw, aw)] if aw not in (0.1, 0.01, 0.05, 0.25, 0.02, 1) else []
        for (mn, mx, ms) in durs + wdurs:
            if mn < aw / 2 and mx < aw:
                continue
            for (sw, ch) in ((2, 1), (1, 2), (4, 3)):
                for drop, strict in ((False, False), (True, False), (False, True), (True, True)):
                    for tail in (0, 1):
                        if tail and int(aw * sr) < 2:
                            continue
                        for via in ("bytes", "region", "region+kwargs"):
                            for pat in pats[(n % 7)::7][:6]:
                                n += 1
                                check_split_case(pid, pat, sr, aw, sw, ch, mn, mx, ms, drop, strict, tail and 1, via)
                        if time.time() - t0 > budget:
                            return n
    return n


# ---------------------------------------------------------------------------
def energy_exact(samples):
    """10*log10(mean square) computed from exact rationals (only the final log is float)."""
    ms = Fraction(sum(x * x for x in samples), len(samples))
    if ms == 0:
        return -200.0
    return max(10 * math.log10(ms), -200.0)


def decode(data, sw, ch):
    fmt = {1: "b", 2: "h", 4: "i"}[sw]
    vals = struct.unpack("<%d%s" % (len(data) // sw, fmt), data)
    return [list(vals[c::ch]) for c in range(ch)]


def c07_buffers(pid):
    """The same window handed over as bytes, bytearray, array('h') and a cast memoryview gives the same verdict;
    very quiet windows are not floored to silence."""
    import array
    from auditok.util import AudioEnergyValidator
    n = 0
    quiet_then_loud = [3] * 12 + [20000, -20000] * 6
    for vals_ in (quiet_then_loud, [0] * 20 + [30000] * 4):
        raw = struct.pack("<%dh" % len(vals_), *vals_)
        for thr in (50, 70, 20):
            ref = bool(AudioEnergyValidator(thr, 2, 1).is_valid(raw))
            for nm, buf in (("bytearray", bytearray(raw)), ("array('h')", array.array("h", vals_)),
                            ("memoryview cast to 'h'", memoryview(raw).cast("h"))):
                n += 1
                try:
                    got = bool(AudioEnergyValidator(thr, 2, 1).is_valid(buf))
                except Exception as e:  # noqa
                    fail(pid, "is_valid", "window given as %s raised %s" % (nm, type(e).__name__))
                if got != ref:
                    fail(pid, "is_valid", "the same %d samples judged %r as bytes and %r as %s (threshold %r)" % (len(vals_), ref, got, nm, thr))
    # mean square below 1: energy is 10*log10(mean square), not the silence floor
    for vals_, E in (([1, 1, 1, 0], 10 * math.log10(0.75)), ([1, 0, 0, 0, 0, 0, 0, 0], 10 * math.log10(0.125)), ([2, 1, 1, 1], 10 * math.log10(1.75))):
        raw = struct.pack("<%dh" % len(vals_), *vals_)
        for thr in (E - 0.5, E + 0.5, -100):
            n += 1
            got = bool(AudioEnergyValidator(thr, 2, 1).is_valid(raw))
            if got != (E >= thr):
                fail(pid, "is_valid", "samples %r (energy %.3f dB) judged %r at threshold %.3f" % (vals_, E, got, thr))
    return n


def search_C07(pid, budget):
    from auditok.util import AudioEnergyValidator
    n0 = c07_buffers(pid)
    n = 0
    t0 = time.time()
    # one validator judging windows of different lengths one after the other (a stream's last window is shorter; a
    # validator may be re-used with another window size): each verdict is that of a fresh validator on the same window
    loud = struct.pack("<40h", *([12000, -12000] * 20))
    quiet = struct.pack("<40h", *([2, -2] * 20))
    for ch in (1, 2):
        for sel in ((None, "mix", 0, -1) if ch > 1 else (None,)):
            for seq in ((loud, quiet[:16 * ch]), (quiet, loud[:16 * ch]), (loud[:16 * ch], quiet, loud), (quiet, quiet[:8 * ch], loud[:8 * ch], quiet[:4 * ch])):
                n += 1
                v = AudioEnergyValidator(50, 2, ch, use_channel=sel)
                for k, wnd in enumerate(seq):
                    got, ref = bool(v.is_valid(wnd)), bool(AudioEnergyValidator(50, 2, ch, use_channel=sel).is_valid(wnd))
                    if got != ref:
                        fail(pid, "is_valid-history", "window %d (%d bytes) of a sequence judged by ONE validator: verdict %r, a fresh validator says %r" % (
                            k + 1, len(wnd), got, ref), sw=2, ch=ch, use_channel=sel, lengths=[len(x) for x in seq])
    ext = {1: (-128, 127), 2: (-32768, 32767), 4: (-2 ** 31, 2 ** 31 - 1)}
    for sw in (1, 2, 4):
        lo, hi = ext[sw]
        vals = [v_ for v_ in (0, 1, -1, lo, hi, 100, -100, 1000, 3, hi // 3) if lo <= v_ <= hi]
        fmt = {1: "b", 2: "h", 4: "i"}[sw]
        for ch in (1, 2, 3):
            for nsamp in (1, 2, 3):
                for combo in itertools.islice(itertools.product(vals, repeat=nsamp * ch), 0, 400000, 37):
                    data = struct.pack("<%d%s" % (nsamp * ch, fmt), *combo)
                    rows = decode(data, sw, ch)
                    es = [energy_exact(r) for r in rows]
                    mix = energy_exact([Fraction(sum(col), ch) for col in zip(*rows)])
                    sels = [(None, max(es)), ("any", max(es)), ("mix", mix), ("avg", mix), ("average", mix)]
                    for k in range(-ch, ch):
                        sels.append((k, es[k % ch] if ch > 1 else es[0]))
                    if ch == 1:
                        sels = [(s, es[0]) for s, _ in sels] + [(5, es[0]), ("whatever", es[0])]
                    for sel, E in sels:
                        for thr in (E, E - 1e-6, E + 1e-6, 50, 0, -200, -200.0001):
                            if abs(E - thr) < 1e-9 and E not in (-200.0,) and not float(E).is_integer():
                                # exact tie decided by float rounding of log10: skip unless exactly representable
                                if abs(10 ** (thr / 10) - round(10 ** (thr / 10))) > 1e-9:
                                    continue
                            n += 1
                            exp = E >= thr
                            try:
                                got = bool(AudioEnergyValidator(thr, sw, ch, use_channel=sel).is_valid(data))
                            except Exception as e:  # noqa
                                fail(pid, "is_valid", "raised %s" % type(e).__name__, sw=sw, ch=ch, data=list(combo), use_channel=sel, threshold=thr)
                            if got != exp and abs(E - thr) > 1e-9 or (got != exp and thr in (-200, 60.0) ):
                                fail(pid, "is_valid", "is_valid=%r, energy %r vs threshold %r" % (got, E, thr), sw=sw, ch=ch,
                                     data=list(combo), use_channel=sel, threshold=thr)
                    if time.time() - t0 > budget:
                        return n
            if ch > 1:
                for bad in (ch, -ch - 1, ch + 3, "left", "mean", 1.5):
                    n += 1
                    try:
                        AudioEnergyValidator(50, sw, ch, use_channel=bad)
                        fail(pid, "selector", "no ValueError for use_channel=%r with %d channels" % (bad, ch), sw=sw, ch=ch, use_channel=bad)
                    except ValueError:
                        pass
        # exact ties on representable energies: all |samples| = 1000 -> 60 dB ; silence -> -200
        for ch in (1, 2):
            data = struct.pack("<%d%s" % (4 * ch, fmt), *([100 if sw > 1 else 100] * 4 * ch))
            E = 40.0
            for sel in (None, "mix", 0, -1):
                n += 1
                if not AudioEnergyValidator(E, sw, ch, use_channel=sel).is_valid(data):
                    fail(pid, "is_valid-tie", "window with energy exactly %r judged inactive at threshold %r" % (E, E), sw=sw, ch=ch, use_channel=sel)
                if not AudioEnergyValidator(-200, sw, ch, use_channel=sel).is_valid(bytes(4 * ch * sw)):
                    fail(pid, "is_valid-floor", "digital silence judged inactive at threshold -200", sw=sw, ch=ch, use_channel=sel)
    return n


# ---------------------------------------------------------------------------
def regions_of(x, **kw):
    from auditok import split
    return [(round(r.start * 1e6), bytes(r)) for r in split(x, **kw)]


def search_C09(pid, budget):
    import auditok
    from auditok import split, AudioRegion, AudioReader
    from auditok.io import BufferAudioSource, StdinAudioSource
    n = 0
    t0 = time.time()
    tmp = tempfile.mkdtemp(prefix="c09-")
    try:
        for (sr, sw, ch, aw) in ((10, 2, 1, 0.1), (16, 1, 2, 0.25), (11025, 2, 1, 0.0625), (100, 4, 3, 0.05)):
            B = int(aw * sr)
            for pat in ("aAAAaaAAAAAAaa", "AAAAAAAAAAAA", "aaaaa", "AaAaAaAAAA", ""):
                data = synth(pat, B, sw, ch, tail=1 if B > 1 else 0)
                kw = dict(min_dur=2 * aw, max_dur=5 * aw, max_silence=aw, analysis_window=aw, energy_threshold=50 if sw > 1 else 30)
                ref = regions_of(data, sampling_rate=sr, sample_width=sw, channels=ch, **kw)
                wavp, rawp = os.path.join(tmp, "x.wav"), os.path.join(tmp, "x.raw")
                with wave.open(wavp, "wb") as f:
                    f.setframerate(sr); f.setsampwidth(sw); f.setnchannels(ch); f.writeframes(data)
                open(rawp, "wb").write(data)
                variants = {
                    "bytes short names": lambda: regions_of(data, sr=sr, sw=sw, ch=ch, **kw),
                    "AudioRegion": lambda: regions_of(AudioRegion(data, sr, sw, ch), **kw),
                    "region.split": lambda: [(round(r.start * 1e6), bytes(r)) for r in AudioRegion(data, sr, sw, ch).split(**kw)],
                    "wav eager": lambda: regions_of(wavp, **kw),
                    "wav lazy": lambda: regions_of(wavp, large_file=True, **kw),
                    "raw eager": lambda: regions_of(rawp, sr=sr, sw=sw, ch=ch, **kw),
                    "raw lazy": lambda: regions_of(rawp, sr=sr, sw=sw, ch=ch, large_file=True, audio_format="raw", **kw),
                    "raw fmt alias": lambda: regions_of(rawp, sr=sr, sw=sw, ch=ch, fmt="raw", **kw),
                    "AudioSource": lambda: regions_of(BufferAudioSource(data, sr, sw, ch), **kw),
                    "AudioReader": lambda: regions_of(AudioReader(data, block_dur=aw, sr=sr, sw=sw, ch=ch),
                                                      **{k: v for k, v in kw.items() if k != "analysis_window"}),
                    "aw alias": lambda: regions_of(data, sr=sr, sw=sw, ch=ch, aw=aw, **{k: v for k, v in kw.items() if k != "analysis_window"}),
                    "long wins": lambda: regions_of(data, sampling_rate=sr, sr=sr + 7, sample_width=sw, sw=3 - sw if sw < 3 else 2,
                                                    channels=ch, ch=ch + 1, analysis_window=aw, aw=aw * 3,
                                                    **{k: v for k, v in kw.items() if k != "analysis_window"}),
                }
                variants["AudioRegion that carries a start of its own (cut out of a longer stream)"] = lambda: regions_of(
                    AudioRegion(data, sr, sw, ch, start=2.5), **kw)
                variants["short aliases written BEFORE the long names (long still wins)"] = lambda: regions_of(
                    data, sr=sr + 7, sampling_rate=sr, sw=3 - sw if sw < 3 else 2, sample_width=sw, ch=ch + 1, channels=ch, **kw)
                variants["AudioRegion next to contradicting long-name parameters"] = lambda: regions_of(
                    AudioRegion(data, sr, sw, ch), sampling_rate=sr * 2 + 1, sample_width=(2 if sw != 2 else 1), channels=ch + 1, **kw)

                def resplit(mk, **extra):
                    # split, close the source, split the same object again: every container restarts from the beginning
                    src = mk()
                    first = regions_of(src, **extra)
                    src.close()
                    return regions_of(src, **extra)
                kwr = {k: v for k, v in kw.items() if k != "analysis_window"}
                variants["AudioSource split again after close()"] = lambda: resplit(lambda: BufferAudioSource(data, sr, sw, ch), **kw)
                variants["AudioReader over bytes split again after close()"] = lambda: resplit(
                    lambda: AudioReader(data, block_dur=aw, sr=sr, sw=sw, ch=ch), **kwr)
                variants["AudioReader over a lazily read wav split again after close()"] = lambda: resplit(
                    lambda: AudioReader(wavp, block_dur=aw, large_file=True), **kwr)

                def stdin_variant():
                    old = sys.stdin
                    sys.stdin = type("S", (), {"buffer": io.BytesIO(data)})()
                    try:
                        return regions_of("-", sr=sr, sw=sw, ch=ch, **kw)
                    finally:
                        sys.stdin = old
                variants["stdin"] = stdin_variant

                def slow_stdin_variant():
                    old = sys.stdin
                    sys.stdin = slow_stdin(data)
                    try:
                        return regions_of("-", sr=sr, sw=sw, ch=ch, **kw)
                    finally:
                        sys.stdin = old
                variants["stdin fed by a slow pipe (3 bytes per low-level read)"] = slow_stdin_variant
                for name, f in variants.items():
                    n += 1
                    try:
                        got = f()
                    except Exception as e:  # noqa
                        fail(pid, "container", "%s raised %s: %s" % (name, type(e).__name__, e), pattern=pat, fmt=[sr, sw, ch, aw])
                    if got != ref:
                        fail(pid, "container", "%s gives %d regions %r, bytes input gives %r" % (
                            name, len(got), [g[0] for g in got], [g[0] for g in ref]), pattern=pat, fmt=[sr, sw, ch, aw], variant=name)
                # thresholds / use_channel / validator aliases
                kw0 = {k: v for k, v in kw.items() if k != "energy_threshold"}
                for thr in (0, 30, 50, 80):
                    n += 1
                    a = regions_of(data, sr=sr, sw=sw, ch=ch, energy_threshold=thr, **kw0)
                    b = regions_of(data, sr=sr, sw=sw, ch=ch, eth=thr, **kw0)
                    c = regions_of(data, sr=sr, sw=sw, ch=ch, energy_threshold=thr, eth=thr + 40, **kw0)
                    if not (a == b == c):
                        fail(pid, "alias", "energy_threshold=%r vs eth=%r vs both differ" % (thr, thr), pattern=pat, fmt=[sr, sw, ch, aw])
                if ch > 1:
                    for uc in (0, 1, "mix", None):
                        n += 1
                        if regions_of(data, sr=sr, sw=sw, ch=ch, use_channel=uc, **kw) != regions_of(data, sr=sr, sw=sw, ch=ch, uc=uc, **kw):
                            fail(pid, "alias", "use_channel vs uc differ for %r" % (uc,), pattern=pat, fmt=[sr, sw, ch, aw])
                v = lambda frame: any(frame)
                if regions_of(data, sr=sr, sw=sw, ch=ch, validator=v, **kw) != regions_of(data, sr=sr, sw=sw, ch=ch, val=v, **kw):
                    fail(pid, "alias", "validator vs val differ", pattern=pat, fmt=[sr, sw, ch, aw])
                # max_read
                nsamp = len(data) // (sw * ch)
                for t in (0.5, 0.25, 0.3, aw * 8, (nsamp - 1) / sr, 2.5 / sr, 0.0625 * 8):
                    k = round(t * sr)
                    if k <= 0:
                        continue
                    n += 1
                    exp = regions_of(data[:k * sw * ch], sr=sr, sw=sw, ch=ch, **kw)
                    for nm, f in (("max_read", lambda: regions_of(data, sr=sr, sw=sw, ch=ch, max_read=t, **kw)),
                                  ("mr", lambda: regions_of(data, sr=sr, sw=sw, ch=ch, mr=t, **kw)),
                                  ("wav lazy max_read", lambda: regions_of(wavp, large_file=True, max_read=t, **kw))):
                        got = f()
                        if got != exp:
                            fail(pid, "max_read", "%s=%r gives %r, first round(t*rate)=%d samples give %r" % (
                                nm, t, [g[0] for g in got], k, [g[0] for g in exp]), pattern=pat, fmt=[sr, sw, ch, aw])
                if time.time() - t0 > budget:
                    return n
    finally:
        for f in os.listdir(tmp):
            os.remove(os.path.join(tmp, f))
        os.rmdir(tmp)
    return n


# ---------------------------------------------------------------------------
def read_all(reader, extra=3, limit=10000):
    out = []
    for _ in range(limit):
        b = reader.read()
        if b is None:
            break
        out.append(b)
    tail = [reader.read() for _ in range(extra)]
    return out, tail


def expected_blocks(data, bps, B, h):
    n = len(data) // bps
    out = []
    k = 0
    while True:
        lo = k * h
        if k == 0:
            if n == 0:
                break
        elif B + (k - 1) * h >= n:
            break
        out.append(data[lo * bps: min(n, lo + B) * bps])
        k += 1
    return out


def search_C10_C19(pid, budget):
    from auditok import AudioReader, Recorder
    from auditok.io import BufferAudioSource
    n = 0
    t0 = time.time()
    fmts = ((10, 1, 1), (10, 2, 2), (8000, 2, 1), (11025, 2, 1), (8, 4, 3))
    # a redundant open() in mid-stream does not disturb an overlapping reader
    n += 1
    do_ = bytes((i * 3 + 2) % 256 for i in range(60))
    ro = AudioReader(do_, block_dur=0.5, hop_dur=0.3, sr=10, sw=2, ch=1)
    ro.open()
    b0 = [ro.read(), ro.read()]
    ro.open()
    rest, tail = read_all(ro)
    expo = expected_blocks(do_, 2, 5, 3)
    if b0 + rest != expo:
        fail(pid, "reader", "overlapping reader with an extra open() after two blocks: block starts %r, expected %r" % (
            [do_.find(b) // 2 for b in b0 + rest], [do_.find(b) // 2 for b in expo]))
    # the sizes a reader REPORTS (block_size, hop_size, block_dur, hop_dur) are those of the blocks it returns: sizes and rates
    # whose quotient/product round trip is not exact in binary64 (29 samples at 100 Hz, 15 at 44100 Hz, ...)
    for (nb, nh, sr_) in ((29, 7, 100), (15, 4, 44100), (23, 23, 44100), (27, 9, 48000), (1001, 250, 8000), (3, 1, 10)):
        n += 1
        dd = bytes(i % 251 for i in range(nb * 5))
        kwr = dict(block_dur=(nb + 0.5) / sr_, sr=sr_, sw=1, ch=1)      # half a sample of margin: exactly nb samples
        if nh != nb:
            kwr["hop_dur"] = (nh + 0.5) / sr_
        rr = AudioReader(dd, **kwr)
        rr.open()
        b1, b2 = rr.read(), rr.read()
        real_block = len(b1)
        real_hop = dd.find(b2) if nh != nb else real_block
        rep = (rr.block_size, rr.hop_size)
        if rep != (real_block, real_hop) or abs(rr.block_dur - real_block / sr_) > 1e-12 or abs(rr.hop_dur - real_hop / sr_) > 1e-12:
            fail(pid, "reader", "AudioReader(block_dur=%d.5/%d, hop_dur=%d.5/%d): reports block_size=%r hop_size=%r block_dur=%r hop_dur=%r, "
                 "the blocks it returns have %d samples and advance by %d" % (nb, sr_, nh, sr_, rep[0], rep[1], rr.block_dur, rr.hop_dur,
                                                                               real_block, real_hop))
    # replay only part of the recording, rewind again: the recording is still everything consumed before the FIRST rewind;
    # a reader closed before its first rewind still replays (rewind opens the replay)
    for hd in (None, 0.2):
        for closed_first in (False, True):
            n += 1
            dpr = bytes((i * 11 + 5) % 256 for i in range(120))
            rp = AudioReader(dpr, block_dur=0.4, hop_dur=hd, record=True, sr=10, sw=2, ch=1)
            rp.open()
            first_pass = [rp.read() for _ in range(6)]
            if closed_first:
                rp.close()
            rp.rewind()
            rec0 = rp.data
            try:
                part = [rp.read() for _ in range(2)]
                rp.rewind()
                rec1 = rp.data
                again = [rp.read() for _ in range(6)]
            except Exception as e:  # noqa
                fail(pid, "recorder-partial-replay", "%s(hop_dur=%r): reading after rewind%s raised %s" % (
                    "AudioReader(record=True)", hd, " (reader closed before the first rewind)" if closed_first else "", type(e).__name__))
            if rec1 != rec0 or again != first_pass or part != first_pass[:2]:
                fail(pid, "recorder-partial-replay", "hop_dur=%r%s: after replaying 2 of 6 blocks and rewinding again, data has %d bytes (was %d) and the "
                     "replay gives %d/%d identical blocks" % (hd, ", closed before the first rewind" if closed_first else "", len(rec1), len(rec0),
                                                            sum(1 for x, y in zip(again, first_pass) if x == y), len(first_pass)))
    # a long recording (thousands of blocks before the first rewind): every sample once, in order
    for (nblk, hd) in ((5000, None), (9000, None), (4500, 0.002)):
        n += 1
        dlong = bytes((i * 7 + (i >> 8)) % 256 for i in range(nblk * 2 + 3))
        rl = AudioReader(dlong, block_dur=0.002 if hd is None else 0.004, hop_dur=hd, record=True, sr=1000, sw=1, ch=1)
        rl.open()
        nread = 0
        while rl.read() is not None:
            nread += 1
        rl.rewind()
        if rl.data != dlong:
            k_ = next((i for i in range(min(len(rl.data), len(dlong))) if rl.data[i] != dlong[i]), min(len(rl.data), len(dlong)))
            fail(pid, "recorder-long", "recording of %d blocks: data has %d bytes, the source %d; first difference at byte %d" % (
                nread, len(rl.data), len(dlong), k_))
    # the Recorder spelling honours max_read exactly like AudioReader(record=True)
    from auditok.util import Recorder
    dr = bytes((i * 5 + 3) % 256 for i in range(80))
    for mr in (0.5, 1.0, 2.5):
        for hd in (None, 0.2):
            n += 1
            rec_ = Recorder(dr, block_dur=0.4, hop_dur=hd, max_read=mr, sr=10, sw=2, ch=1)
            rec_.open()
            got, tail = read_all(rec_)
            vis = dr[:round(mr * 10) * 2]
            exp = expected_blocks(vis, 2, 4, 4 if hd is None else 2)
            rec_.rewind()
            if got != exp or rec_.data != vis[:len(rec_.data)] or len(rec_.data) > len(vis):
                fail(pid, "reader", "Recorder(max_read=%r, hop_dur=%r): blocks of %r bytes, recorded %d bytes; the first round(max_read*rate) "
                     "samples are %d bytes" % (mr, hd, [len(b) for b in got], len(rec_.data), len(vis)))
    # lazily read file and slow standard input under the reader: full blocks, then None on EVERY further call
    from auditok.io import StdinAudioSource
    tmpd = tempfile.mkdtemp(prefix="c10-")
    try:
        dl = bytes((i * 3 + 1) % 256 for i in range(46))
        rp = os.path.join(tmpd, "l.raw")
        open(rp, "wb").write(dl)
        for hd in (None, 0.3):
            for what in ("raw-lazy", "stdin-slow"):
                n += 1
                old_stdin = sys.stdin
                try:
                    if what == "raw-lazy":
                        r = AudioReader(rp, block_dur=0.5, hop_dur=hd, sr=10, sw=2, ch=1, large_file=True, audio_format="raw")
                    else:
                        sys.stdin = slow_stdin(dl)
                        r = AudioReader("-", block_dur=0.5, hop_dur=hd, sr=10, sw=2, ch=1)
                    r.open()
                    try:
                        got, tail = read_all(r, extra=4)
                    except Exception as e:  # noqa
                        fail(pid, "reader", "%s reader (hop_dur=%r): a read raised %s" % (what, hd, type(e).__name__))
                finally:
                    sys.stdin = old_stdin
                exp = expected_blocks(dl, 2, 5, 5 if hd is None else 3)
                if got != exp or any(t is not None for t in tail):
                    fail(pid, "reader", "%s reader (hop_dur=%r): blocks of %r bytes then %r; expected %r then None on every further call" % (
                        what, hd, [len(b) for b in got], tail, [len(b) for b in exp]))
    finally:
        for f in os.listdir(tmpd):
            os.remove(os.path.join(tmpd, f))
        os.rmdir(tmpd)
    for sr, sw, ch in fmts:
        bps = sw * ch
        for ns in (0, 1, 2, 3, 5, 9, 10, 17, 403):
            data = bytes((i * 7 + 1) % 256 for i in range(ns * bps))
            for bd, hd in ((0.4, None), (0.4, 0.4), (0.4, 0.2), (0.3, 0.1), (0.2, 0.1), (1.0, 0.5), (0.0251, 0.025), (0.5, 0.25), (0.1, None)):
                B = int(bd * sr)
                h = B if hd in (None, bd) else int(hd * sr)
                if B == 0 or h == 0:
                    continue
                for mr in (None, 0.5, 0.25, 0.0625, 0.3, 1.05, 100, 0, 0.0):
                    vis = data if mr is None else data[:round(mr * sr) * bps]
                    exp = expected_blocks(vis, bps, B, h)
                    for rec in (False, True):
                        for kind in ("bytes", "source"):
                            n += 1
                            info = dict(sr=sr, sw=sw, ch=ch, nsamples=ns, block_dur=bd, hop_dur=hd, max_read=mr, record=rec, input=kind)
                            inp = data if kind == "bytes" else BufferAudioSource(data, sr, sw, ch)
                            kw = {} if kind == "source" else dict(sr=sr, sw=sw, ch=ch)
                            try:
                                r = AudioReader(inp, block_dur=bd, hop_dur=hd, max_read=mr, record=rec, **kw)
                                r.open()
                                got, tail = read_all(r)
                            except Exception as e:  # noqa
                                fail(pid, "reader", "raised %s: %s" % (type(e).__name__, e), **info)
                            # reads attempted before open() must raise and must not disturb the framing afterwards
                            from auditok.io import AudioIOError as _AIOE
                            inp2 = data if kind == "bytes" else BufferAudioSource(data, sr, sw, ch)
                            r3 = AudioReader(inp2, block_dur=bd, hop_dur=hd, max_read=mr, record=rec, **kw)
                            for _ in range(2):
                                try:
                                    if r3.read() is not None:
                                        fail(pid, "reader", "read() before open() returned data", **info)
                                except (_AIOE, IOError):
                                    pass
                            r3.open()
                            got3, tail3 = read_all(r3)
                            if got3 != exp or any(t is not None for t in tail3):
                                fail(pid, "reader", "after failed reads on the closed reader, open() + reads give blocks %r; expected %r" % (
                                    [len(b) for b in got3], [len(b) for b in exp]), **info)
                            if got != exp or any(t is not None for t in tail):
                                fail(pid, "reader", "blocks of %r bytes then %r; expected %r then None" % (
                                    [len(b) for b in got], tail, [len(b) for b in exp]), **info)
                            if r.block_size != B:
                                fail(pid, "reader", "block_size %r != floor(block_dur*rate) %r" % (r.block_size, B), **info)
                            if pid == "C19" or rec:
                                if not rec:
                                    for nm in ("data", "rewind"):
                                        try:
                                            getattr(r, nm)
                                            fail("C19", "reader", "non-recording reader exposes %s" % nm, **info)
                                        except AttributeError:
                                            pass
                                    continue
                                for k in (0, 1, 2, len(exp), len(exp) + 2):
                                    n += 1
                                    r2 = AudioReader(data if kind == "bytes" else BufferAudioSource(data, sr, sw, ch), block_dur=bd,
                                                     hop_dur=hd, max_read=mr, record=True, **kw)
                                    r2.open()
                                    try:
                                        r2.data
                                        fail("C19", "recorder", "data readable before the first rewind", k=k, **info)
                                    except RuntimeError:
                                        pass
                                    except AttributeError:
                                        fail("C19", "recorder", "data before rewind raises AttributeError, not RuntimeError", k=k, **info)
                                    first = [r2.read() for _ in range(k)]
                                    first = [b for b in first if b is not None]
                                    consumed = 0 if not first else min(len(vis) // bps, B + (len(first) - 1) * h)
                                    try:
                                        for rep in range(3):
                                            r2.rewind()
                                            if r2.data != vis[:consumed * bps]:
                                                fail("C19", "recorder", "after rewind #%d data has %d bytes, consumed portion has %d" % (
                                                    rep + 1, len(r2.data), consumed * bps), k=k, **info)
                                            again, tail2 = read_all(r2)
                                            if again != expected_blocks(vis[:consumed * bps], bps, B, h) or again[:len(first)] != first \
                                                    or any(t is not None for t in tail2):
                                                fail("C19", "recorder", "replay #%d gives blocks %r, first pass %r" % (
                                                    rep + 1, [len(b) for b in again], [len(b) for b in first]), k=k, **info)
                                    except Fail:
                                        raise
                                    except Exception as e:  # noqa
                                        fail("C19", "recorder", "rewind/replay raised %s: %s" % (type(e).__name__, e), k=k, **info)
                if time.time() - t0 > budget:
                    return n
        for bd, hd in ((0.00001, None), (0.2, 0.3), (0.2, 0.21), (0, None), (-1, None)):
            n += 1
            if int(abs(bd) * sr) > 0 and hd is None and bd > 0:
                continue
            try:
                AudioReader(bytes(4 * bps), block_dur=bd, hop_dur=hd, sr=sr, sw=sw, ch=ch)
                fail(pid, "reader-args", "no error for block_dur=%r hop_dur=%r" % (bd, hd), sr=sr)
            except (ValueError,):
                pass
    return n


def search_C11(pid, budget):
    from auditok.io import BufferAudioSource, RawAudioSource, WaveAudioSource, StdinAudioSource, AudioIOError
    n = 0
    t0 = time.time()
    tmp = tempfile.mkdtemp(prefix="c11-")
    try:
        for sr, sw, ch in ((10, 1, 1), (16, 2, 2), (11, 4, 1), (10, 2, 3)):
            bps = sw * ch
            for ns in (0, 1, 4, 10):
                data = bytes((i * 5 + 2) % 256 for i in range(ns * bps))
                rawp, wavp = os.path.join(tmp, "a.raw"), os.path.join(tmp, "a.wav")
                open(rawp, "wb").write(data)
                with wave.open(wavp, "wb") as f:
                    f.setframerate(sr); f.setsampwidth(sw); f.setnchannels(ch); f.writeframes(data)

                def mk(kind):
                    if kind == "buffer":
                        return BufferAudioSource(data, sr, sw, ch)
                    if kind == "raw":
                        return RawAudioSource(rawp, sr, sw, ch)
                    if kind == "wave":
                        return WaveAudioSource(wavp)
                    old = sys.stdin
                    sys.stdin = slow_stdin(data) if kind == "stdin-slow-pipe" else type("S", (), {"buffer": io.BytesIO(data)})()
                    try:
                        return StdinAudioSource(sr, sw, ch)
                    finally:
                        sys.stdin = old
                for kind in ("buffer", "raw", "wave", "stdin", "stdin-slow-pipe"):
                    sizes = [0, 1, 2, 3, ns, ns + 2] + ([] if kind.startswith("stdin") else [-1, None])
                    for seq in itertools.product(sizes, repeat=3):
                        n += 1
                        src = mk(kind)
                        try:
                            src.read(1)
                            fail(pid, "source", "read on a closed %s source did not raise" % kind, fmt=[sr, sw, ch], nsamples=ns)
                        except (AudioIOError, IOError):
                            pass
                        src.open()
                        pos = 0
                        for sz in seq:
                            exp_n = (ns - pos) if (sz is None or sz < 0) else min(sz, ns - pos)
                            try:
                                got = src.read(sz)
                            except Exception as e:  # noqa
                                fail(pid, "source", "%s.read(%r) at sample %d of %d on an open source raised %s" % (
                                    kind, sz, pos, ns, type(e).__name__), fmt=[sr, sw, ch], nsamples=ns, reads=list(seq))
                            exp = data[pos * bps:(pos + exp_n) * bps] if exp_n > 0 else None
                            if got != exp:
                                fail(pid, "source", "%s.read(%r) at sample %d returned %r, expected %r" % (
                                    kind, sz, pos, None if got is None else len(got), None if exp is None else len(exp)),
                                    fmt=[sr, sw, ch], nsamples=ns, reads=list(seq))
                            pos += exp_n
                            if kind == "buffer" and src.position != pos:
                                fail(pid, "source", "position %r after consuming %d samples" % (src.position, pos),
                                     fmt=[sr, sw, ch], nsamples=ns, reads=list(seq))
                        src.close()
                # position_ms is int(rate * ms / 1000) evaluated in that order
                if ns == 10 and sw == 1 and ch == 1 and sr == 10:
                    for r2, ms in ((16000, 1001), (8000, 1003), (44100, 350), (16000, -1001), (32000, 1017)):
                        n += 1
                        big = BufferAudioSource(bytes(2 * 3 * r2), r2, 2, 1)
                        big.position_ms = ms
                        exp_p = int(r2 * ms / 1000)
                        exp_p = exp_p if exp_p >= 0 else 3 * r2 + exp_p
                        if big.position != exp_p:
                            fail(pid, "position", "position_ms = %d at %d Hz: position %d, expected int(rate*ms/1000) = %d" % (
                                ms, r2, big.position, exp_p))
                    # a wav source describes the file it is constructed on, also when the path was rewritten
                    wp2 = os.path.join(tmp, "re.wav")
                    for (r3, w3, c3) in ((8000, 2, 1), (16, 1, 3)):
                        n += 1
                        with wave.open(wp2, "wb") as f:
                            f.setframerate(r3); f.setsampwidth(w3); f.setnchannels(c3); f.writeframes(bytes(w3 * c3 * 7))
                        ws = WaveAudioSource(wp2)
                        if (ws.sr, ws.sw, ws.ch) != (r3, w3, c3):
                            fail(pid, "source", "WaveAudioSource on a rewritten path reports %r, the file is %r" % ((ws.sr, ws.sw, ws.ch), (r3, w3, c3)))
                        ws.open()
                        got7 = ws.read(7)
                        ws.close()
                        if got7 is None or len(got7) != 7 * w3 * c3:
                            fail(pid, "source", "WaveAudioSource.read(7) on a %r file returned %r bytes" % ((r3, w3, c3), None if got7 is None else len(got7)))
                # open() on an open, partly consumed source does not move it; a position set before open() is kept
                if ns >= 4:
                    n += 1
                    src = BufferAudioSource(data, sr, sw, ch)
                    src.open(); src.read(2); src.open()
                    got = src.read(1)
                    src.close()
                    src.position = 3
                    src.open()
                    got2 = src.read(1)
                    src.close()
                    if got != data[2 * bps:3 * bps] or got2 != data[3 * bps:4 * bps]:
                        fail(pid, "position", "open() moved the source: after read(2), open() the next sample is %r (expected sample 2); "
                             "after position = 3, open() it is %r (expected sample 3)" % (
                                 data.index(got) // bps if got else None, data.index(got2) // bps if got2 else None),
                             fmt=[sr, sw, ch], nsamples=ns)
                # close() returns to the start whatever happened to the position while the source was closed
                if ns >= 3:
                    for first_open in (False, True):
                        n += 1
                        src = BufferAudioSource(data, sr, sw, ch)
                        if first_open:
                            src.open(); src.read(1); src.close()
                        src.position = 2
                        src.close()
                        src.open()
                        got = src.read(1)
                        if got != data[:bps]:
                            fail(pid, "position", "position = 2 on a closed source, close(), open(): the next read starts at sample %r, expected 0" % (
                                data.index(got) // bps if got else None), fmt=[sr, sw, ch], nsamples=ns)
                        src.close()
                # buffer positions
                for p in range(-ns - 2, ns + 3):
                    for via in ("position", "position_s", "position_ms"):
                        n += 1
                        src = BufferAudioSource(data, sr, sw, ch)
                        src.open()
                        src.read(1)
                        if via == "position":
                            val, tgt = p, p
                        elif via == "position_s":
                            val, tgt = p / sr, int(sr * (p / sr))
                        else:
                            val = int(p * 1000 / sr)
                            tgt = int(sr * val / 1000)
                        ok = -ns <= tgt <= ns
                        try:
                            setattr(src, via, val)
                            if not ok:
                                fail(pid, "position", "%s=%r accepted on %d samples" % (via, val, ns), fmt=[sr, sw, ch])
                        except IndexError:
                            if ok:
                                fail(pid, "position", "%s=%r raised IndexError on %d samples" % (via, val, ns), fmt=[sr, sw, ch])
                            continue
                        start = tgt if tgt >= 0 else ns + tgt
                        got = src.read(2)
                        exp = data[start * bps:(start + 2) * bps] or None
                        if got != exp or (src.position != min(ns, start + 2)):
                            fail(pid, "position", "after %s=%r the next read does not start at sample %d" % (via, val, start), fmt=[sr, sw, ch], nsamples=ns)
                        src.rewind()
                        if src.position != 0:
                            fail(pid, "position", "rewind() leaves position %r" % src.position, fmt=[sr, sw, ch])
                        src.read(1); src.close(); src.open()
                        if src.position != 0 or src.read(1) != (data[:bps] or None):
                            fail(pid, "position", "close()/open() does not restart at the beginning", fmt=[sr, sw, ch], nsamples=ns)
                if time.time() - t0 > budget:
                    return n
    finally:
        for f in os.listdir(tmp):
            os.remove(os.path.join(tmp, f))
        os.rmdir(tmp)
    return n


def search_C18(pid, budget):
    from auditok import load, AudioRegion
    from auditok.io import to_file, from_file
    import numpy as np
    n = 0
    t0 = time.time()
    tmp = tempfile.mkdtemp(prefix="c18-")
    try:
        # a name without extension means raw, also when a directory of the path contains a dot
        n += 1
        dotted = os.path.join(tmp, "session.1")
        os.mkdir(dotted)
        try:
            pth = os.path.join(dotted, "clip")
            try:
                AudioRegion(bytes(range(12)), 10, 2, 1).save(pth)
                back = open(pth, "rb").read()
            except Exception as e:  # noqa
                back = "raised %s: %s" % (type(e).__name__, e)
            if back != bytes(range(12)):
                fail(pid, "save", "region.save('<dir with a dot>/clip') (no extension = raw): %r" % (back if isinstance(back, str) else len(back),))
        finally:
            for f in os.listdir(dotted):
                os.remove(os.path.join(dotted, f))
            os.rmdir(dotted)
        # load(skip, max_read) far into a long input (hundreds of thousands of samples), several sample sizes
        for (sr_, sw_, ch_, skip_, mr_) in ((16000, 2, 1, 5.0, 0.01), (16000, 2, 2, 4.5, 0.002), (44100, 1, 2, 3.0, 0.001), (8000, 4, 1, 9.0, 0.01)):
            n += 1
            ns_ = int(sr_ * (skip_ + 1))
            big = bytes((i * 131 + (i >> 7)) % 256 for i in range(ns_ * sw_ * ch_))
            try:
                rg = load(big, sr=sr_, sw=sw_, ch=ch_, skip=skip_, max_read=mr_)
                got_ = bytes(rg)
            except Exception as e:  # noqa
                got_ = "raised %s" % type(e).__name__
            a_ = round(skip_ * sr_) * sw_ * ch_
            exp_ = big[a_: a_ + round(mr_ * sr_) * sw_ * ch_]
            if got_ != exp_:
                off = big.find(got_) // (sw_ * ch_) if isinstance(got_, bytes) and got_ else None
                fail(pid, "load-skip-far", "load(%d samples of %d-byte x %d-channel audio at %d Hz, skip=%r, max_read=%r): slice starts at sample %r, "
                     "expected %d" % (ns_, sw_, ch_, sr_, skip_, mr_, off, round(skip_ * sr_)))
        # exists_ok=False refuses to overwrite whatever the format (wav, raw by extension, raw by default, explicit format)
        for nm_, fmt_ in (("keep.wav", None), ("keep.raw", None), ("keep_noext", None), ("keep.bin", "raw")):
            n += 1
            pk = os.path.join(tmp, nm_)
            open(pk, "wb").write(b"precious")
            try:
                AudioRegion(bytes(range(12)), 10, 2, 1).save(pk, fmt_, exists_ok=False)
                refused = False
            except FileExistsError:
                refused = True
            if not refused or open(pk, "rb").read() != b"precious":
                fail(pid, "save-exists", "save(%r, audio_format=%r, exists_ok=False) over an existing file: refused=%r, file now %d bytes" % (
                    nm_, fmt_, refused, len(open(pk, "rb").read())))
        # saving over an existing, longer file replaces it
        for fmt in ("raw", "wav"):
            n += 1
            p = os.path.join(tmp, "over." + fmt)
            AudioRegion(bytes(range(40)), 10, 2, 1).save(p)
            short = bytes(range(100, 112))
            AudioRegion(short, 10, 2, 1).save(p)
            back = load(p, sr=10, sw=2, ch=1)
            if bytes(back) != short:
                fail(pid, "save", "a 6-sample region saved over an existing 20-sample %s file reads back as %d bytes, expected 12" % (
                    fmt, len(bytes(back))))
        # lazily loaded raw input that arrives in several pieces (named pipe): skip / max_read select the same samples
        import threading
        n += 1
        fdir = tempfile.mkdtemp(prefix="c18f-")
        fp = os.path.join(fdir, "in.raw")
        os.mkfifo(fp)
        whole = bytes((i * 7 + 5) % 256 for i in range(2000))

        def feed():
            with open(fp, "wb", buffering=0) as f:
                f.write(whole[:200])
                time.sleep(0.3)
                f.write(whole[200:])
        th = threading.Thread(target=feed, daemon=True)
        th.start()
        try:
            got = bytes(load(fp, skip=25, max_read=30, sr=10, sw=2, ch=1, large_file=True, audio_format="raw"))
        except Exception as e:  # noqa
            got = "raised %s" % type(e).__name__
        th.join(5)
        os.remove(fp)
        os.rmdir(fdir)
        if got != whole[500:1100]:
            fail(pid, "load", "load(skip=25 s, max_read=30 s, large_file=True) from a raw named pipe fed in two pieces: %s, expected the "
                 "600 bytes of samples [250, 550)" % (got if isinstance(got, str) else "%d bytes starting at sample %s" % (
                     len(got), whole.find(got[:8]) // 2 if got else None)))
        for sr, sw, ch in ((10, 2, 1), (16, 1, 2), (8000, 4, 3), (11025, 2, 2)):
            bps = sw * ch
            for ns in (0, 1, 7, 20):
                data = bytes((i * 11 + 3) % 256 for i in range(ns * bps))
                reg = AudioRegion(data, sr, sw, ch, start=1.5)
                for fmt in ("wav", "raw"):
                    for how in ("to_file", "save", "save-placeholders", "save-format-arg"):
                        n += 1
                        p = os.path.join(tmp, "f_%d.%s" % (n, fmt))
                        if how == "to_file":
                            to_file(data, p, sr=sr, sw=sw, ch=ch)
                        elif how == "save":
                            reg.save(p)
                        elif how == "save-format-arg":
                            p = os.path.join(tmp, "g_%d" % n)
                            reg.save(p, audio_format=fmt)
                        else:
                            tpl = os.path.join(tmp, "r_%d_{start:.2f}_{end:.2f}_{duration:.3f}.%s" % (n, fmt))
                            p = reg.save(tpl)
                            expn = tpl.format(start=reg.start, end=reg.end, duration=reg.duration)
                            if p != expn or not os.path.exists(expn):
                                fail(pid, "save", "placeholder file name %r, expected %r" % (p, expn))
                            try:
                                reg.save(tpl, exists_ok=False)
                                fail(pid, "save", "exists_ok=False overwrote %r" % expn)
                            except FileExistsError:
                                pass
                        for lazy in (False, True):
                            kw = {} if fmt == "wav" else dict(sr=sr, sw=sw, ch=ch)
                            if how == "save-format-arg":
                                kw["audio_format"] = fmt
                            r = load(p, large_file=lazy, **kw)
                            if bytes(r) != data or (r.sr, r.sw, r.ch) != (sr, sw, ch):
                                fail(pid, "roundtrip", "%s %s lazy=%r: %d bytes back, format %r" % (fmt, how, lazy, len(bytes(r)), (r.sr, r.sw, r.ch)),
                                     fmt=[sr, sw, ch], nsamples=ns)
                            for skip, mr in ((0, None), (0.1, None), (0.1, 0.3), (0.04, 0.04), (0.05, 0.049), (2.5, 1), (0, 0), (0.31, 10),
                                             (0.00004, 0.2), (0.5 / sr, 1.5 / sr), (ns / sr, None), (0, -1)):
                                n += 1
                                a = round(skip * sr)
                                allv = mr is None or mr < 0
                                b = None if allv else a + round(mr * sr)
                                exp = b"".join([data[i * bps:(i + 1) * bps] for i in range(ns)][a:b])
                                try:
                                    got = bytes(load(p, skip=skip, max_read=mr, large_file=lazy, **kw))
                                except Exception as e:  # noqa
                                    fail(pid, "load", "load(skip=%r,max_read=%r,lazy=%r) raised %s" % (skip, mr, lazy, type(e).__name__),
                                         fmt=[sr, sw, ch], nsamples=ns, file=fmt)
                                if got != exp:
                                    fail(pid, "load", "load(skip=%r,max_read=%r,lazy=%r) gives %d bytes, slice has %d" % (
                                        skip, mr, lazy, len(got), len(exp)), fmt=[sr, sw, ch], nsamples=ns, file=fmt)
                if ns:
                    arr = reg.numpy()
                    dt = {1: "<i1", 2: "<i2", 4: "<i4"}[sw]
                    ref = np.frombuffer(data, dtype=dt).reshape(ns, ch).T
                    n += 1
                    if arr.shape != (ch, ns) or not (arr == ref).all():
                        fail(pid, "numpy", "numpy export differs from signed little-endian decode", fmt=[sr, sw, ch], nsamples=ns)
                    arr /= 3.0
                    arr -= 1
                    again = np.asarray(reg)
                    if again.shape != (ch, ns) or not (again == ref).all():
                        fail(pid, "numpy", "a second export after modifying the first one in place no longer holds the sample values",
                             fmt=[sr, sw, ch], nsamples=ns)
                if time.time() - t0 > budget:
                    return n
    finally:
        for f in os.listdir(tmp):
            os.remove(os.path.join(tmp, f))
        os.rmdir(tmp)
    return n


SEARCH = {"C05": search_C05_C06, "C06": search_C05_C06, "C07": search_C07, "C09": search_C09, "C10": search_C10_C19,
          "C19": search_C10_C19, "C11": search_C11, "C18": search_C18}


def run(pid, budget):
    try:
        n = SEARCH[pid](pid, budget)
        return None, n
    except Fail as f:
        return f.w, 1


if __name__ == "__main__":
    import warnings
    warnings.simplefilter("ignore")
    cmd = sys.argv[1]
    if cmd == "search":
        pid = sys.argv[2]
        budget = float(sys.argv[3]) if len(sys.argv) > 3 else 60
        w, n = run(pid, budget)
        print(json.dumps({"witness": w, "evaluated": n}, default=str))
    else:
        w = json.loads(sys.argv[2])
        w2, n = run(w["pid"], 300)
        print("stored witness: %s" % json.dumps(w))
        if w2 is None:
            print("property %s holds on the witness' search space on the current tree (%d cases)" % (w["pid"], n))
            sys.exit(0)
        print("expected: property %s holds; observed on the current tree: %s" % (w["pid"], json.dumps(w2, default=str)))
        sys.exit(1)

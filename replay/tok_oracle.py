#!/venv/bin/python
"""Executable statement-level oracles for C01-C04, C08, C20 run against the REAL
StreamTokenizer (PYTHONPATH must point at the tree under test).

Used only to turn a failed obligation into a concrete public-API witness
(`search`) and to re-run a stored witness (`replay`).  It is not a decision
procedure for any property.
"""
import itertools
import json
import sys
import time


def load():
    from auditok.core import StreamTokenizer
    from auditok.util import StringDataSource, DataSource
    return StreamTokenizer, StringDataSource, DataSource


def mk(ST, p):
    return ST(str.isupper, p["m"], p["M"], p["s"], p.get("i0", 0), p.get("ims", 0), p.get("mode", 0))


def toks(ST, SDS, p, stream):
    return mk(ST, p).tokenize(SDS(stream))


def runs(stream):
    r, out = 0, []
    for c in stream:
        r = 0 if c.isupper() else r + 1
        out.append(r)
    return out


def falsy_variant(p, stream, tk):
    """The same stream with integer frames where every invalid frame is the falsy value 0: same token positions."""
    ST, SDS, DS = load()

    class Ints(DS):
        def __init__(self, s):
            self.fr, self.i = [2 if c.isupper() else 0 for c in s], 0

        def read(self):
            if self.i >= len(self.fr):
                return None
            self.i += 1
            return self.fr[self.i - 1]
    try:
        t = ST(lambda x: x == 2, p["m"], p["M"], p["s"], p.get("i0", 0), p.get("ims", 0), p.get("mode", 0))
        got = [(list(d), a, b) for d, a, b in t.tokenize(Ints(stream))]
    except Exception as e:  # noqa
        return "tokenize on integer frames (0 = invalid) raised %s" % type(e).__name__
    exp = [([2 if c.isupper() else 0 for c in d], a, b) for d, a, b in tk]
    if got != exp:
        return "with integer frames (invalid frame = 0) the tokens are %r, expected %r" % (got[:3], exp[:3])
    return None


def check_C01(p, stream, tk):
    r0 = falsy_variant(p, stream, tk)
    if r0:
        return r0
    # the same stream once more with multi-character frames ("every frame type")
    ST, SDS, DS = load()

    class Wide(DS):
        def __init__(self, s):
            self.fr, self.i = [c * 2 for c in s], 0

        def read(self):
            if self.i >= len(self.fr):
                return None
            self.i += 1
            return self.fr[self.i - 1]
    try:
        wide = mk(ST, p).tokenize(Wide(stream))
        exp = [([c * 2 for c in d], a, b) for d, a, b in tk]
        if [(list(d), a, b) for d, a, b in wide] != exp:
            return "with 2-character frames the tokens are %r, expected %r" % ([(list(d), a, b) for d, a, b in wide][:3], exp[:3])
    except Exception as e:  # noqa
        return "tokenize on 2-character frames raised %s" % type(e).__name__
    prev_end = -1
    for d, a, b in tk:
        if not (0 <= a <= b < len(stream)):
            return "token (%d,%d) out of range for stream of %d frames" % (a, b, len(stream))
        if b - a + 1 != len(d):
            return "token (%d,%d) has %d frames" % (a, b, len(d))
        if list(d) != list(stream[a:b + 1]):
            return "token (%d,%d) frames %r are not stream[%d:%d]=%r" % (a, b, "".join(d), a, b + 1, stream[a:b + 1])
        if a <= prev_end:
            return "token (%d,%d) overlaps / precedes previous end %d" % (a, b, prev_end)
        prev_end = b
    return None


def check_C02(p, stream, tk):
    strict = bool(p.get("mode", 0) & 2)
    prev = None
    for d, a, b in tk:
        L = len(d)
        if L > p["M"]:
            return "token (%d,%d) has %d frames > max_length %d" % (a, b, L, p["M"])
        if L < p["m"]:
            if strict:
                return "strict mode delivered token (%d,%d) shorter than min_length %d" % (a, b, p["m"])
            if prev is None or len(prev[0]) != p["M"] or a != prev[2] + 1:
                return "token (%d,%d) shorter than min_length %d is not the remainder of a cut token" % (a, b, p["m"])
        prev = (d, a, b)
    return None


def check_C03(p, stream, tk):
    sp = max(p["s"], 0)
    bnd = sp if p.get("i0", 0) <= 1 else max(sp, max(p.get("ims", 0), 0))
    drop = bool(p.get("mode", 0) & 4)
    rr = runs(stream)
    prev = None
    for d, a, b in tk:
        cont = prev is not None and len(prev[0]) == p["M"] and a == prev[2] + 1
        for k in range(a, b + 1):
            if rr[k] > bnd:
                return "token (%d,%d) contains a silent run of %d > %d ending at frame %d" % (a, b, rr[k], bnd, k)
        if not any(c.isupper() for c in stream[a:b + 1]):
            return "token (%d,%d) has no valid frame" % (a, b)
        if not stream[a].isupper() and not cont:
            return "token (%d,%d) begins with an invalid frame and is not a continuation" % (a, b)
        if drop and len(d) < p["M"] and not stream[b].isupper():
            return "token (%d,%d) not cut at max_length ends with an invalid frame in drop mode" % (a, b)
        prev = (d, a, b)
    return None


def spec_C04(p, stream):
    """Declarative greedy segmentation (init_min <= 1)."""
    m, M, sp = p["m"], p["M"], max(p["s"], 0)
    strict = bool(p.get("mode", 0) & 2)
    drop = bool(p.get("mode", 0) & 4)
    N = len(stream)
    V = [c.isupper() for c in stream]
    rr = runs(stream)
    ext, S, ps = [False] * N, [0] * N, [0] * N
    for k in range(N):
        pe = k > 0 and ext[k - 1]
        ext[k] = V[k] or (pe and rr[k] <= sp)
        S[k] = S[k - 1] if pe else k
        ps[k] = ps[k - 1] if (pe and k - ps[k - 1] < M) else k
    out = []
    for k in range(N + 1):
        if k < N and ext[k] and k - ps[k] + 1 == M:
            out.append((ps[k], k))
            continue
        if (k == N or not ext[k]) and k > 0 and ext[k - 1]:
            pp = ps[k - 1]
            t = rr[k - 1]
            if k - pp < M and t < k - pp:
                e = k - 1 - t if drop else k - 1
                L = e - pp + 1
                if L >= m or (not strict and pp != S[k - 1]):
                    out.append((pp, e))
    return out


def same_content_variant(p, stream, tk):
    """All frames have the same content; validity is scripted per position (a validator with memory): same positions."""
    ST, SDS, DS = load()

    class Same(DS):
        def __init__(self, n):
            self.n, self.i = n, 0

        def read(self):
            if self.i >= self.n:
                return None
            self.i += 1
            return "x"
    verdicts = iter([c.isupper() for c in stream])
    try:
        t = ST(lambda fr: next(verdicts), p["m"], p["M"], p["s"], p.get("i0", 0), p.get("ims", 0), p.get("mode", 0))
        got = [(a, b) for d, a, b in t.tokenize(Same(len(stream)))]
    except Exception as e:  # noqa
        return "tokenize on identical frames with a scripted validator raised %s" % type(e).__name__
    if got != [(a, b) for d, a, b in tk]:
        return "identical frames, validity scripted per position: tokens at %r, expected %r (the validator is consulted once per frame, " \
               "for that frame)" % (got[:4], [(a, b) for d, a, b in tk][:4])
    return None


def check_C04(p, stream, tk):
    r0 = falsy_variant(p, stream, tk) or same_content_variant(p, stream, tk)
    if r0:
        return r0
    if p.get("i0", 0) > 1:
        return None
    exp = spec_C04(p, stream)
    got = [(a, b) for _, a, b in tk]
    if exp != got:
        return "greedy segmentation expects %r, tokenizer delivered %r" % (exp, got)
    return None


def odd_frames_modes(p, stream, tk, ST, DS):
    """Frames of a generic DataSource may be any objects -- here objects that compare equal to everything (None included)
    and whose truth value is False: end of stream is `read() is None`, nothing else, in every delivery mode."""
    class Fr:
        __slots__ = ("v", "k")

        def __init__(self, v, k):
            self.v, self.k = v, k

        def __eq__(self, other):
            return True

        def __ne__(self, other):
            return False

        def __hash__(self):
            return 0

        def __bool__(self):
            return False

    class Src(DS):
        def __init__(self):
            self.i, self.eos = 0, 0

        def read(self):
            if self.i >= len(stream):
                self.eos += 1
                return None
            self.i += 1
            return Fr(stream[self.i - 1].isupper(), self.i - 1)
    exp = [([k for k in range(a, b + 1)], a, b) for _, a, b in tk]
    out = {}
    for how in ("list", "generator", "callback"):
        t = ST(lambda f: f.v, p["m"], p["M"], p["s"], p.get("i0", 0), p.get("ims", 0), p.get("mode", 0))
        src = Src()
        try:
            if how == "list":
                r = t.tokenize(src)
            elif how == "generator":
                r = list(t.tokenize(src, generator=True))
            else:
                r = []
                t.tokenize(src, callback=lambda d, a, b: r.append((d, a, b)))
        except Exception as e:  # noqa
            return "%s mode on frames that compare equal to everything raised %s" % (how, type(e).__name__)
        got = [([f.k for f in d], a, b) for d, a, b in r]
        if got != exp or src.eos != 1:
            return "%s mode on frames that compare equal to everything (and are falsy): tokens %r, end of stream requested %d time(s); " \
                   "expected %r and exactly one request" % (how, got[:3], src.eos, exp[:3])
    return None


def check_C08(p, stream, tk, ST=None, SDS=None, DS=None):
    if ST is not None and DS is not None and len(stream) <= 8:
        r0 = odd_frames_modes(p, stream, tk, ST, DS)
        if r0:
            return r0
    class Src(DS):
        def __init__(self, data):
            self.data, self.i, self.reads, self.eos = data, 0, 0, 0

        def read(self):
            self.reads += 1
            if self.i >= len(self.data):
                self.eos += 1
                return None
            self.i += 1
            return self.data[self.i - 1]
    sp = max(p["s"], 0)
    src = Src(stream)
    got = []
    for d, a, b in mk(ST, p).tokenize(src, generator=True):
        got.append((list(d), a, b))
        cur = src.reads - 1
        if src.eos == 0 and not ((b == cur and len(d) == p["M"]) or 1 <= cur - b <= sp + 1):
            return "token (%d,%d) handed over after %d reads" % (a, b, src.reads)
    if src.eos != 1:
        return "end of stream requested %d times" % src.eos
    lst = [(list(d), a, b) for d, a, b in tk]
    if got != lst:
        return "generator mode %r differs from list mode %r" % (got, lst)
    cb = []
    r = mk(ST, p).tokenize(SDS(stream), callback=lambda d, a, b: cb.append((list(d), a, b)))
    if cb != lst:
        return "callback mode %r differs from list mode %r" % (cb, lst)
    cb2 = []
    mk(ST, p).tokenize(SDS(stream), callback=lambda d, a, b: (cb2.append((list(d), a, b)), len(cb2))[1])
    if cb2 != lst:
        return "callback mode with a callback that returns a count delivers %r, list mode %r" % (cb2, lst)
    # a generator obtained first and drained after the tokenizer was used for something else
    t2 = mk(ST, p)
    g2 = t2.tokenize(SDS(stream), generator=True)
    t2.tokenize(SDS("aAAaAAAAa"))
    late = [(list(d), a, b) for d, a, b in g2]
    if late != lst:
        return "generator drained after another run of the same tokenizer gives %r, list mode %r" % (late[:3], lst[:3])
    whole = [(a, b) for _, a, b in tk]
    for cut in range(len(stream)):
        pre = [(a, b) for _, a, b in toks(ST, SDS, p, stream[:cut])]
        ok = pre == [t for t in whole if t[1] < cut][:len(pre)] and len(pre) <= len(whole)
        if pre and not ok:
            # last token may be a shorter version of the corresponding one
            head, last = pre[:-1], pre[-1]
            if head == whole[:len(head)] and len(whole) > len(head) and whole[len(head)][0] == last[0] \
                    and whole[len(head)][1] >= last[1]:
                ok = True
        if not ok:
            return "prefix of %d frames gives %r, whole stream gives %r" % (cut, pre, whole)
    return None


def check_C20(p, stream, tk, ST=None, SDS=None, first=None, consume=None):
    fresh = [(list(d), a, b) for d, a, b in tk]
    t = mk(ST, p)
    if consume is None:
        t.tokenize(SDS(first))
    else:
        g = t.tokenize(SDS(first), generator=True)
        for _ in range(consume):
            try:
                next(g)
            except StopIteration:
                break
    if consume is not None and consume >= 1:
        # the abandoned generator of the earlier use is closed while the new run is in progress
        t3 = mk(ST, p)
        g1 = t3.tokenize(SDS(first), generator=True)
        for _ in range(consume):
            try:
                next(g1)
            except StopIteration:
                break
        g2 = t3.tokenize(SDS(stream), generator=True)
        got3 = []
        try:
            got3.append(next(g2))
        except StopIteration:
            pass
        g1.close()
        got3 += list(g2)
        got3 = [(list(d), a, b) for d, a, b in got3]
        if got3 != fresh:
            return "earlier generator on %r (consumed=%r) closed after the first token of the new run: the new run gives %r, a fresh " \
                   "tokenizer %r" % (first, consume, got3, fresh)
    again = [(list(d), a, b) for d, a, b in t.tokenize(SDS(stream))]
    if again != fresh:
        return "after an earlier run on %r (consumed=%r) the tokenizer gives %r, a fresh one %r" % (
            first, consume, again, fresh)
    if consume is None:
        # the earlier complete run delivered through a callback; every mode of the next run still equals a fresh tokenizer
        t4 = mk(ST, p)
        stray = []
        t4.tokenize(SDS(first), callback=lambda *tok: stray.append(tok))
        n0 = len(stray)
        r_list = t4.tokenize(SDS(stream))
        r_gen = list(t4.tokenize(SDS(stream), generator=True))
        for nm, r in (("list", r_list), ("generator", r_gen)):
            got = [(list(d), a, b) for d, a, b in (r or [])]
            if got != fresh or len(stray) != n0:
                return "after an earlier run on %r delivered through a callback, %s mode gives %r (the old callback received %d more token(s)), " \
                       "a fresh tokenizer gives %r" % (first, nm, got, len(stray) - n0, fresh)
    return None


def grid(quick=True):
    for M in (1, 2, 3, 4):
        for m in range(0, M + 1):          # min_length 0 is rejected by a correct constructor (skipped by the search then)
            for s in range(-1, M):
                for mode in (0, 2, 4, 6):
                    for i0, ims in ((0, 0), (2, 1), (3, 2), (2, 0), (1, 2), (0, 2)):
                        if i0 >= M:
                            continue
                        yield {"m": m, "M": M, "s": s, "i0": i0, "ims": ims, "mode": mode}


def ctor_check(ST):
    for M in range(-1, 4):
        for m in range(-1, 5):
            for s in range(-1, 5):
                for i0 in range(-1, 5):
                    for mode in range(-1, 9):
                        rej = M <= 0 or m <= 0 or m > M or s >= M or i0 >= M or mode not in (0, 2, 4, 6)
                        other = None
                        try:
                            ST(str.isupper, m, M, s, i0, 0, mode)
                            got = False
                        except ValueError:
                            got = True
                        except Exception as e:  # noqa   (rejected, but not "with ValueError")
                            got, other = None, type(e).__name__
                        if got != rej:
                            return {"kind": "tokenizer-ctor", "args": [m, M, s, i0, 0, mode],
                                    "expected": "ValueError" if rej else "accepted",
                                    "observed": other or ("ValueError" if got else "accepted")}
    return None


def reused(ST, SDS, p, first, consume):
    t = mk(ST, p)
    if consume is None:
        t.tokenize(SDS(first))
    else:
        g = t.tokenize(SDS(first), generator=True)
        for _ in range(consume):
            try:
                next(g)
            except StopIteration:
                break
    return t


def evaluate(pid, p, stream, ST, SDS, DS, extra=None):
    try:
        if extra and "first" in extra and pid != "C20":
            # the property must also hold for a tokenizer that was used before
            if extra.get("consume") == "close-earlier":
                # an earlier generator of the same tokenizer, partly consumed, is closed while the new run is in progress
                t = mk(ST, p)
                g1 = t.tokenize(SDS(extra["first"]), generator=True)
                try:
                    next(g1)
                except StopIteration:
                    pass
                g2 = t.tokenize(SDS(stream), generator=True)
                tk = []
                try:
                    tk.append(next(g2))
                except StopIteration:
                    pass
                g1.close()
                tk += list(g2)
            elif extra.get("consume") == "late":
                # generator obtained first, tokenizer used on another stream, generator drained afterwards
                t = mk(ST, p)
                g = t.tokenize(SDS(stream), generator=True)
                t.tokenize(SDS(extra["first"]))
                tk = list(g)
            elif extra.get("consume") is None:
                # a complete earlier run in list mode: its result, still held by the caller, is not disturbed by the new run
                # (in list, generator or callback mode), and the callback of an earlier run receives nothing of a later one
                t = mk(ST, p)
                first_tk = t.tokenize(SDS(extra["first"]))
                snap = [(list(d), a, b) for d, a, b in first_tk]
                stray = []
                t.tokenize(SDS(extra["first"]), callback=lambda *tok: stray.append(tok))
                n_stray = len(stray)
                tk = t.tokenize(SDS(stream))
                for how in ("generator", "callback"):
                    if how == "generator":
                        list(t.tokenize(SDS(stream), generator=True))
                    else:
                        t.tokenize(SDS(stream), callback=lambda *tok: None)
                if [(list(d), a, b) for d, a, b in first_tk] != snap:
                    return "the token list returned by an earlier run on %r changed while the tokenizer processed another stream: %r, was %r" % (
                        extra["first"], [(("".join(map(str, d))), a, b) for d, a, b in first_tk][:3], [("".join(map(str, d)), a, b) for d, a, b in snap][:3])
                if len(stray) != n_stray:
                    return "the callback of an earlier run received %d token(s) of a later list-mode run" % (len(stray) - n_stray)
                if tk is None or not isinstance(tk, list):
                    return "list mode returned %r" % (tk,)
            else:
                tk = reused(ST, SDS, p, extra["first"], extra.get("consume")).tokenize(SDS(stream))
        else:
            tk = toks(ST, SDS, p, stream)
    except Exception as e:  # noqa
        return "tokenize raised %s: %s" % (type(e).__name__, e)
    try:
        if pid == "C01":
            return check_C01(p, stream, tk)
        if pid == "C02":
            return check_C02(p, stream, tk)
        if pid == "C03":
            return check_C03(p, stream, tk)
        if pid == "C04":
            return check_C04(p, stream, tk)
        if pid == "C08":
            return check_C08(p, stream, tk, ST, SDS, DS)
        if pid == "C20":
            return check_C20(p, stream, tk, ST, SDS, extra["first"], extra.get("consume"))
    except Exception as e:  # noqa
        return "oracle evaluation raised %s: %s" % (type(e).__name__, e)
    return None


def evaluate_fault(pid, p, stream, k, how, ST, DS):
    """The source raises OSError on its (k+1)-th read call (once) and would carry on if asked again.  Whatever the
    tokenizer hands over -- before the error escapes, or afterwards if it swallows it -- are tokens of the frames the
    source actually returned: same clauses, positions counted in returned frames."""
    class Faulty(DS):
        def __init__(self):
            self.i, self.calls, self.returned, self.failed = 0, 0, [], False

        def read(self):
            self.calls += 1
            if self.calls == k + 1 and not self.failed:
                self.failed = True
                raise OSError(-9981, "Input overflowed")
            if self.i >= len(stream):
                return None
            self.i += 1
            self.returned.append(stream[self.i - 1])
            return self.returned[-1]
    src = Faulty()
    got = []
    try:
        t = mk(ST, p)
        if how == "callback":
            t.tokenize(src, callback=lambda d, a, b: got.append((list(d), a, b)))
        else:
            for d, a, b in t.tokenize(src, generator=True):
                got.append((list(d), a, b))
    except OSError:
        pass
    except Exception as e:  # noqa
        return "tokenize on a source whose read() fails once raised %s: %s" % (type(e).__name__, e)
    ret = "".join(src.returned)
    pre = "source failing on read call %d (%s mode), frames returned %r: " % (k + 1, how, ret)
    prev_end = -1
    for d, a, b in got:
        if not (isinstance(a, int) and isinstance(b, int) and 0 <= a <= b < len(ret)) or b - a + 1 != len(d) \
                or list(d) != list(ret[a:b + 1]) or a <= prev_end:
            return pre + "delivered token (%r, %r, %r) is not the frames at those positions, in order" % ("".join(map(str, d)), a, b)
        prev_end = b
    r = check_C02(p, ret, got) if pid == "C02" else check_C03(p, ret, got) if pid == "C03" else None
    if r:
        return pre + r
    if p.get("i0", 0) <= 1 and pid in ("C04", "C08", "C20"):
        spec = list(spec_C04(p, ret))
        gp = [(a, b) for _, a, b in got]
        if gp != spec[:len(gp)]:
            return pre + "delivered %r are not the first tokens of the segmentation %r of the returned frames" % (gp[:4], spec[:4])
    return None


    return None



def evaluate_retuned(pid, p0, p, stream, ST, SDS, DS):
    """A tokenizer built with parameters p0 whose PUBLIC parameter attributes are then set to p's values: the parameters
    in force are p (the tokenizer reads them when it runs), so every clause holds with p."""
    try:
        t = mk(ST, p0)
        t.min_length, t.max_length, t.max_continuous_silence = p["m"], p["M"], p["s"]
        t.init_min = p.get("i0", 0)
        t.init_max_silent = p.get("ims", 0)
        tk = t.tokenize(SDS(stream))
    except Exception as e:  # noqa
        return "tokenize raised %s: %s" % (type(e).__name__, e)
    chk = {"C01": check_C01, "C02": check_C02, "C03": check_C03, "C04": check_C04}.get(pid)
    if chk is None:
        if p.get("i0", 0) <= 1 and [(a, b) for _, a, b in tk] != list(spec_C04(p, stream)):
            return "tokens %r are not the segmentation %r for the parameters in force" % ([(a, b) for _, a, b in tk][:4], spec_C04(p, stream)[:4])
        return None
    return chk(p, stream, tk)



def pre_check(pid):
    """Library-level sentences of C08 / C20 that are not about StreamTokenizer alone."""
    import auditok
    from auditok import AudioReader, BufferAudioSource, split
    from auditok.util import AudioEnergyValidator
    loud, quiet = b"\x10\x27" * 10, bytes(20)
    sig = quiet * 3 + loud * 5 + quiet * 4 + loud * 6 + quiet * 3
    kw = dict(min_dur=0.02, max_dur=0.2, max_silence=0.01, energy_threshold=50)
    desc = lambda regs: [(round(r.start * 1000), bytes(r)) for r in regs]
    if pid == "C08":
        class Counting(BufferAudioSource):
            asked = 0

            def read(self, size):
                Counting.asked += size if size and size > 0 else 0
                return BufferAudioSource.read(self, size)
        for nblocks in (4, 9, 13):
            Counting.asked = 0
            src = Counting(sig, 1000, 2, 1)
            rd = AudioReader(src, block_dur=0.01, max_read=nblocks * 0.01)
            rd.open()
            nreg = 0
            for r in split(rd, **kw):
                nreg += 1
                if Counting.asked > nblocks * 10:
                    return "split(max_read=%r): %d samples requested from the input when region %d was yielded, the limit is %d" % (
                        nblocks * 0.01, Counting.asked, nreg, nblocks * 10)
            if Counting.asked > nblocks * 10:
                return "split(max_read=%r): %d samples requested from the input in total, the limit is %d" % (
                    nblocks * 0.01, Counting.asked, nblocks * 10)
        # a pathlib.Path input with large_file=True is read lazily: the first region arrives before the producer is done
        import os as _os, tempfile as _tf, threading as _th, pathlib as _pl
        dd = _tf.mkdtemp(prefix="c08p-")
        fp = _os.path.join(dd, "live.raw")
        _os.mkfifo(fp)
        got_first = _th.Event()
        state = {"written_at_first": None, "written": 0}

        def feed():
            with open(fp, "wb", buffering=0) as f:
                for i in range(0, 240, 20):
                    f.write(sig[i:i + 20])
                    state["written"] += 20
                got_first.wait(3)
                f.write(sig[240:])
                state["written"] = len(sig)
        th = _th.Thread(target=feed, daemon=True)
        th.start()
        try:
            for r in split(_pl.Path(fp), sr=1000, sw=2, ch=1, large_file=True, audio_format="raw", analysis_window=0.01, **kw):
                if state["written_at_first"] is None:
                    state["written_at_first"] = state["written"]
                    got_first.set()
        finally:
            got_first.set()
            th.join(5)
            _os.remove(fp)
            _os.rmdir(dd)
        if state["written_at_first"] is None or state["written_at_first"] >= len(sig):
            return "split(Path(named pipe), large_file=True): the first region was yielded only after the producer had written all %d " \
                   "bytes (the whole input was loaded before anything was yielded)" % len(sig)
        # end of stream is requested from the input exactly once, also when the last window is a partial one
        class CountNone(BufferAudioSource):
            nones = 0

            def read(self, size):
                r = BufferAudioSource.read(self, size)
                if r is None:
                    CountNone.nones += 1
                return r
        for extra in (0, 6):
            CountNone.nones = 0
            src = CountNone(sig + b"\x10\x27" * (extra // 2), 1000, 2, 1)
            rd = AudioReader(src, block_dur=0.01)
            rd.open()
            list(split(rd, **kw))
            if CountNone.nones != 1:
                return "split() on an input of %d samples (window 10): end of stream requested %d times from the input" % (
                    (len(sig) + extra) // 2, CountNone.nones)
        # overlapping windows: when a region is yielded the input has not been asked for more than the window
        # that decides it
        for hop in (0.005, 0.002):
            Counting.asked = 0
            src = Counting(sig, 1000, 2, 1)
            rd = AudioReader(src, block_dur=0.01, hop_dur=hop)
            rd.open()
            H = int(hop * 1000)
            for r in split(rd, min_dur=0.02, max_dur=0.2, max_silence=0.01, energy_threshold=50):
                first_win = round(r.start * 100)       # start is reported in units of the 10 ms window duration
                nwin = len(r) // 10                    # a region is the concatenation of its (overlapping) windows
                deciding_max = first_win + nwin        # the window after the region's last one (tolerated silence is inside)
                if Counting.asked > 10 + deciding_max * H:
                    return "split() on overlapping windows (hop %r): %d samples requested from the input when the region at %r " \
                           "was yielded; the window deciding it ends at sample %d at the latest" % (
                               hop, Counting.asked, r.start, 10 + deciding_max * H)
                break
        return None
    if pid == "C20":
        data = bytes(range(1, 41))
        src = BufferAudioSource(data, 10, 2, 1)
        for upto in (3, None, "past-the-end"):
            src.open()
            first = src.read(4)
            if upto == "past-the-end":
                while src.read(5) is not None:      # until the source itself says nothing is left
                    pass
                src.read(1)
            else:
                src.read(upto)
            src.close()
            src.open()
            again = src.read(4)
            src.close()
            if first != data[:8] or again != first:
                return "BufferAudioSource close()/open() after reading: next read gives %r, expected %r" % (again, data[:8])
        kw["analysis_window"] = 0.01
        ref = desc(split(sig, sr=1000, sw=2, ch=1, **kw))
        for what, mkin in (("bytes", lambda: sig), ("region", lambda: auditok.AudioRegion(sig, 1000, 2, 1))):
            x = mkin()
            for k in range(3):
                got = desc(split(x, sr=1000, sw=2, ch=1, **kw)) if what == "bytes" else desc(split(x, **kw))
                if got != ref:
                    return "splitting the same %s, time %d: %d regions, first time %d" % (what, k + 1, len(got), len(ref))
        rec = AudioReader(sig, block_dur=0.01, record=True, sr=1000, sw=2, ch=1)
        rec.open()
        for k, prep in enumerate((lambda: None, rec.rewind, rec.rewind, lambda: (rec.rewind(), rec.close(), rec.open()), rec.rewind)):
            prep()
            got = desc(split(rec, **{k_: v_ for k_, v_ in kw.items() if k_ != "analysis_window"}))
            if got != ref:
                return "recorder split number %d (after rewind%s): %d regions, expected %d" % (
                    k + 1, "/close/open" if k == 3 else "", len(got), len(ref))
        # a recorder whose max_read is longer than the stream: end of stream reached, rewound, split again
        for mr in (5, 1.5):
            rec = AudioReader(sig, block_dur=0.01, record=True, max_read=mr, sr=1000, sw=2, ch=1)
            rec.open()
            for k in range(3):
                got = desc(split(rec, **{k_: v_ for k_, v_ in kw.items() if k_ != "analysis_window"}))
                if got != ref:
                    return "recorder with max_read=%r (longer than the stream), split number %d: %d regions, expected %d" % (
                        mr, k + 1, len(got), len(ref))
                rec.rewind()
        # a two-channel recorder keeps its format across rewinds
        st_sig = b"".join(sig[i:i + 2] * 2 for i in range(0, len(sig), 2))
        ref2 = [(round(r.start * 1000), r.ch, bytes(r)) for r in split(st_sig, sr=1000, sw=2, ch=2, **kw)]
        rec = AudioReader(st_sig, block_dur=0.01, record=True, sr=1000, sw=2, ch=2)
        rec.open()
        for k in range(3):
            got = [(round(r.start * 1000), r.ch, bytes(r)) for r in split(rec, **{k_: v_ for k_, v_ in kw.items() if k_ != "analysis_window"})]
            if got != ref2:
                return "two-channel recorder, split number %d: %d regions with %r channels, expected %d with 2" % (
                    k + 1, len(got), sorted({g[1] for g in got}), len(ref2))
            rec.rewind()
        # 'mix' selection: the verdict for a short window does not depend on a longer window judged before
        vm = AudioEnergyValidator(50, 2, 2, use_channel="mix")
        loud2, quiet2 = b"\x10\x27" * 40, bytes(16)
        first_v = bool(AudioEnergyValidator(50, 2, 2, use_channel="mix").is_valid(quiet2))
        vm.is_valid(loud2)
        if bool(vm.is_valid(quiet2)) != first_v:
            return "validator(use_channel='mix'): a silent 4-frame window is judged %r after a loud 20-frame window, %r by a fresh " \
                   "validator" % (not first_v, first_v)
        # an overlapping recorder on which a read was refused while closed still replays after rewind / open
        rec = AudioReader(sig, block_dur=0.01, hop_dur=0.005, record=True, sr=1000, sw=2, ch=1)
        rec.open()
        refh = desc(split(rec, **{k_: v_ for k_, v_ in kw.items() if k_ != "analysis_window"}))
        rec.rewind()
        rec.close()
        try:
            rec.read()
        except Exception:  # noqa
            pass
        rec.open()
        goth = desc(split(rec, **{k_: v_ for k_, v_ in kw.items() if k_ != "analysis_window"}))
        if goth != refh:
            return "overlapping recorder: after a read refused on the closed reader, open() and split give %d regions, before %d" % (
                len(goth), len(refh))
        for use in (None, 0):
            v = AudioEnergyValidator(50, 2, 1) if use is None else AudioEnergyValidator(50, 2, 2, use_channel=use)
            w1, w2 = (loud, quiet) if use is None else (loud + loud, quiet + quiet)
            fresh = lambda w: (AudioEnergyValidator(50, 2, 1) if use is None else AudioEnergyValidator(50, 2, 2, use_channel=use)).is_valid(w)
            seq = [w1, w2, w2, w1, w1, w2, w1]
            for i, w in enumerate(seq):
                if bool(v.is_valid(w)) != bool(fresh(w)):
                    return "validator verdict for window %d of %r differs from a fresh validator's" % (i, ["L" if x is w1 else "q" for x in seq])
            buf = bytearray(w1)
            a = bool(v.is_valid(buf))
            buf[:] = w2
            b = bool(v.is_valid(buf))
            if a != bool(fresh(w1)) or b != bool(fresh(w2)):
                return "validator verdicts (%r, %r) for a window buffer refilled in place, a fresh validator gives (%r, %r)" % (
                    a, b, bool(fresh(w1)), bool(fresh(w2)))
        return None
    return None


def big_max_length(ST, SDS):
    """max_length above CPython's small-int cache: a cut on the first tolerated silent frame."""
    for M in (257, 300):
        for s in (1, 2):
            stream = "aa" + "A" * (M - 1) + "a" + "A" * 5 + "aaaa"
            for d, a, b in ST(str.isupper, 1, M, s, 0, 0, 0).tokenize(SDS(stream)):
                if len(d) > M:
                    return {"kind": "tokenizer", "pid": "C02", "params": {"m": 1, "M": M, "s": s, "i0": 0, "ims": 0, "mode": 0},
                            "stream": stream, "observed": "token (%d,%d) has %d frames > max_length %d" % (a, b, len(d), M)}
    return None


def search(pid, budget, maxlen):
    if pid in ("C02", "C06"):
        ST_, SDS_, _ = load()
        wb = big_max_length(ST_, SDS_)
        if wb:
            return wb, 1
    r0 = pre_check(pid)
    if r0:
        return {"kind": "tok-api", "pid": pid, "observed": r0}, 1
    ST, SDS, DS = load()
    t0 = time.time()
    n = 0
    if pid in ("C01", "C02", "C03", "C04", "C08", "C20"):
        # every tokenizer statement is about the tuples the constructor accepts; C02 says which those are
        w = ctor_check(ST)
        if w and pid == "C02":
            return w, 1
        if w and w["observed"] == "accepted":
            # a tuple that should have been rejected: does it make the tokenizer break THIS property?
            m, M, s, i0, ims, mode = w["args"]
            p = {"m": m, "M": M, "s": s, "i0": i0, "ims": ims, "mode": mode}
            for L in range(0, 9):
                for bits in itertools.product("Aa", repeat=L):
                    r = evaluate(pid, p, "".join(bits), ST, SDS, DS,
                                 {"first": "AAAA", "consume": None} if pid == "C20" else None)
                    if r:
                        return {"kind": "tokenizer", "pid": pid, "params": p, "stream": "".join(bits), "observed":
                                "constructor accepts (min_length=%d, max_length=%d, max_continuous_silence=%d, init_min=%d, mode=%d) "
                                "and then: %s" % (m, M, s, i0, mode, r),
                                **({"first": "AAAA", "consume": None} if pid == "C20" else {})}, 1
    params = []
    for p in grid():
        try:
            mk(ST, p)
            params.append(p)
        except ValueError:
            pass            # tuples the constructor rejects are outside every statement but C02's (ctor_check)
    firsts = ("AAAA", "aaAAAAA", "A", "AaA", "AAAAa", "aA", "aaAaA")
    # a source that fails in mid-stream (every tokenizer statement quantifies over the tokens DELIVERED, for every source)
    tf = time.time()
    for L in range(1, 9):
        for bits in itertools.product("Aa", repeat=L):
            stream = "".join(bits)
            for p in params[::3] if L > 6 else params:
                for k in range(L + 1):
                    for how in ("callback", "generator"):
                        n += 1
                        r = evaluate_fault(pid, p, stream, k, how, ST, DS)
                        if r:
                            return {"kind": "tokenizer", "pid": pid, "params": p, "stream": stream, "fault": k, "how": how,
                                    "observed": r}, n
            if time.time() - tf > min(10, budget * 0.2):
                break
        else:
            continue
        break
    for phase in (0, 1):
      for L in range(0, (maxlen if phase == 0 else min(maxlen, 8)) + 1):
        for bits in itertools.product("Aa", repeat=L):
            stream = "".join(bits)
            for p in params:
                if phase == 1 and pid not in ("C20", "C08"):
                    for first in firsts:
                        for consume in (None, 0, 1, "late", "close-earlier"):
                            n += 1
                            ex = {"first": first, "consume": consume}
                            r = evaluate(pid, p, stream, ST, SDS, DS, ex)
                            if r:
                                return {"kind": "tokenizer", "pid": pid, "params": p, "stream": stream,
                                        "first": first, "consume": consume, "observed": r}, n
                    continue
                if phase == 1:
                    continue
                if pid == "C20":
                    for first in ("AAAA", "aaAAAAA", "A", "AaA", "AAAAa", "aA"):
                        for consume in (None, 0, 1):
                            n += 1
                            r = evaluate(pid, p, stream, ST, SDS, DS, {"first": first, "consume": consume})
                            if r:
                                return {"kind": "tokenizer", "pid": pid, "params": p, "stream": stream,
                                        "first": first, "consume": consume, "observed": r}, n
                else:
                    n += 1
                    r = evaluate(pid, p, stream, ST, SDS, DS)
                    if r:
                        return {"kind": "tokenizer", "pid": pid, "params": p, "stream": stream, "observed": r}, n
            if time.time() - t0 > budget * (0.6 if phase == 0 else 1.0):
                break
        else:
            continue
        break
    # last: parameters changed through the public attributes after construction (same mode)
    tr = time.time()
    for L in range(1, 9):
        for bits in itertools.product("Aa", repeat=L):
            stream = "".join(bits)
            for p0 in params[::5]:
                for p in params[::3]:
                    if p.get("mode", 0) != p0.get("mode", 0) or p == p0:
                        continue
                    n += 1
                    r = evaluate_retuned(pid, p0, p, stream, ST, SDS, DS)
                    if r:
                        return {"kind": "tokenizer", "pid": pid, "params": p, "built_with": p0, "stream": stream,
                                "observed": "built with %r, public parameter attributes then set to %r: %s" % (p0, p, r)}, n
            if time.time() - tr > max(8, budget * 0.15):
                break
        else:
            continue
        break
    return None, n


def replay(w):
    ST, SDS, DS = load()
    if w["kind"] == "tokenizer-ctor":
        try:
            ST(str.isupper, *w["args"])
            got = "accepted"
        except ValueError:
            got = "ValueError"
        except Exception as e:  # noqa
            got = type(e).__name__
        print("StreamTokenizer(str.isupper, %s): expected %s, observed %s" % (
            ", ".join(map(str, w["args"])), w["expected"], got))
        return 1 if got != w["expected"] else 0
    if w["kind"] == "tok-api":
        r = pre_check(w["pid"])
        print("property %s, library-level scenario; stored observation: %s" % (w["pid"], w["observed"]))
        if r:
            print("expected: property holds;  observed: " + r)
            return 1
        print("property holds on this scenario")
        return 0
    if "built_with" in w:
        r = evaluate_retuned(w["pid"], w["built_with"], w["params"], w["stream"], ST, SDS, DS)
        print("property %s, StreamTokenizer built with %r, public parameter attributes then set to %r, stream %r" % (
            w["pid"], w["built_with"], w["params"], w["stream"]))
        if r:
            print("expected: property holds;  observed: " + r)
            return 1
        print("property holds on this input")
        return 0
    if "fault" in w:
        r = evaluate_fault(w["pid"], w["params"], w["stream"], w["fault"], w["how"], ST, DS)
        print("property %s, StreamTokenizer%r on stream %r read from a source whose read() raises OSError once (call %d), %s mode" % (
            w["pid"], tuple(w["params"].get(x, 0) for x in ("m", "M", "s", "i0", "ims", "mode")), w["stream"], w["fault"] + 1, w["how"]))
        if r:
            print("expected: property holds;  observed: " + r)
            return 1
        print("property holds on this input")
        return 0
    r = evaluate(w["pid"], w["params"], w["stream"], ST, SDS, DS, w)
    print("property %s, StreamTokenizer(str.isupper, min_length=%d, max_length=%d, max_continuous_silence=%d, "
          "init_min=%d, init_max_silence=%d, mode=%d) on stream %r%s" % (
              w["pid"], w["params"]["m"], w["params"]["M"], w["params"]["s"], w["params"].get("i0", 0),
              w["params"].get("ims", 0), w["params"].get("mode", 0), w["stream"],
              (" after an earlier run on %r (consumed=%r)" % (w.get("first"), w.get("consume"))) if "first" in w else ""))
    if r:
        print("expected: property holds;  observed: " + r)
        return 1
    print("property holds on this input")
    return 0


if __name__ == "__main__":
    cmd = sys.argv[1]
    if cmd == "search":
        pid = sys.argv[2]
        budget = float(sys.argv[3]) if len(sys.argv) > 3 else 60
        maxlen = int(sys.argv[4]) if len(sys.argv) > 4 else 12
        w, n = search(pid, budget, maxlen)
        print(json.dumps({"witness": w, "evaluated": n}))
    elif cmd == "replay":
        w = json.loads(sys.argv[2])
        sys.exit(replay(w))

#!/usr/bin/env python3-vt
"""/verif/check <ID> [--tier quick|thorough] [--replay PATH]

exit 0  every obligation of the property discharged on /repo's current tree
exit 1  an obligation has a counterexample: VIOLATION property=<id> replay=<path>
exit 2  undecided (unknown / timeout on every back end)
exit 3  checker error (unsupported construct, contract drift, vacuity guard)
"""
import argparse
import hashlib
import json
import os
import subprocess
import sys
import time

ROOT = os.path.dirname(os.path.abspath(__file__))
sys.path.insert(0, ROOT)

from props.registry import REGISTRY, COMMON_TRUSTED   # noqa: E402
from pyvc import runner                                # noqa: E402

REPO = os.environ.get("VERIF_REPO", "/repo")
OUT = os.environ.get("VERIF_OUT_DIR", ROOT)       # evidence/ and replays/ go here (scratch runs against a copy of the tree)
VENV_PY = "/venv/bin/python"


def parts_of(spec):
    if "parts" in spec:
        return spec["parts"]
    return [{"module": spec["module"], "units": spec["units"]}]


def run_property(pid, tier):
    import importlib
    spec = REGISTRY[pid]
    second = tier == "thorough"
    records = []
    houdini_log = []
    for part in parts_of(spec):
        mod = importlib.import_module(part["module"])
        hd = getattr(mod, "HOUDINI", None)
        active = list(hd["names"]) if hd else None
        dropped_obs = []
        for it in range(12):
            opts = {"active": active, "tier": tier, "seed": int(os.environ.get("VERIF_SEED", "0"))}
            opts.update(part.get("opts", {}))
            jobs = [(part["module"], u, opts, tier, REPO, second) for u in part["units"]]
            recs = runner.run_units(jobs)
            if not hd:
                break
            failed = set()
            for r in recs:
                for ob in r["obligations"]:
                    if ob["name"].startswith("inv[") and ob["status"] != "unsat":
                        nm = ob["name"][4:ob["name"].index("]")]
                        if nm in active:
                            failed.add(nm)
                            ob2 = dict(ob)
                            ob2["unit"] = r["unit"]
                            ob2["houdini_iteration"] = it
                            dropped_obs.append(ob2)
            if not failed or any(r["error"] for r in recs):
                break
            houdini_log.append({"iteration": it, "dropped": sorted(failed)})
            active = [a for a in active if a not in failed]
        for r in recs:
            r["module"] = part["module"]
            r["include_all"] = bool(part.get("include_all"))
            r["also_tags"] = list(part.get("also_tags", ()))
            r["exclude"] = list(part.get("exclude", ()))
        records.extend(recs)
        if dropped_obs:
            records.append({"unit": "houdini", "title": "invariant conjuncts that are not inductive", "kind": "houdini",
                            "functions": [], "paths": 0, "live_paths": 1, "time": 0, "obligations": dropped_obs,
                            "noops": [], "inlined": [], "contracts_used": [], "lib_used": [], "samples": [],
                            "notes": [], "error": None, "module": part["module"],
                            "also_tags": list(part.get("also_tags", ())), "exclude": list(part.get("exclude", ()))})
    return records, houdini_log


def rel(ob, r, pid):
    """Is obligation `ob` of unit record `r` one of property `pid`'s?  A part of the registry may take all obligations
    of its units (include_all) or those tagged with other properties the statement of `pid` builds on (also_tags)."""
    if any(x in ob["name"] for x in r.get("exclude", ())):
        return False
    return relevant(ob, pid) or bool(r.get("include_all")) or any(t in ob["props"] for t in r.get("also_tags", ()))


def relevant(ob, pid):
    if pid in ob["props"]:
        return True
    if "*" in ob["props"]:
        # an auxiliary (untagged) invariant conjunct that is not inductive is dropped by Houdini; it is not a
        # violation of any property by itself -- a property fails only if one of ITS obligations fails afterwards
        return not (ob["name"].startswith("inv[") and ob.get("houdini_iteration") is not None)
    return False


def _oracle_cmd(kind, pid, budget):
    if kind == "tok":
        return [VENV_PY, os.path.join(ROOT, "replay", "tok_oracle.py"), "search", pid, str(budget), "12"]
    return [VENV_PY, os.path.join(ROOT, "replay", kind + "_oracle.py"), "search", pid, str(budget)]


def witness_search(pid, spec, budget):
    """The property's own executable oracle first; then the oracles of the properties its statement builds on
    (registry `witness_also`: e.g. C15's lines are C12's detections, C08/C20 have split()-level sentences), each
    searching ITS property's scenarios on the same tree.  A witness records which oracle produced it."""
    kind = spec.get("witness")
    if not kind:
        return None, 0, "no witness search available for this property"
    env = dict(os.environ)
    env["PYTHONPATH"] = REPO
    total, log = 0, ""
    for i, (k_, p_) in enumerate([(kind, pid)] + [tuple(x) for x in spec.get("witness_also", ())]):
        b_ = budget if i == 0 else max(15, budget // 2)
        try:
            out = subprocess.run(_oracle_cmd(k_, p_, b_), capture_output=True, text=True, timeout=b_ + 120, env=env, cwd=REPO)
            line = out.stdout.strip().splitlines()[-1] if out.stdout.strip() else ""
            j = json.loads(line)
            total += j.get("evaluated", 0)
            log += out.stderr[-1000:]
            w = j.get("witness")
            if w is not None:
                if i > 0:
                    w["oracle"] = k_
                    w["oracle_pid"] = p_
                    w["note"] = "found by the oracle of %s, on which the statement of %s builds" % (p_, pid)
                return w, total, log
        except Exception as e:  # noqa
            log += "witness search (%s oracle) failed: %s" % (k_, e)
    return None, total, log


def replay_witness(w, spec):
    kind = w.get("oracle") or spec.get("witness")
    script = "tok_oracle.py" if kind == "tok" else kind + "_oracle.py"
    env = dict(os.environ)
    env["PYTHONPATH"] = REPO
    out = subprocess.run([VENV_PY, os.path.join(ROOT, "replay", script), "replay", json.dumps(w)],
                         capture_output=True, text=True, env=env, cwd=REPO, timeout=600)
    return out.returncode, out.stdout + out.stderr


def run_selftest(pid):
    """Apply each committed seeded change for this property to a scratch copy of the tree and require the quick
    check to report a violation on it."""
    import shutil
    import tempfile
    sd = os.path.join(ROOT, "seeded")
    seeds = []
    for x in sorted(os.listdir(sd)) if os.path.isdir(sd) else []:
        mf = os.path.join(sd, x, "meta.json")
        if not os.path.isfile(mf):
            continue
        try:
            viol = json.load(open(mf)).get("violates")
        except Exception:
            viol = None
        # a change is a self-test case of the property it was written against, unless its meta.json says which
        # properties it really violates (C02-H: written against C02, violates C05 / C06 -- DESIGN section 9)
        if (viol is None and x.startswith(pid + "-")) or (viol is not None and pid in viol):
            seeds.append(x)
    res = {"total": 0, "killed": 0, "survivors": [], "details": []}
    for s_ in seeds:
        d = tempfile.mkdtemp(prefix="selftest-%s-" % s_)
        try:
            subprocess.run("git -C %s archive HEAD | tar -x -C %s" % (REPO, d), shell=True, check=True)
            pr = subprocess.run(["git", "apply", os.path.join(sd, s_, "patch.diff")], cwd=d, capture_output=True, text=True)
            if pr.returncode != 0:
                subprocess.run(["git", "init", "-q", "."], cwd=d)
                pr = subprocess.run(["git", "apply", os.path.join(sd, s_, "patch.diff")], cwd=d, capture_output=True, text=True)
            if pr.returncode != 0:
                res["details"].append({"seed": s_, "result": "patch does not apply to the current tree"})
                continue
            env = dict(os.environ)
            env.update({"VERIF_REPO": d, "VERIF_OUT_DIR": os.path.join(d, "_out"), "VERIF_TIER": "quick"})
            out = subprocess.run([os.path.join(ROOT, "check"), pid, "--tier", "quick"], capture_output=True, text=True, env=env,
                                 timeout=3000)
            res["total"] += 1
            hit = out.returncode == 1 and "VIOLATION property=%s" % pid in out.stdout
            res["killed"] += 1 if hit else 0
            if not hit:
                res["survivors"].append(s_)
            res["details"].append({"seed": s_, "exit": out.returncode,
                                   "violation_lines": [l for l in out.stdout.splitlines() if l.startswith("VIOLATION")][:3]})
        finally:
            shutil.rmtree(d, ignore_errors=True)
    return res


def load_known():
    p = os.path.join(ROOT, "known_findings.json")
    try:
        return json.load(open(p))
    except Exception:
        return {"open": [], "fixed": []}


def main():
    ap = argparse.ArgumentParser()
    ap.add_argument("pid")
    ap.add_argument("--tier", default=None)
    ap.add_argument("--replay", default=None)
    a = ap.parse_args()
    pid = a.pid
    tier = os.environ.get("VERIF_TIER") or a.tier or "quick"
    if tier not in ("quick", "thorough"):
        tier = "quick"
    seed = int(os.environ.get("VERIF_SEED", "0") or 0)
    if pid not in REGISTRY:
        print("unknown or unclaimed property %s" % pid)
        return 3
    spec = REGISTRY[pid]
    if a.replay:
        rp = json.load(open(a.replay))
        print("obligation: %s" % rp.get("obligation"))
        print("function:   %s" % rp.get("unit"))
        print("verifier:   %s -> %s" % (rp.get("backend"), rp.get("status")))
        w = rp.get("witness")
        if not w:
            print("no public-API witness was found for this obligation (no-failing-input-found); "
                  "verifier model:\n%s" % json.dumps(rp.get("model", {}), indent=1)[:3000])
            return 0
        rc, out = replay_witness(w, spec)
        print(out)
        return 1 if rc else 0

    # solver budgets: sized well above what the obligations need on an idle machine (ms each); an obligation
    # that exhausts them on every back end is reported undecided (exit 2), never as a violation
    os.environ.setdefault("VERIF_Z3_TIMEOUT_MS", "15000" if tier == "quick" else "120000")
    os.environ.setdefault("VERIF_CLI_TIMEOUT_S", "20" if tier == "quick" else "180")
    t0 = time.time()
    records, houdini_log = run_property(pid, tier)
    errors = [r for r in records if r["error"]]
    obs = []
    for r in records:
        for ob in r["obligations"]:
            if rel(ob, r, pid):
                ob = dict(ob)
                ob["unit"] = r["title"]
                obs.append(ob)
    n_ob = len(obs)
    sat = [o for o in obs if o["status"] == "sat"]
    unk = [o for o in obs if o["status"] not in ("sat", "unsat")]
    discharged = n_ob - len(sat) - len(unk)
    # vacuity guards
    vac = []
    for r in records:
        if r["kind"] in ("function", "lemma") and not r["error"]:
            if r["live_paths"] < 1:
                vac.append("unit %s has no feasible path (contradictory precondition?)" % r["title"])
            if not r["obligations"]:
                vac.append("unit %s generated zero obligations" % r["title"])
    if n_ob == 0:
        vac.append("zero obligations for property %s" % pid)

    # group violations by obligation name
    by_name = {}
    for o in sat:
        by_name.setdefault(o["name"], o)
    viol_lines = []
    known = load_known()
    known_open = [k for k in known.get("open", []) if k.get("property") == pid]
    os.makedirs(os.path.join(OUT, "replays"), exist_ok=True)
    witness = None
    wlog = ""
    if by_name:
        budget = 45 if tier == "quick" else 240
        witness, evaluated, wlog = witness_search(pid, spec, budget)
    reported = 0
    known_hits = []
    for name, o in list(by_name.items())[:8]:
        kf = None
        for k in known_open:
            if k.get("obligation") == name:
                kf = k
        if kf is not None:
            known_hits.append(kf)
            continue
        h = hashlib.sha1((pid + name).encode()).hexdigest()[:10]
        path = os.path.join(OUT, "replays", "%s-%s.json" % (pid, h))
        rp = {"property": pid, "obligation": name, "unit": o["unit"], "path": o.get("path"), "where": o.get("where"),
              "status": "sat", "backend": o.get("backend"), "model": o.get("model", {}),
              "witness": witness, "witness_search_log": wlog[-500:] if wlog else "",
              "note": "obligation generated from the current source of %s; the model is the verifier's counterexample "
                      "of the contract at function level; `witness` (when present) is a public-API input that "
                      "exhibits a violation of the property on the real code" % REPO}
        json.dump(rp, open(path, "w"), indent=1)
        line = "VIOLATION property=%s replay=%s" % (pid, path)
        if witness is None:
            line += " obligation=%s no-failing-input-found" % name.replace(" ", "_")
        viol_lines.append(line)
        viol_lines.append("  failed-obligation: %s  [unit %s; %s]" % (name, o["unit"], "public-API witness in the replay file" if witness is not None
                                                                   else "no public-API witness found within the search bound"))
        reported += 1

    # ---- translation validation of the engine (CPython cross-check), every run
    xc = {"skipped": "verification did not complete"}
    if not errors:
        try:
            from pyvc import crosscheck
            nq, npn = (40, 25) if tier == "quick" else (1500, 400)
            a = crosscheck.run(REPO, seed, nq)
            b = crosscheck.run_pinned(REPO, seed, npn)
            xc = {"concrete_mode": a, "pinned_symbolic_mode": b}
        except Exception as e:  # noqa
            xc = {"error": "%s: %s" % (type(e).__name__, e)}
    xc_bad = 0
    for k_ in ("concrete_mode", "pinned_symbolic_mode"):
        if isinstance(xc.get(k_), dict):
            xc_bad += xc[k_].get("n_disagreements", 0) + (1 if xc[k_].get("error") else 0)
    if xc.get("error"):
        xc_bad += 1
    # ---- thorough only: spec-sanity sweep with the executable oracle (bounded, labelled) and seeded self-test
    bounded = []
    selftest = None
    if tier == "thorough" and not errors and not by_name:
        w_, ev_, _ = witness_search(pid, spec, 300)
        bounded.append({"tool": "replay/%s_oracle.py (statement-level oracle on the real API)" % spec.get("witness"),
                        "bound": "exhaustive-in-the-small sweep, 300 s budget", "evaluations": ev_,
                        "counterexample": w_, "role": "sanity of the spec reading; NOT counted as proved"})
        if w_ is not None:
            errors.append({"unit": "oracle", "error": "spec-sanity oracle found a failing input although every obligation is "
                           "discharged: contract too weak or oracle wrong: %s" % json.dumps(w_)[:400]})
        selftest = run_selftest(pid)
    # evidence
    units_ev = []
    for r in records:
        units_ev.append({"unit": r["title"], "kind": r["kind"], "functions": r["functions"], "paths": r["paths"],
                         "obligations": len([o for o in r["obligations"] if rel(o, r, pid)]),
                         "time_s": r["time"], "error": r["error"]})
    by_backend = {}
    st = 0.0
    for o in obs:
        by_backend[o.get("backend") or "?"] = by_backend.get(o.get("backend") or "?", 0) + 1
        st += o.get("time", 0)
    names = {}
    for o in obs:
        d = names.setdefault(o["name"], {"paths": 0, "status": set(), "time_s": 0.0})
        d["paths"] += 1
        d["status"].add(o["status"])
        d["time_s"] += o.get("time", 0)
    ob_names = [{"name": k, "instances": v["paths"], "status": sorted(v["status"]), "solver_time_s": round(v["time_s"], 3)}
                for k, v in sorted(names.items())]
    samples = []
    for r in records:
        samples.extend(r["samples"][:1])
    samples = samples[:4] or [{"obligation": "none", "smt2": ""}]
    inlined = sorted({x for r in records for x in r["inlined"]})
    interpreted = sorted({x for r in records for x in r.get("interpreted", ())})
    noops = sorted({tuple(x) for r in records for x in r["noops"]})
    contracts_used = sorted({x for r in records for x in r["contracts_used"]})
    lib_used = sorted({x for r in records for x in r["lib_used"]})
    second_agree = None
    if tier == "thorough":
        tot = [o for o in obs if o.get("second")]
        second_agree = {"rechecked": len(tot), "agree": len([o for o in tot if o["second"][1] == "unsat"]),
                        "other_unknown": len([o for o in tot if o["second"][1] == "unknown"]),
                        "disagree": len([o for o in tot if o["second"][1] == "sat"])}
    ev = {
        "property_id": pid, "tier": tier, "seed": seed, "level": "proof",
        "coverage": {
            "obligations": n_ob, "discharged": discharged,
            "checker_cmd": "cd /verif && ./check %s --tier %s" % (pid, tier),
            "trusted_base": COMMON_TRUSTED + ["inlined private helpers (their body is their contract): " + ", ".join(inlined)] if inlined else COMMON_TRUSTED,
            "functions_under_contract": [f for r in records for f in r["functions"]],
            "functions_interpreted": interpreted,
            "units": units_ev,
            "obligation_names": ob_names,
            "by_backend": by_backend,
            "solver_time_s": round(st, 3),
            "undecided": len(unk),
            "counterexamples": len(sat),
            "houdini_dropped": houdini_log,
            "vacuity": {"live_paths": {r["title"]: r["live_paths"] for r in records}, "problems": vac},
            "noop_statements": [list(x) for x in noops],
            "contracts_assumed_at_call_sites": contracts_used,
            "library_models_used": lib_used,
            "second_solver_agreement": second_agree,
            "cpython_crosscheck": xc,
            "bounded_standins": bounded,
            "seeded_selftest": selftest,
            "samples": samples,
            "exhaustive": False,
            "rule": "one obligation per contract clause per feasible path of each function under contract; "
                    "all inputs symbolic, no bound",
        },
        "assumptions": spec.get("assumptions", []),
        "wall_s": round(time.time() - t0, 2),
        "violations": reported,
    }
    os.makedirs(os.path.join(OUT, "evidence"), exist_ok=True)
    json.dump(ev, open(os.path.join(OUT, "evidence", pid + ".json"), "w"), indent=1)

    print("property %s tier=%s: %d obligations, %d discharged, %d counterexample(s), %d undecided; %.1fs" % (
        pid, tier, n_ob, discharged, len(sat), len(unk), time.time() - t0))
    for k in known_hits:
        print("KNOWN-FINDING: property=%s %s" % (pid, k.get("what")))
    if errors:
        for r in errors:
            print("CHECKER-ERROR in unit %s: %s" % (r["unit"], r["error"].splitlines()[0]))
        # The changed code is outside what the contracts attach to (contract drift / unsupported construct).
        # Bounded stand-in: run the property's executable oracle against the real code; a failing input is
        # reported as a violation, otherwise the run stays a checker error (never a silent pass).
        if viol_lines:
            # obligations of the units that DID verify have counterexamples: those are reported whatever happened elsewhere
            for ln in viol_lines:
                print(ln)
            return 1
        witness, evaluated, wlog = witness_search(pid, spec, 45 if tier == "quick" else 240)
        if witness is not None:
            h = hashlib.sha1((pid + "bounded-standin").encode()).hexdigest()[:10]
            path = os.path.join(OUT, "replays", "%s-%s.json" % (pid, h))
            json.dump({"property": pid, "obligation": "bounded stand-in (deductive check not applicable to the changed code: %s)"
                       % errors[0]["error"].splitlines()[0], "unit": errors[0]["unit"], "status": "bounded-counterexample",
                       "backend": "executable oracle on the real code, %d cases evaluated" % evaluated, "model": {},
                       "witness": witness}, open(path, "w"), indent=1)
            print("VIOLATION property=%s replay=%s" % (pid, path))
            return 1
        return 3
    if vac and not viol_lines:
        for v in vac:
            print("VACUITY: " + v)
        return 3
    if xc_bad:
        print("CHECKER-ERROR: engine and CPython disagree on %d cross-check case(s): %s" % (xc_bad, json.dumps(xc)[:600]))
        return 3
    if selftest and selftest["killed"] < selftest["total"]:
        print("CHECKER-ERROR: seeded change(s) not detected by this check: %s" % selftest["survivors"])
        return 3
    if second_agree and second_agree["disagree"]:
        print("CHECKER-ERROR: second solver disagrees on %d obligation(s)" % second_agree["disagree"])
        return 3
    if viol_lines:
        for ln in viol_lines:
            print(ln)
        return 1
    if unk:
        for o in unk[:5]:
            print("UNDECIDED: %s (%s)" % (o["name"], o["unit"]))
        return 2
    return 0


if __name__ == "__main__":
    sys.exit(main())

#!/usr/bin/env python3
"""matrix_plan.py [seed ...] : for every seeded change, the checks that can possibly be affected by it.

A check is a deterministic function of the source text of the functions it verifies or interprets in place (evidence
`functions_under_contract` + inlined helpers) and of the module-level constants of the files they live in; its executable
oracle runs only after an obligation failed.  A change none of whose changed lines lies in such a function, nor at module /
class level of a file the check reads, cannot alter the check's outcome: the cell is `-` (= same result as on the
unchanged tree, exit 0) without running it.  Prints `seed: C01 C05 ...` (checks to run)."""
import ast, glob, json, os, re, sys
ROOT = os.path.dirname(os.path.dirname(os.path.abspath(__file__)))
REPO = "/repo"
# spans of every function of the package
spans = {}      # file -> list of (lo, hi, qualname)
for f in sorted(glob.glob(REPO + "/auditok/*.py")):
    rel = os.path.relpath(f, REPO)
    mod = "auditok." + os.path.basename(f)[:-3]
    t = ast.parse(open(f).read())
    out = []
    def walk(node, pre):
        for n in node.body:
            if isinstance(n, (ast.FunctionDef, ast.AsyncFunctionDef)):
                lo = min([n.lineno] + [d.lineno for d in n.decorator_list])
                out.append((lo, n.end_lineno, pre + "." + n.name))
            elif isinstance(n, ast.ClassDef):
                walk(n, pre + "." + n.name)
    walk(t, mod)
    spans[rel] = out
check_funcs, check_files = {}, {}
for ef in sorted(glob.glob(ROOT + "/evidence/C*.json")):
    e = json.load(open(ef))
    pid = e["property_id"]
    fs = set()
    for x in e["coverage"].get("functions_under_contract", []):
        fs.add(x["qualname"].replace(".setter", "").replace(".getter", ""))
    for t in e["coverage"].get("trusted_base", []):
        if t.startswith("inlined private helpers"):
            for q in t.split(": ", 1)[1].split(", "):
                fs.add(q.replace(" (auto)", "").replace(".setter", ""))
    for q in e["coverage"].get("functions_interpreted", []):
        fs.add(q.replace(".setter", "").replace(".getter", ""))
    fs = {q.replace(" (memoised)", "") for q in fs}
    check_funcs[pid] = fs
    files = set()
    for rel, lst in spans.items():
        if any(q in fs for _, _, q in lst):
            files.add(rel)
    check_files[pid] = files
def changed_positions(patch):
    pos = {}
    cur = None
    old = 0
    for line in open(patch, errors="replace"):
        if line.startswith("--- a/"):
            cur = line[6:].strip()
        elif line.startswith("+++ ") or line.startswith("diff ") or line.startswith("index "):
            continue
        elif line.startswith("@@"):
            m = re.match(r"@@ -(\d+)", line)
            old = int(m.group(1))
        elif cur is not None:
            if line.startswith("-"):
                pos.setdefault(cur, set()).add(old)
                old += 1
            elif line.startswith("+"):
                pos.setdefault(cur, set()).add(old)
            else:
                old += 1
    return pos
args = sys.argv[1:]
if args and args[0] == "--patch":
    # matrix_plan.py --patch <file.diff> : checks that read code the patch touches
    seeds = [("patch", args[1])]
else:
    seeds = [(d, os.path.join(ROOT, "seeded", d, "patch.diff"))
             for d in (args or sorted(d for d in os.listdir(ROOT + "/seeded") if re.match(r"^C\d\d-[A-Z]$", d)))]
for s, pf in seeds:
    pos = changed_positions(pf)
    hit = set()
    for pid in sorted(check_funcs):
        for rel, lines in pos.items():
            for ln in lines:
                inside = [q for lo, hi, q in spans.get(rel, []) if lo <= ln <= hi]
                if inside:
                    if any(q in check_funcs[pid] for q in inside):
                        hit.add(pid)
                elif rel in check_files[pid]:
                    hit.add(pid)          # module / class level: constants, imports, new functions
    if s != "patch":
        hit.add(s.split("-")[0])
    print("%s: %s" % (s, " ".join(sorted(hit))))

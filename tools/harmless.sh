#!/bin/bash
# harmless.sh <outdir> <diff>... : apply each behaviour-preserving diff to a scratch copy of /repo and run on it every check that
# reads code the diff touches (tools/matrix_plan.py --patch).
# Any VIOLATION is a false alarm of the machinery (or the diff is not behaviour-preserving: read it); exit 3 = the edit
# left the verifier's language subset / a harness assumption (reported, not an alarm).
out=$1; shift; mkdir -p $out
ids=$(python3 -c "import json;print(' '.join(c['property_id'] for c in json.load(open('/verif/MANIFEST.json'))['checks']))")
one() { df=$1; out=$2; ids="$3"; nm=$(echo $df | sed 's#/#_#g; s#^_tmp_wth_##; s#__refactorings##; s#\.diff$##')
  d=$(mktemp -d /tmp/hl-XXXX); git -C /repo archive HEAD | tar -x -C $d
  (cd $d && git init -q . && git apply $df) || { echo "$nm APPLY-FAILED" >> $out/harmless.txt; rm -rf $d; return; }
  line="$nm"
  plan=" $(python3 /verif/tools/matrix_plan.py --patch $df | cut -d: -f2) "
  for p in $ids; do
    case "$plan" in *" $p "*) ;; *) continue;; esac     # a check that reads none of the touched code cannot change
    o=$(cd ${VERIF_HOME:-/verif} && VERIF_REPO=$d VERIF_OUT_DIR=$d/_out timeout 1500 ./check $p 2>&1 | grep -v '^WARNING')
    rc=$(echo "$o" | grep -q '^VIOLATION' && echo 1 || (echo "$o" | grep -q 'CHECKER-ERROR\|VACUITY' && echo 3 || (echo "$o" | grep -q UNDECIDED && echo 2 || echo 0)))
    [ "$rc" != 0 ] && { line="$line $p=$rc"; echo "$o" > $out/$nm.$p.log; }
  done
  echo "$line" >> $out/harmless.txt; rm -rf $d; }
export -f one
for s in "$@"; do echo $s; done | xargs -P 6 -I{} bash -c "one {} $out \"$ids\""
sort $out/harmless.txt

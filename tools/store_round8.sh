#!/bin/bash
# store_round6.sh <Cxx> : confirm both round-8 changes (O, P) of a property in /tmp/wt8/<Cxx> and store them as seeded/<Cxx>-O|P
pid=$1; ROUND=8; wt=/tmp/wt8/$pid
pairs="O:O P:P"
for pair in $pairs; do
  x=${pair%:*}; y=${pair#*:}
  [ -f $wt/_mutants/$x.diff ] || { echo "$pid/$x missing"; continue; }
  r=$(/verif/tools/confirm_mutant.sh $wt $x 2>&1 | tail -1)
  echo "$r"
  if echo "$r" | grep -q "base_demo=0 mut_demo=[1-9][0-9]* suite='36 failed, 579 passed[^']*' failset=3c954093"; then
    d=/verif/seeded/$pid-$y; mkdir -p $d
    cp $wt/_mutants/$x.diff $d/patch.diff; cp $wt/_mutants/${x}_demo.py $d/demo.py; cp $wt/_mutants/${x}_notes.md $d/notes.md
    files=$(grep '^+++ b/' $d/patch.diff | sed 's#+++ b/##' | python3 -c "import sys,json;print(json.dumps([l.strip() for l in sys.stdin]))")
    md=$(echo "$r" | sed 's/.*mut_demo=\([0-9]*\).*/\1/')
    cat > $d/meta.json <<EOM
{
 "id": "$pid-$y",
 "round": ${ROUND:-3},
 "breaks_property": "$pid",
 "files_changed": $files,
 "origin": "round ${ROUND:-3}: written by an independent sub-agent given only the property text, a scratch worktree of /repo (HEAD 2c44203) and a short description of the earlier changes to avoid; it saw nothing of /verif",
 "needs_to_manifest": "see notes.md",
 "confirmed_by_me": {
  "date": "2026-09-27",
  "worktree": "$wt (removed afterwards)",
  "commands": [
   "git apply patch.diff",
   "/venv/bin/python -m pytest -q -p no:cacheprovider --timeout=900 --continue-on-collection-errors",
   "/venv/bin/python demo.py (from the worktree root, with and without the patch)"
  ],
  "suite_with_patch": "36 failed, 579 passed; FAILED ids identical to the unchanged tree (md5 3c954093)",
  "demo_exit_unchanged_tree": 0,
  "demo_exit_with_patch": $md
 },
 "how_to_run_checks_against_it": "git -C /repo apply /verif/seeded/$pid-$y/patch.diff; cd /verif && ./check <ID>; git -C /repo checkout -- ."
}
EOM
    echo "stored $pid-$y"
  else
    echo "NOT CONFIRMED $pid/$x"
  fi
done

#!/bin/bash
# stop background matrix / own runs started from tools/ (never use pkill -f with a pattern that matches the calling shell)
for p in $(pgrep -f "xargs -P [0-9] -I"); do kill $p; done; for p in $(pgrep -f "bash -c [o]ne "); do kill $p; done
for pat in "tools/[m]atrix.sh" "tools/[o]wn.sh" "[c]hecker.py" "_[o]racle.py"; do
  for p in $(pgrep -f "$pat"); do kill $p 2>/dev/null; done
done
sleep 1
rm -rf /tmp/mx-* /tmp/own-*

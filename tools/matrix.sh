#!/bin/bash
# matrix.sh <outdir> [seed ...] : for each seeded change, copy /repo to a scratch dir, apply the patch, run every check that
# reads a changed function (tools/matrix_plan.py; the others are '-': outcome unchanged by construction)
# against the copy (VERIF_REPO), record exit codes.  Scratch copies are removed afterwards.
out=$1; shift
mkdir -p $out
seeds="$@"; [ -z "$seeds" ] && seeds=$(ls /verif/seeded)
ids=$(python3 -c "import json;print(' '.join(c['property_id'] for c in json.load(open('/verif/MANIFEST.json'))['checks']))")
one() {
  seed=$1; out=$2; ids="$3"
  d=$(mktemp -d /tmp/mx-$seed-XXXX)
  git -C /repo archive HEAD | tar -x -C $d
  (cd $d && git init -q . && git apply /verif/seeded/$seed/patch.diff) || { echo "$seed APPLY-FAILED" >> $out/matrix.txt; rm -rf $d; return; }
  line="$seed"
  plan=" $(python3 /verif/tools/matrix_plan.py $seed | cut -d: -f2) "
  for p in $ids; do
    # a check that reads none of the changed functions (nor module-level code of their files) cannot change its outcome
    case "$plan" in *" $p "*) ;; *) line="$line $p=-"; continue;; esac
    o=$(cd ${VERIF_HOME:-/verif} && VERIF_REPO=$d VERIF_OUT_DIR=$d/_out timeout 1500 ./check $p 2>&1 | grep -v '^WARNING'); rc=$?
    rc=$(echo "$o" | grep -q '^VIOLATION' && echo 1 || (echo "$o" | grep -q 'CHECKER-ERROR\|VACUITY' && echo 3 || (echo "$o" | grep -q UNDECIDED && echo 2 || echo 0)))
    nf=$(echo "$o" | grep '^VIOLATION' | grep -c 'no-failing-input-found')
    ce=$(echo "$o" | grep -c 'CHECKER-ERROR')
    line="$line $p=$rc$([ "$nf" -gt 0 ] && echo n)$([ "$rc" = 1 ] && [ "$ce" -gt 0 ] && echo b)"
    echo "$o" > $out/$seed.$p.log
  done
  echo "$line" >> $out/matrix.txt
  rm -rf $d
}
export -f one
for s in $seeds; do echo $s; done | xargs -P 4 -I{} bash -c "one {} $out \"$ids\""
sort $out/matrix.txt

#!/bin/bash
# seedrun.sh <seed-id> <property ids...> : run checks against a scratch copy of /repo with the seeded change applied
seed=$1; shift
d=$(mktemp -d /tmp/sr-$seed-XXXX); git -C /repo archive HEAD | tar -x -C $d
(cd $d && git init -q . && git apply /verif/seeded/$seed/patch.diff) || { echo "$seed APPLY-FAILED"; rm -rf $d; exit 9; }
for p in "$@"; do
  echo "--- seed=$seed check=$p"
  (cd /verif && VERIF_REPO=$d VERIF_OUT_DIR=$d/_out timeout 2400 ./check $p 2>&1 | grep -v '^WARNING' | cut -c1-330 | tail -${TAILN:-8})
done
rm -rf $d

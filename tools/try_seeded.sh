#!/bin/bash
# try_seeded.sh <seed-id> <property ids...> : apply a seeded change to /repo, run the checks, undo it.
seed=$1; shift
git -C /repo status --short | grep -q . && { echo "/repo not clean"; exit 9; }
git -C /repo apply /verif/seeded/$seed/patch.diff || exit 9
for p in "$@"; do
  out=$(cd /verif && ./check $p 2>&1 | grep -v "^WARNING"); rc=$?
  echo "--- seed=$seed check=$p"; echo "$out" | tail -6
done
git -C /repo checkout -- .

#!/bin/bash
# confirm_mutant.sh <worktree> <A|B>  -- confirm a seeded change in its scratch worktree:
# clean tree: demo passes; with patch: suite result unchanged (579 passed / 36 failed, same ids), demo fails.
wt=$1; x=$2
cd $wt || exit 9
git checkout -q -- auditok
base_demo=$( /venv/bin/python _mutants/${x}_demo.py >/dev/null 2>&1; echo $? )
git apply _mutants/${x}.diff || { echo "APPLY-FAILED"; exit 9; }
suite=$(/venv/bin/python -m pytest -q -p no:cacheprovider --timeout=900 --continue-on-collection-errors 2>&1 | grep -E "^FAILED" | sed 's/ - .*//' | sort | md5sum | cut -c1-8)
tail=$(/venv/bin/python -m pytest -q -p no:cacheprovider --timeout=900 --continue-on-collection-errors 2>&1 | tail -1 | sed 's/ in .*//')
mut_demo=$( timeout 300 /venv/bin/python _mutants/${x}_demo.py >/dev/null 2>&1; echo $? )
git checkout -q -- auditok
echo "$(basename $wt)/$x base_demo=$base_demo mut_demo=$mut_demo suite='$tail' failset=$suite"

#!/bin/bash
# store_harmless7.sh <area> : confirm the four refactorings of /tmp/wth7/<area> (suite unchanged, the author's differential check passes) and store them
a=$1; wt=/tmp/wth7/$a
cd $wt || exit 9
for x in R1 R2 R3 R4; do
  [ -f _refactorings/$x.diff ] || { echo "$a/$x missing"; continue; }
  git checkout -q -- auditok
  git apply _refactorings/$x.diff || { echo "$a/$x APPLY-FAILED"; continue; }
  suite=$(/venv/bin/python -m pytest -q -p no:cacheprovider --timeout=900 --continue-on-collection-errors 2>&1 | grep -E "^FAILED" | sed 's/ - .*//' | sort | md5sum | cut -c1-8)
  tail=$(/venv/bin/python -m pytest -q -p no:cacheprovider --timeout=900 --continue-on-collection-errors 2>&1 | tail -1 | sed 's/ in .*//')
  timeout 900 /venv/bin/python _refactorings/check.py --verify >/dev/null 2>&1; rc=$?
  git checkout -q -- auditok
  echo "$a/$x suite='$tail' failset=$suite differential=$rc"
  if [ "$suite" = 3c954093 ] && [ $rc = 0 ] && echo "$tail" | grep -q "36 failed, 579 passed"; then
    d=/verif/seeded/harmless/${a}7_$x; mkdir -p $d
    cp _refactorings/$x.diff $d/patch.diff; cp _refactorings/${x}_notes.md $d/notes.md 2>/dev/null; cp _refactorings/check.py $d/check.py
    echo "stored ${a}7_$x"
  else
    echo "NOT CONFIRMED $a/$x"
  fi
done

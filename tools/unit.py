#!/opt/veriftools/pyvenv/bin/python
"""dev helper: tools/unit.py <module> <unit> [repo]  -- run one verification unit and list its obligations"""
import sys, os, collections
sys.path.insert(0, os.path.dirname(os.path.dirname(os.path.abspath(__file__))))
from pyvc.runner import _worker
mod, unit = sys.argv[1], sys.argv[2]
repo = sys.argv[3] if len(sys.argv) > 3 else "/repo"
os.environ.setdefault("VERIF_Z3_TIMEOUT_MS", "15000")
import importlib
m_ = importlib.import_module("props." + mod)
opts = {"active": list(m_.HOUDINI["names"])} if hasattr(m_, "HOUDINI") else {}
r = _worker(("props." + mod, unit, opts, "quick", repo, False))
if r["error"]:
    print("ERROR", r["error"].splitlines()[0])
    for o in r["obligations"]:
        print("PARTIAL REFUTATION:", o["name"], o["status"])
    sys.exit(3)
c = collections.OrderedDict()
for o in r["obligations"]:
    d = c.setdefault(o["name"], collections.Counter()); d[o["status"]] += 1; d["props=" + ",".join(o["props"])] += 0
for k, v in c.items():
    print("%-110s %s" % (k[:110], dict(v)))
print("paths", r["paths"], "live", r["live_paths"], "obligations", len(r["obligations"]), "time", r["time"])
print("interpreted:", " ".join(x.replace("auditok.", "") for x in r["interpreted"]))
for o in r["obligations"]:
    if o["status"] != "unsat":
        print("NOT DISCHARGED:", o["name"], o["status"], o["path"], str(o.get("model"))[:600]); break

#!/bin/bash
# sunit.sh <seed> <module> <unit> : run one unit on a scratch copy with the seed applied
d=$(mktemp -d /tmp/su-XXXX); git -C /repo archive HEAD | tar -x -C $d; (cd $d && git init -q . && git apply /verif/seeded/$1/patch.diff)
timeout ${T:-600} /verif/tools/unit.py $2 $3 $d | grep -v "unsat': [0-9]*, 'props" | tail -${TAILN:-5} | cut -c1-${W:-300}
rm -rf $d

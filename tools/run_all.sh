#!/bin/bash
# run every claimed check (quick tier unless $1 given) on the unchanged tree, in parallel, and validate evidence files
tier=${1:-quick}
cd /verif
git -C /repo status --short | grep -q . && { echo "/repo not clean"; exit 9; }
ids=$(python3 -c "import json;print(' '.join(c['property_id'] for c in json.load(open('MANIFEST.json'))['checks']))")
for p in $ids; do ( out=$(./check $p --tier $tier 2>&1 | grep -v '^WARNING'); echo "[$p exit=$?] $out" | tail -3 ) & 
  while [ $(jobs -r | wc -l) -ge 4 ]; do sleep 0.5; done
done; wait
/opt/veriftools/pyvenv/bin/python - <<'PY'
import json,jsonschema,glob
s=json.load(open('/root/.vp/EVIDENCE.schema.json'))
m=json.load(open('/verif/MANIFEST.json'))
jsonschema.validate(m,json.load(open('/root/.vp/MANIFEST.schema.json')))
for c in m['checks']:
    e=json.load(open('/verif/'+c['evidence_file'])); jsonschema.validate(e,s)
    cov=e['coverage']; assert cov['obligations']==cov['discharged'] and e['violations']==0, c['property_id']
print('manifest + %d evidence files valid, all discharged'%len(m['checks']))
PY

#!/usr/bin/env python3
"""matrix_md.py <matrix-outdir> > seeded/MATRIX.md : render the seeded-change x check matrix."""
import json, os, re, sys
d = sys.argv[1]
rows = {}
for line in open(os.path.join(d, "matrix.txt")):
    parts = line.split()
    if len(parts) < 3:
        continue
    rows[parts[0]] = dict(p.split("=") for p in parts[1:])
props = sorted({p for r in rows.values() for p in r})
print("# Seeded changes x checks\n")
print("Produced by `tools/matrix.sh`: every seeded change is applied to a scratch copy of `/repo` (never to `/repo` itself) and "
      "every check's quick command is run against the copy (`VERIF_REPO`).  `1` = VIOLATION with a public-API witness in the "
      "replay file, `1n` = VIOLATION whose line ends with no-failing-input-found, `1b` = the changed code left the verifier's language subset (checker error) and the bounded stand-in found the failing input, `0` = exit 0, `3` = checker error, `2` = undecided.  "
      "`–` = not run: the check reads none of the functions (nor module-level code of the files) the change touches, so its "
      "outcome is the one on the unchanged tree by construction (`tools/matrix_plan.py`).  "
      "The diagonal (the property the change was written against) is in bold.\n")
print("| change | " + " | ".join(props) + " |")
print("|---|" + "|".join(["---"] * len(props)) + "|")
own_ok = 0
cross = []
for s in sorted(rows):
    own = s.split("-")[0]
    cells = []
    for p in props:
        v = rows[s].get(p, "?")
        if p == own:
            cells.append("**%s**" % v)
            own_ok += 1 if v.startswith("1") else 0
        else:
            cells.append("–" if v == "-" else (v if v != "0" else "·"))
            if v not in ("0", "-"):
                cross.append((s, p, v))
    print("| %s | %s |" % (s, " | ".join(cells)))
print("\n%d of %d changes are reported by the check of the property they were written against.\n" % (own_ok, len(rows)))
print("## Off-diagonal reports\n")
print("A change written against one property often really breaks others (the tokenizer properties overlap by design: a wrong "
      "token is usually too long, mis-started *and* not the greedy one).  Reports with a witness (`1`) are real violations of that "
      "property on the changed code.  Reports without one (`1n`) are listed with the failed obligation; they are either real but "
      "outside the witness search bound, or consequences of a dropped invariant conjunct (DESIGN section 10).\n")
for s, p, v in cross:
    ob = ""
    lf = os.path.join(d, "%s.%s.log" % (s, p))
    if os.path.exists(lf):
        m = re.findall(r"failed-obligation: (\S+)", open(lf).read())
        ob = "; ".join(sorted(set(m))[:3])
    print("* %s -> %s = %s  %s" % (s, p, v, ("(" + ob + ")") if ob else ""))

#!/bin/bash
# own.sh <outdir> seed... : run each seeded change's OWN property check on a scratch copy
out=$1; shift; mkdir -p $out
one() { seed=$1; out=$2; p=${seed%-*}
  d=$(mktemp -d /tmp/own-$seed-XXXX); git -C /repo archive HEAD | tar -x -C $d
  (cd $d && git init -q . && git apply /verif/seeded/$seed/patch.diff) || { echo "$seed APPLY-FAILED"; rm -rf $d; return; }
  o=$(cd ${VERIF_HOME:-/verif} && VERIF_REPO=$d VERIF_OUT_DIR=$d/_out timeout 2400 ./check $p 2>&1 | grep -v '^WARNING')
  echo "$o" > $out/$seed.log
  v=$(echo "$o" | grep -c '^VIOLATION'); nf=$(echo "$o" | grep '^VIOLATION' | grep -c no-failing-input-found); ce=$(echo "$o" | grep -c 'CHECKER-ERROR')
  echo "$seed violations=$v without-witness=$nf checker-errors=$ce :: $(echo "$o" | grep 'failed-obligation' | head -2 | cut -c1-150 | tr '\n' '|')"
  rm -rf $d; }
export -f one
for s in "$@"; do echo $s; done | xargs -P ${OWN_PAR:-4} -I{} bash -c "one {} $out"

"""CPython cross-check of the engine's translation (DESIGN 2.8).

The same interpreter that generates the verification conditions is run in
*concrete mode* on the parsed source of /repo with concrete inputs, and its
result (return value / raised exception class) is compared with what CPython
computes by calling the real imported function on the same inputs.  This is a
differential test of the TRANSLATION (slice clamping, // and % signs, divmod,
truthiness, short-circuit, attribute lookup, dataclass construction, generator
bodies ...); it decides no property.  A disagreement is a checker error (exit 3).
"""
import json
import os
import random
import subprocess
import sys

from .engine import Engine, PyRaise, Unsupported, LibCallable, BoundMethod
from .values import Seq, Fl, Ref, ClassVal
from .program import Program

ROOT = os.path.dirname(os.path.dirname(os.path.abspath(__file__)))


def gen_cases(seed, n):
    rnd = random.Random(seed)
    cases = []
    for _ in range(n):
        k = rnd.randrange(6)
        if k == 0:
            M = rnd.randint(1, 5)
            m = rnd.randint(1, M)
            s = rnd.randint(-1, M - 1)
            i0 = rnd.choice([0, 0, 1, 2, 3])
            if i0 >= M:
                i0 = 0
            ims = rnd.randint(0, 2)
            mode = rnd.choice([0, 2, 4, 6])
            stream = "".join(rnd.choice("AAaa" if rnd.random() < .5 else "Aaaa") for _ in range(rnd.randint(0, 16)))
            cases.append({"probe": "tokenize", "args": [m, M, s, i0, ims, mode], "stream": stream})
        elif k == 1:
            sw, ch = rnd.choice([(1, 1), (2, 1), (2, 2), (4, 3)])
            n_ = rnd.randint(0, 7)
            a = rnd.choice([None] + list(range(-2 * n_ - 2, 2 * n_ + 3)))
            b = rnd.choice([None] + list(range(-2 * n_ - 2, 2 * n_ + 3)))
            cases.append({"probe": "region", "n": n_, "sw": sw, "ch": ch, "a": a, "b": b, "div": rnd.randint(1, n_ + 3),
                          "mul": rnd.randint(-1, 3)})
        elif k == 2:
            sw, ch = rnd.choice([(1, 1), (2, 2), (4, 1)])
            n_ = rnd.randint(0, 8)
            ops = []
            for _ in range(rnd.randint(1, 6)):
                r = rnd.random()
                if r < .5:
                    ops.append(["read", rnd.choice([None, -1, 0, 1, 2, 3, n_, n_ + 2])])
                elif r < .8:
                    ops.append(["pos", rnd.randint(-n_ - 2, n_ + 2)])
                elif r < .9:
                    ops.append(["rewind", 0])
                else:
                    ops.append(["reopen", 0])
            cases.append({"probe": "buffer", "n": n_, "sw": sw, "ch": ch, "ops": ops})
        elif k == 3:
            fmt = rnd.choice(["%S", "%I", "%h:%m:%s.%i", "%m min %s sec %i ms", "%i", "plain", "%x", "%h:%m:%s.%S", "%"])
            cases.append({"probe": "formatter", "fmt": fmt, "seconds": rnd.choice([0, 1, 59, 60, 61, 3599, 3600, 3723, 86399, 100000])})
        elif k == 4:
            d = {}
            for key in ("sampling_rate", "sr", "sample_width", "sw", "channels", "ch"):
                r = rnd.random()
                if r < .45:
                    d[key] = rnd.choice([1, 2, 8000, 16000, 0, -1])
                elif r < .55:
                    d[key] = None
                elif r < .6:
                    d[key] = "x"
            cases.append({"probe": "params", "d": d})
        else:
            cases.append({"probe": "guess", "name": rnd.choice(["a.wav", "a.WAV", "b.raw", "c", "d.ogg", "e.wave", "f.x.wav"]),
                          "fmt": rnd.choice([None, "wav", "wave", "WAVE", "raw", "Raw", "ogg"])})
    return cases


def mkdata(n, sw, ch):
    return bytes((7 * i + 3) % 251 for i in range(n * sw * ch))


def engine_side(prog, case):
    eng = Engine(prog)
    eng.concrete = True
    eng.lib["warnings.warn"] = lambda e, a, k: None
    eng.ctor_contracts = {"_AudioRegionMetadata": lambda e, a, k: None}
    import os.path as _osp
    eng.lib["os.path.splitext"] = lambda e, a, k: _osp.splitext(a[0])
    out = {}

    def run(e):
        from .engine import State
        p = case["probe"]
        if p == "tokenize":
            ST = prog.func("auditok.core.StreamTokenizer.__init__")
            val = LibCallable("isupper", lambda e_, a, k: a[0].isupper())
            try:
                tk = e.instantiate("StreamTokenizer", [val] + case["args"], {})
            except PyRaise as ex:
                return {"exc": ex.exc}
            ds = e.instantiate("StringDataSource", [case["stream"]], {})
            res = e.call_method(tk, "tokenize", [ds], {})
            toks = []
            for t in res.items:
                d, a, b = t
                toks.append(["".join(d.items), a, b])
            return {"tokens": toks}
        if p == "region":
            data = mkdata(case["n"], case["sw"], case["ch"])
            r = e.instantiate("AudioRegion", [data, 16, case["sw"], case["ch"]], {})
            from .engine import SliceVal
            o = {}
            try:
                s_ = e.getitem(r, SliceVal(case["a"], case["b"], None))
                o["slice"] = list(bytes_of(e.st.heap[s_.oid]["data"]))
            except PyRaise as ex:
                o["slice"] = ex.exc
            o["len"] = e.b_len([r], {}, None, None)
            try:
                parts = e.call_method(r, "__truediv__", [case["div"]], {})
                o["div"] = [len(bytes_of(e.st.heap[x.oid]["data"])) for x in parts.items]
            except PyRaise as ex:
                o["div"] = ex.exc
            m = e.call_method(r, "__mul__", [case["mul"]], {})
            o["mul"] = len(bytes_of(e.st.heap[m.oid]["data"]))
            return o
        if p == "buffer":
            data = mkdata(case["n"], case["sw"], case["ch"])
            src = e.instantiate("BufferAudioSource", [data, 16, case["sw"], case["ch"]], {})
            e.call_method(src, "open", [], {})
            log = []
            for op, arg in case["ops"]:
                try:
                    if op == "read":
                        r = e.call_method(src, "read", [arg], {})
                        log.append(None if r is None else list(bytes_of(r)))
                    elif op == "pos":
                        e.setattr(src, "position", arg)
                        log.append(e.getattr(src, "position"))
                    elif op == "rewind":
                        e.call_method(src, "rewind", [], {})
                        log.append(e.getattr(src, "position"))
                    else:
                        e.call_method(src, "close", [], {})
                        e.call_method(src, "open", [], {})
                        log.append(e.getattr(src, "position"))
                except PyRaise as ex:
                    log.append("!" + ex.exc)
            return {"log": log}
        if p == "formatter":
            try:
                f = e.call_func(prog.func("auditok.util.make_duration_formatter"), [case["fmt"]], {}, None)
                return {"out": e.call_value(f, [case["seconds"]], {})}
            except PyRaise as ex:
                return {"exc": ex.exc}
        if p == "params":
            from .engine import DictVal
            try:
                r = e.call_func(prog.func("auditok.io._get_audio_parameters"),
                                [DictVal({k: (True, v) for k, v in case["d"].items()})], {}, None)
                return {"out": list(r)}
            except PyRaise as ex:
                return {"exc": ex.exc}
        if p == "guess":
            return {"out": e.call_func(prog.func("auditok.io._guess_audio_format"), [case["name"], case["fmt"]], {}, None)}
    res = eng.explore(run)
    if len(res) != 1:
        return {"engine_error": "concrete run forked into %d paths" % len(res)}
    r = res[0]
    if r.outcome == "raise":
        return {"exc": r.exc.exc}
    return r.value


def bytes_of(v):
    if isinstance(v, bytes):
        return v
    if isinstance(v, Seq) and v.items is not None:
        return bytes(v.items)
    raise Unsupported("non-concrete bytes in concrete mode")


CPY = r'''
import json, sys, warnings
warnings.simplefilter("ignore")
from auditok.core import StreamTokenizer, AudioRegion
from auditok.util import StringDataSource, make_duration_formatter
from auditok.io import BufferAudioSource, _get_audio_parameters, _guess_audio_format
def mkdata(n, sw, ch): return bytes((7 * i + 3) % 251 for i in range(n * sw * ch))
def one(case):
    p = case["probe"]
    if p == "tokenize":
        try: tk = StreamTokenizer(str.isupper, *case["args"])
        except Exception as e: return {"exc": type(e).__name__}
        return {"tokens": [["".join(d), a, b] for d, a, b in tk.tokenize(StringDataSource(case["stream"]))]}
    if p == "region":
        r = AudioRegion(mkdata(case["n"], case["sw"], case["ch"]), 16, case["sw"], case["ch"]); o = {}
        try: o["slice"] = list(bytes(r[case["a"]:case["b"]]))
        except Exception as e: o["slice"] = type(e).__name__
        o["len"] = len(r)
        try: o["div"] = [len(bytes(x)) for x in r / case["div"]]
        except Exception as e: o["div"] = type(e).__name__
        o["mul"] = len(bytes(r * case["mul"]))
        return o
    if p == "buffer":
        src = BufferAudioSource(mkdata(case["n"], case["sw"], case["ch"]), 16, case["sw"], case["ch"]); src.open(); log = []
        for op, arg in case["ops"]:
            try:
                if op == "read":
                    r = src.read(arg); log.append(None if r is None else list(r))
                elif op == "pos":
                    src.position = arg; log.append(src.position)
                elif op == "rewind":
                    src.rewind(); log.append(src.position)
                else:
                    src.close(); src.open(); log.append(src.position)
            except Exception as e: log.append("!" + type(e).__name__)
        return {"log": log}
    if p == "formatter":
        try: return {"out": make_duration_formatter(case["fmt"])(case["seconds"])}
        except Exception as e: return {"exc": type(e).__name__}
    if p == "params":
        try: return {"out": list(_get_audio_parameters(case["d"]))}
        except Exception as e: return {"exc": type(e).__name__}
    if p == "guess":
        return {"out": _guess_audio_format(case["name"], case["fmt"])}
cases = json.load(sys.stdin)
print(json.dumps([one(c) for c in cases]))
'''


def run(repo, seed, n):
    prog = Program(repo)
    cases = gen_cases(seed, n)
    env = dict(os.environ)
    env["PYTHONPATH"] = repo
    out = subprocess.run(["/venv/bin/python", "-c", CPY], input=json.dumps(cases), capture_output=True, text=True,
                         env=env, cwd=repo, timeout=600)
    if out.returncode != 0:
        return {"runs": 0, "disagreements": [], "error": out.stderr[-800:]}
    ref = json.loads(out.stdout.strip().splitlines()[-1])
    dis = []
    unsupported = 0
    for c, r in zip(cases, ref):
        try:
            got = engine_side(prog, c)
        except Unsupported as e:
            unsupported += 1
            continue
        try:
            got_j = json.loads(json.dumps(got))
        except TypeError:
            # the engine left part of the result opaque (e.g. a string built by an f-string with a format spec): there is
            # no concrete value to compare -- counted as unsupported, like an Unsupported construct
            unsupported += 1
            continue
        if got_j != r:
            dis.append({"case": c, "engine": got, "cpython": r})
    return {"runs": len(cases), "engine_unsupported": unsupported, "disagreements": dis[:5], "n_disagreements": len(dis)}


if __name__ == "__main__":
    sys.path.insert(0, ROOT)
    r = run(os.environ.get("VERIF_REPO", "/repo"), int(sys.argv[1]) if len(sys.argv) > 1 else 0,
            int(sys.argv[2]) if len(sys.argv) > 2 else 200)
    print(json.dumps(r, indent=1)[:3000])


# ---------------------------------------------------------------------------
# pinned-symbolic cross-check: inputs are z3 constants equated to concrete values, so the SYMBOLIC
# transfer functions (slice normalisation, floor division, FlQ rounding, sequence model, path
# feasibility) are the ones exercised; results are evaluated in the model and compared with CPython.

def pinned_cases(seed, n):
    rnd = random.Random(seed * 7919 + 1)
    cs = []
    for _ in range(n):
        k = rnd.randrange(5)
        if k == 0:
            M = rnd.randint(1, 5)
            cs.append({"probe": "p_process", "m": rnd.randint(1, M), "M": M, "s": rnd.randint(-1, M - 1), "i0": rnd.choice([0, 1, 2, 3]),
                       "ims": rnd.randint(0, 2), "strict": rnd.random() < .5, "drop": rnd.random() < .5,
                       "state": rnd.randint(0, 3), "sl": rnd.randint(0, 3), "ic": rnd.randint(0, 3), "dlen": rnd.randint(0, M + 1),
                       "ct": rnd.random() < .5, "sf": rnd.randint(0, 4), "valid": rnd.random() < .5, "post": rnd.random() < .2})
        elif k == 1:
            sw, ch = rnd.choice([(1, 1), (2, 1), (2, 2), (4, 3)])
            n_ = rnd.randint(0, 6)
            cs.append({"probe": "p_slice", "n": n_, "sw": sw, "ch": ch, "a": rnd.choice([None] + list(range(-2 * n_ - 2, 2 * n_ + 3))),
                       "b": rnd.choice([None] + list(range(-2 * n_ - 2, 2 * n_ + 3)))})
        elif k == 2:
            sw, ch = rnd.choice([(1, 1), (2, 2), (4, 1)])
            n_ = rnd.randint(0, 6)
            cs.append({"probe": "p_read", "n": n_, "sw": sw, "ch": ch, "pos": rnd.randint(0, n_), "size": rnd.choice([None, -2, 0, 1, 2, n_, n_ + 3])})
        elif k == 3:
            cs.append({"probe": "p_fmt", "seconds": rnd.choice([0, 1, 59, 60, 3599, 3600, 3661, 86399, 360000 + rnd.randint(0, 5000)])})
        else:
            e = rnd.randint(-60, -1)
            m = rnd.randint(2 ** 52, 2 ** 53 - 1)
            if rnd.random() < .5:           # near an integer
                kk = rnd.randint(1, 1000)
                sc = 2 ** (-e)
                m2 = kk * sc + rnd.choice([-3, -1, 0, 1, 2, 5])
                if 2 ** 52 <= m2 < 2 ** 53:
                    m = m2
            cs.append({"probe": "p_dtnw", "m": m, "e": e, "mode": rnd.choice(["floor", "ceil"])})
    return cs


def pinned_engine(prog, sess_factory, c):
    import z3
    from .values import I, B, Seq, Opq, FlQ, fresh_seq
    sess = sess_factory()
    out = {}

    def mval(eng, t):
        s = z3.Solver()
        for h in eng.st.pc:
            s.add(h)
        assert s.check() == z3.sat
        mdl = s.model()

        def ev(x):
            if isinstance(x, bool) or x is None or isinstance(x, (int, str)):
                return x
            v = mdl.eval(x, model_completion=True)
            if z3.is_int_value(v):
                return v.as_long()
            if z3.is_true(v):
                return True
            if z3.is_false(v):
                return False
            return str(v)
        return ev

    def run(eng):
        p = c["probe"]
        if p == "p_process":
            from props import tokenizer as T
            ctx = T.TokCtx(sess)
            eng.inline |= {T.Q + "_process_end_of_detection"}
            P = T.P()
            f = T.Fields("x.")
            n = z3.Int("n")
            nval = c["sf"] + c["dlen"]
            eng.assume(z3.And(P.m == c["m"], P.M == c["M"], P.s == c["s"], P.i0 == c["i0"], P.ims == c["ims"],
                              P.strict == c["strict"], P.drop == c["drop"], f.state == c["state"], f.sl == c["sl"],
                              f.ic == c["ic"], f.sf == c["sf"], f.ct == c["ct"], n == nval, T.V(n) == c["valid"]))
            dl = z3.Int("dl")
            eng.assume(dl == c["dlen"])
            sf = f.sf
            data = Seq("list", dl, lambda i: Opq(T.F(sf + I(i))), 12345)
            me = ctx.make_self(eng, P, f, n, n, data=data)
            eng.st.ghost["cur"] = n
            # the CPython side feeds the non-empty string "f<n>": a truthy frame
            from .engine import _TRUTHY
            eng.assume(_TRUTHY(T.F(n)))
            if c["post"]:
                res = eng.run_function(ctx.fi["_post_process"], [], {}, me)
            else:
                res = eng.run_function(ctx.fi["_process"], [Opq(T.F(n))], {}, me)
            ev = mval(eng, None)
            h = eng.st.heap[me.oid]
            o = {"state": ev(I(h["_state"])), "sl": ev(I(h["_silence_length"])), "ic": ev(I(h["_init_count"])),
                 "sf": ev(I(h["_start_frame"])), "ct": ev(B(h["_contiguous_token"])), "dlen": ev(I(h["_data"].n))}
            if res is None:
                o["tok"] = None
            else:
                o["tok"] = [ev(I(res[0].n)), ev(I(res[1])), ev(I(res[2]))]
            return o
        if p == "p_slice":
            from props import regions as RG
            from .engine import SliceVal
            eng2 = eng
            eng.inline |= {RG.QC + "_check_convert_index"} | set(RG.ACCESSORS)
            eng.ctor_contracts = {"AudioRegion": RG.ctor_contract}
            v = RG.RV("r")
            eng.assume(v.wf(eng))
            eng.assume(z3.And(v.ns == c["n"], v.sw == c["sw"], v.ch == c["ch"], v.sr == 16))
            data = mkdata(c["n"], c["sw"], c["ch"])
            for i, bt in enumerate(data):
                eng.assume(I(v.data.at(i)) == bt)
            me = RG.region_obj(eng, v)

            def pin(x, nm):
                if x is None:
                    return None
                t = z3.Int(nm)
                eng.assume(t == x)
                return t
            res = eng.run_function(prog.func(RG.QR + "__getitem__"), [SliceVal(pin(c["a"], "a"), pin(c["b"], "b"), None)], {}, me)
            d = eng.st.heap[res.oid]["data"]
            ev = mval(eng, None)
            ln = ev(I(d.n))
            return {"slice": [ev(I(d.at(i))) for i in range(ln)]}
        if p == "p_read":
            from props import sources as SR
            eng.inline |= set(SR.ACCESS)
            v = SR.SV(eng)
            eng.assume(z3.And(v.N == c["n"], v.sw == c["sw"], v.ch == c["ch"], v.sr == 16, v.pos == c["pos"]))
            data = mkdata(c["n"], c["sw"], c["ch"])
            for i, bt in enumerate(data):
                eng.assume(I(v.audio.at(i)) == bt)
            me = SR.buffer_obj(eng, v, True)
            size = c["size"]
            if size is not None:
                t = z3.Int("size")
                eng.assume(t == size)
                size = t
            res = eng.run_function(prog.func(SR.QB + "read"), [size], {}, me)
            ev = mval(eng, None)
            o = {"pos": ev(I(eng.st.heap[me.oid]["_current_position_bytes"]))}
            o["data"] = None if res is None else [ev(I(res.at(i))) for i in range(ev(I(res.n)))]
            return o
        if p == "p_fmt":
            calls = []
            eng.st.ghost["str_format"] = lambda e, tpl, a, k: calls.append((tpl, a, k)) or Opq(tag="str")
            f = eng.call_func(prog.func("auditok.util.make_duration_formatter"), ["%h:%m:%s.%i"], {}, None) if False else None
            eng.inline.add("auditok.util.make_duration_formatter")
            f = eng.call_func(prog.func("auditok.util.make_duration_formatter"), ["%h:%m:%s.%i"], {}, None)
            sec = z3.Int("seconds")
            eng.assume(sec == c["seconds"])
            eng.call_value(f, [sec], {})
            ev = mval(eng, None)
            kw = calls[0][2]
            return {"fields": [ev(I(kw[x])) for x in ("hrs", "mins", "secs", "millis")]}
        if p == "p_dtnw":
            from props import split as SP
            SP.install_math(eng)
            m = z3.Int("m")
            eng.assume(m == c["m"])
            qv = FlQ(m, 2 ** (-c["e"]))
            eng.float_strict = True
            eng.st.ghost["fdiv"] = lambda a, b: qv
            from .values import fl_sub_int
            eng.st.ghost["fsub"] = lambda a, b: fl_sub_int(a, b)
            d, w = Fl(z3.Real("d")), Fl(z3.Real("w"))
            eng.assume(z3.And(d.t > 0, w.t > 0))
            import ast as _ast
            from .engine import Frame as _Frame
            eps = eng.eval(_ast.Constant(value=1e-9), _Frame(None, {}, prog.modules["auditok.core"]))     # the statement's tolerance
            rfn = LibCallable("math." + c["mode"], eng.lib["math." + c["mode"]])
            res = eng.run_function(prog.func("auditok.core._duration_to_nb_windows"), [d, w, rfn, eps], {})
            ev = mval(eng, None)
            return {"count": ev(I(res))}
    eng = sess.engine()
    res = eng.explore(run)
    live = [r for r in res if r.outcome == "return" and r.value is not None]
    if len(live) != 1:
        return {"engine_error": "pinned run has %d live paths (%s)" % (len(live), [r.outcome for r in res])}
    return live[0].value


CPY2 = r'''
import json, sys, math, warnings
warnings.simplefilter("ignore")
from auditok.core import StreamTokenizer, AudioRegion, _duration_to_nb_windows
from auditok.util import make_duration_formatter
from auditok.io import BufferAudioSource
def mkdata(n, sw, ch): return bytes((7 * i + 3) % 251 for i in range(n * sw * ch))
def one(c):
    p = c["probe"]
    if p == "p_process":
        mode = (2 if c["strict"] else 0) | (4 if c["drop"] else 0)
        t = StreamTokenizer.__new__(StreamTokenizer)
        t._is_valid = lambda fr: c["valid"]
        t.min_length, t.max_length, t.max_continuous_silence, t.init_min, t.init_max_silent = c["m"], c["M"], c["s"], c["i0"], c["ims"]
        t._strict_min_length, t._drop_trailing_silence = c["strict"], c["drop"]
        t._state, t._silence_length, t._init_count, t._start_frame, t._contiguous_token = c["state"], c["sl"], c["ic"], c["sf"], c["ct"]
        t._data = ["f%d" % (c["sf"] + i) for i in range(c["dlen"])]
        t._current_frame = c["sf"] + c["dlen"]
        res = t._post_process() if c["post"] else t._process("f%d" % t._current_frame)
        o = {"state": t._state, "sl": t._silence_length, "ic": t._init_count, "sf": t._start_frame, "ct": t._contiguous_token, "dlen": len(t._data)}
        o["tok"] = None if res is None else [len(res[0]), res[1], res[2]]
        return o
    if p == "p_slice":
        r = AudioRegion(mkdata(c["n"], c["sw"], c["ch"]), 16, c["sw"], c["ch"])
        return {"slice": list(bytes(r[c["a"]:c["b"]]))}
    if p == "p_read":
        s = BufferAudioSource(mkdata(c["n"], c["sw"], c["ch"]), 16, c["sw"], c["ch"]); s.open(); s.position = c["pos"]
        r = s.read(c["size"])
        return {"pos": s._current_position_bytes, "data": None if r is None else list(r)}
    if p == "p_fmt":
        out = make_duration_formatter("%h:%m:%s.%i")(c["seconds"])
        h, m, rest = out.split(":"); s_, i = rest.split(".")
        return {"fields": [int(h), int(m), int(s_), int(i)]}
    if p == "p_dtnw":
        q = math.ldexp(float(c["m"]), c["e"])
        return {"count": _duration_to_nb_windows(q, 1.0, math.floor if c["mode"] == "floor" else math.ceil, 1e-9)}
cases = json.load(sys.stdin)
print(json.dumps([one(c) for c in cases]))
'''


def run_pinned(repo, seed, n):
    sys.path.insert(0, ROOT)
    from .harness import Session
    prog = Program(repo)
    cases = pinned_cases(seed, n)
    env = dict(os.environ)
    env["PYTHONPATH"] = repo
    out = subprocess.run(["/venv/bin/python", "-c", CPY2], input=json.dumps(cases), capture_output=True, text=True,
                         env=env, cwd=repo, timeout=900)
    if out.returncode != 0:
        return {"runs": 0, "disagreements": [], "error": out.stderr[-800:]}
    ref = json.loads(out.stdout.strip().splitlines()[-1])
    dis, unsup = [], 0
    for c, r in zip(cases, ref):
        try:
            got = pinned_engine(prog, lambda: Session(repo=repo, prog=prog), c)
        except Unsupported:
            unsup += 1
            continue
        try:
            got_j = json.loads(json.dumps(got))
        except TypeError:
            # the engine left part of the result opaque (e.g. a string built by an f-string with a format spec): there is
            # no concrete value to compare -- counted as unsupported, like an Unsupported construct
            unsupported += 1
            continue
        if got_j != r:
            dis.append({"case": c, "engine": got, "cpython": r})
    return {"runs": len(cases), "engine_unsupported": unsup, "disagreements": dis[:5], "n_disagreements": len(dis)}

"""Common scaffolding for property checks: running functions under contract,
collecting obligations, discharging them, vacuity guards, evidence."""
import hashlib
import json
import os
import sys
import time
import traceback
import z3

from .engine import Engine, Unsupported, PathEnd, PyRaise, Obligation
from .program import Program
from . import solve


class CheckerError(Exception):
    """exit 3"""


class Unit:
    """One function (or lemma group) verified against its contract."""

    def __init__(self, name, qualnames=(), kind="function"):
        self.name = name
        self.qualnames = list(qualnames)
        self.kind = kind
        self.obligations = []
        self.paths = 0
        self.feasible_exits = 0
        self.time = 0.0
        self.houdini_dropped = []
        self.notes = []


class Session:
    def __init__(self, tier="quick", seed=0, repo=None, prog=None):
        self.tier = tier
        self.seed = seed
        self.prog = prog if prog is not None else Program(repo)
        self.units = []
        self.assumptions = []
        self.trusted = []
        self.bounded = []
        self.noops = []
        self.inlined = set()
        self.interpreted = set()
        self.used_contracts = set()
        self.used_lib = set()
        self.t0 = time.time()
        self.errors = []

    def engine(self):
        e = Engine(self.prog)
        return e

    def run_unit(self, unit, engine, run, max_paths=20000):
        """Explore all paths of `run`; obligations recorded by engine.prove."""
        t0 = time.time()
        engine.obligations = []
        engine.path_tag = unit.name
        try:
            results = engine.explore(run, max_paths=max_paths)
        except Unsupported as e:
            # the obligations recorded before the unsupported construct was met stand on their own (each is a path
            # condition and a goal): they are kept and decided, the unit itself is a checker error
            err = CheckerError("unsupported construct while verifying %s: %s" % (unit.name, e))
            err.partial = list(engine.obligations)
            err.interpreted = set(engine.interpreted)
            raise err
        # an exception that escapes the harness is one no contract clause permits
        import z3 as _z3
        from .engine import Obligation as _Ob
        for r in results:
            if r.outcome == "raise":
                tags = set()
                for ob in engine.obligations:
                    tags.update(t for t in ob.props if t != "*")
                ob = _Ob("no-exception:%s raises %s (no contract clause permits it)" % (unit.name, r.exc.exc),
                         tuple(sorted(tags)) or ("*",), list(r.state.pc), _z3.BoolVal(False),
                         where=str(getattr(r.exc.node, "lineno", "")))
                ob.path = unit.name + ":" + ",".join(map(str, r.decisions))
                engine.obligations.append(ob)
        unit.paths += len(results)
        unit.feasible_exits += sum(1 for r in results if r.outcome in ("return", "raise"))
        unit.obligations.extend(engine.obligations)
        unit.time += time.time() - t0
        self.noops.extend(engine.noops)
        self.inlined |= engine.used_inline
        self.interpreted |= engine.interpreted
        self.used_contracts |= engine.used_contracts
        self.used_lib |= engine.used_lib
        if unit not in self.units:
            self.units.append(unit)
        return results

    def discharge(self, obligations, second=False):
        for ob in obligations:
            if ob.status is None:
                solve.check(ob, second=second)

    def func_info(self, q):
        try:
            return self.prog.func(q)
        except KeyError as e:
            raise CheckerError("contract drift: %s" % e)


def dedup(obligations):
    """Merge obligations that have the same name (one per path) keeping all."""
    return obligations


def ob_id(ob):
    return hashlib.sha1((ob.name + "|" + (ob.path or "")).encode()).hexdigest()[:10]

"""pyvc -- verification-condition generator for the real Python source of /repo.

Every run re-parses /repo/auditok/*.py with `ast`, symbolically executes the
functions under contract path by path, and discharges the resulting obligations
with z3 (API) and, for anything z3 leaves open, cvc5 / z3-4.8 on SMT-LIB2.
See /verif/DESIGN.md section 2.
"""

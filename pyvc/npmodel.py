"""Library model of the numpy operations used by auditok.signal / auditok.util
(ASSUMED contracts on a dependency -- listed in evidence; validated against the
real numpy by a bounded differential run in the thorough tier of C07).

An array is (shape, at) with `at(*idx)` a z3 Real term.  Reductions over an
axis of symbolic extent are uninterpreted functions *keyed by the syntax of the
reduced body* (simplified z3 term with canonical bound variables): the same
body gives the same reduction, different bodies give unrelated ones -- sound,
possibly incomplete.  sqrt / log10 are uninterpreted with the instantiated
axioms  y >= 0 => sqrt(y) >= 0 and (sqrt(y) > 0 <=> y > 0);  y > 0 => log10(y) == 2*log10(sqrt(y));
log10(1e-10) == -10.
"""
import fractions
import z3

from .values import Seq, Fl, I, R, as_seq, is_int, IntS
from .engine import Unsupported, PyRaise, LibCallable, PartialVal, ClassVal

RealS = z3.RealSort()
SQRT = z3.Function("sqrt", RealS, RealS)
LOG10 = z3.Function("log10", RealS, RealS)
BV0, BV1 = z3.Int("#i"), z3.Int("#j")      # canonical bound variables for reduction keys
_red_cache = {}

DTYPES = {"int8": (1, True), "int16": (2, True), "int32": (4, True), "uint8": (1, False), "uint16": (2, False),
          "uint32": (4, False), "float64": (8, None), "int64": (8, True), "float32": (4, None)}


class NpArr:
    def __init__(self, shape, at, descr=""):
        self.shape = tuple(shape)
        self.at = at
        self.descr = descr

    @property
    def ndim(self):
        return len(self.shape)


def sle(data, k, width, signed=True):
    """Little-endian integer of `width` bytes starting at sample index k."""
    data = as_seq(data)
    base = I(k) * width
    u = 0
    for t in range(width):
        u = u + I(data.at(base + t)) * (256 ** t)
    if signed:
        return z3.If(u >= 2 ** (8 * width - 1), u - 2 ** (8 * width), u)
    return u


_COMM = (z3.Z3_OP_ADD, z3.Z3_OP_MUL, z3.Z3_OP_AND, z3.Z3_OP_OR, z3.Z3_OP_EQ, z3.Z3_OP_DISTINCT)


def canon(e, memo=None):
    """Canonical string of a term: children of commutative operators are
    flattened and sorted (z3.simplify alone does not fix their order)."""
    if memo is None:
        memo = {}
    i = e.get_id()
    if i in memo:
        return memo[i]
    if z3.is_app(e):
        k = e.decl().kind()
        ch = e.children()
        if not ch:
            r = str(e)
        else:
            if k in (z3.Z3_OP_ADD, z3.Z3_OP_MUL):
                flat = []
                stack = list(ch)
                while stack:
                    c = stack.pop()
                    if z3.is_app(c) and c.decl().kind() == k:
                        stack.extend(c.children())
                    else:
                        flat.append(c)
                ch = flat
            parts = [canon(c, memo) for c in ch]
            if k in _COMM:
                parts.sort()
            r = "(%s %s)" % (e.decl().name(), " ".join(parts))
    else:
        r = e.sexpr()
    memo[i] = r
    return r


def _key(body, extra=""):
    return canon(z3.simplify(body)) + "|" + extra


def reduce_fn(kind, body, free, extent, extra=""):
    """Uninterpreted reduction of `body` (a term in the canonical bound variable
    BV0, possibly with the free variable BV1) over BV0 in [0, extent).
    Over a single element (extent == 1) mean / max / min are that element."""
    ext = z3.simplify(I(extent))
    if z3.is_int_value(ext) and ext.as_long() == 1:
        b0 = z3.substitute(body, (BV0, z3.IntVal(0)))
        if free:
            return lambda j: z3.substitute(b0, (BV1, I(j)))
        return b0
    k = (kind, _key(body), z3.simplify(I(extent)).sexpr(), extra, free)
    f = _red_cache.get(k)
    if f is None:
        name = "%s!%d" % (kind, len(_red_cache))
        f = z3.Function(name, IntS, RealS) if free else z3.Const(name, RealS)
        _red_cache[k] = f
    return f


def install(eng, facts):
    """Register the numpy / functools models on an engine.  `facts` collects the
    instantiated sqrt/log10 axioms (assumed by the caller)."""

    def dtype_of(v):
        if isinstance(v, ClassVal) and v.name in DTYPES:
            return v.name
        if isinstance(v, NpDType):
            return v.name
        raise Unsupported("numpy dtype %r" % (v,))

    def frombuffer(e, a, k):
        data = e.force(a[0])
        if any(x in k for x in ("count", "offset")) or len(a) > 2:
            raise Unsupported("numpy.frombuffer with count / offset (only whole-buffer decoding is modelled)")
        dt = dtype_of(e.force(k.get("dtype", a[1] if len(a) > 1 else None)))
        w, signed = DTYPES[dt]
        if signed is None:
            raise Unsupported("frombuffer of float dtype")
        data = as_seq(data)
        q, r = e.div_elim(I(data.n), z3.IntVal(w))
        if e.decide(z3.simplify(r != 0)):
            raise PyRaise("ValueError", ("buffer size must be a multiple of element size",))
        return NpArr((q,), lambda i: z3.ToReal(sle(data, i, w, signed)), "frombuffer:%s" % dt)

    def astype(e, arr, a, k):
        dt = dtype_of(e.force(a[0]))
        if dt == "float64":
            return NpArr(arr.shape, arr.at, arr.descr + ".f64")
        if dt == "int64":
            # conversion to a (wide) integer type truncates toward zero, element by element
            def tr(*idx):
                t = arr.at(*idx)
                return z3.ToReal(z3.If(t >= 0, z3.ToInt(t), -z3.ToInt(-t)))
            return NpArr(arr.shape, tr, arr.descr + ".i64")
        raise Unsupported("astype(%s)" % dt)

    def reshape(e, arr, a, k):
        order = e.force(k.get("order", "C"))
        dims = [e.force(x) for x in a]
        if arr.ndim != 1 or len(dims) != 2:
            raise Unsupported("reshape shape")
        n = arr.shape[0]
        r_, c_ = dims
        if isinstance(c_, int) and c_ == -1:
            q, rem = e.div_elim(I(n), I(r_))
            if e.decide(rem != 0):
                raise PyRaise("ValueError", ("cannot reshape",))
            rows, cols = I(r_), q
        elif isinstance(r_, int) and r_ == -1:
            q, rem = e.div_elim(I(n), I(c_))
            if e.decide(rem != 0):
                raise PyRaise("ValueError", ("cannot reshape",))
            rows, cols = q, I(c_)
        else:
            raise Unsupported("reshape without -1")
        if order == "F":
            return NpArr((rows, cols), lambda j, i: arr.at(I(j) + I(i) * rows), arr.descr + ".reshapeF")
        if order == "C":
            return NpArr((rows, cols), lambda j, i: arr.at(I(j) * cols + I(i)), arr.descr + ".reshapeC")
        raise Unsupported("reshape order %r" % (order,))

    def mean(e, arr, a, k):
        axis = e.force(k.get("axis", a[0] if a else None))
        if axis is None:
            raise Unsupported("mean over all axes")
        if arr.ndim == 2:
            rows, cols = arr.shape
            if axis in (0, -2):
                f = reduce_fn("mean_rows", arr.at(BV0, BV1), True, rows)
                return NpArr((cols,), lambda i: f(I(i)), "mean0")
            if axis in (1, -1):
                f = reduce_fn("mean_cols", arr.at(BV1, BV0), True, cols)
                return NpArr((rows,), lambda j: f(I(j)), "mean1")
        if arr.ndim == 1 and axis in (0, -1):
            f = reduce_fn("mean_all", arr.at(BV0), False, arr.shape[0])
            return NpArr((), lambda: f, "mean")
        raise Unsupported("mean axis %r on %d-d" % (axis, arr.ndim))

    def np_mean(e, a, k):
        return mean(e, e.force(a[0]), a[1:], k)

    def pointwise(fn, tag):
        def f(e, a, k):
            x = e.force(a[0])
            if isinstance(x, NpArr):
                return NpArr(x.shape, lambda *idx: fn(e, x.at(*idx)), tag)
            if isinstance(x, Fl) or is_int(x):
                return Fl(fn(e, R(x)))
            raise Unsupported("%s of %r" % (tag, x))
        return f

    def t_sqrt(e, y):
        s = SQRT(y)
        facts.append(z3.Implies(y >= 0, z3.And(s >= 0, (s > 0) == (y > 0))))
        return s

    def t_log10(e, y):
        l = LOG10(y)
        s = SQRT(y)
        facts.append(z3.Implies(y > 0, z3.And(s > 0, l == 2 * LOG10(s))))
        return l

    def np_clip(e, a, k):
        x = e.force(a[0])
        lo = e.force(k.get("a_min", a[1] if len(a) > 1 else None))
        hi = e.force(k.get("a_max", a[2] if len(a) > 2 else None))

        def cl(t):
            if lo is not None:
                t = z3.If(t < R(lo), R(lo), t)
            if hi is not None:
                t = z3.If(t > R(hi), R(hi), t)
            return t
        if isinstance(x, NpArr):
            return NpArr(x.shape, lambda *idx: cl(x.at(*idx)), "clip")
        raise Unsupported("clip of %r" % (x,))

    def np_array(e, a, k):
        x = e.force(a[0])
        dt = k.get("dtype", a[1] if len(a) > 1 else None)
        if isinstance(x, NpArr):
            if dt is None:
                return x
            return astype(e, x, [dt], {})
        raise Unsupported("np.array of %r" % (x,))

    def np_abs(e, a, k):
        x = e.force(a[0])
        if k or len(a) != 1:
            raise Unsupported("numpy.abs with extra arguments")
        if isinstance(x, NpArr):
            return NpArr(x.shape, lambda *idx: (lambda t: z3.If(t < 0, -t, t))(x.at(*idx)), "abs")
        raise Unsupported("np.abs of %r" % (x,))

    def np_square(e, a, k):
        x = e.force(a[0])
        if k or len(a) != 1:
            raise Unsupported("numpy.square with out= / extra arguments")
        if isinstance(x, NpArr):
            return NpArr(x.shape, lambda *idx: (lambda t: t * t)(x.at(*idx)), "square")
        raise Unsupported("np.square of %r" % (x,))

    def np_max(e, a, k):
        x = e.force(a[0])
        axis = e.force(k.get("axis", a[1] if len(a) > 1 else None))
        if isinstance(x, NpArr) and x.ndim == 2 and axis is not None:
            rows, cols = x.shape
            if axis in (0, -2):
                f = reduce_fn("max_rows", x.at(BV0, BV1), True, rows)
                return NpArr((cols,), lambda i: f(I(i)), "max0")
            if axis in (1, -1):
                f = reduce_fn("max_cols", x.at(BV1, BV0), True, cols)
                return NpArr((rows,), lambda j: f(I(j)), "max1")
            raise Unsupported("np.max axis %r" % (axis,))
        if axis is not None and not (isinstance(x, NpArr) and x.ndim == 1 and axis in (0, -1)):
            raise Unsupported("np.max with axis on %r" % (x,))
        if isinstance(x, NpArr):
            if x.ndim == 0:
                return x
            if x.ndim == 1:
                f = reduce_fn("max_all", x.at(BV0), False, x.shape[0])
                return NpArr((), lambda: f, "max")
        raise Unsupported("np.max of %r" % (x,))

    def np_min(e, a, k):
        x = e.force(a[0])
        if isinstance(x, NpArr) and x.ndim == 1:
            f = reduce_fn("min_all", x.at(BV0), False, x.shape[0])
            return NpArr((), lambda: f, "min")
        raise Unsupported("np.min of %r" % (x,))

    eng.lib["numpy.frombuffer"] = frombuffer
    eng.lib["numpy.mean"] = np_mean
    eng.lib["numpy.sqrt"] = pointwise(t_sqrt, "sqrt")
    eng.lib["numpy.log10"] = pointwise(t_log10, "log10")
    eng.lib["numpy.clip"] = np_clip
    eng.lib["numpy.array"] = np_array
    eng.lib["numpy.asarray"] = np_array
    eng.lib["numpy.abs"] = np_abs
    eng.lib["numpy.absolute"] = np_abs
    eng.lib["numpy.square"] = np_square
    eng.lib["numpy.max"] = np_max
    eng.lib["numpy.min"] = np_min
    for dt in DTYPES:
        eng.lib["numpy." + dt] = None
    eng.lib["method:NpArr.astype"] = astype
    eng.lib["method:NpArr.reshape"] = reshape
    eng.lib["method:NpArr.mean"] = mean
    eng.lib["functools.partial"] = lambda e, a, k: PartialVal(a[0], list(a[1:]), dict(k))
    eng.np_installed = True


class NpDType:
    def __init__(self, name):
        self.name = name


def arr_binop(eng, op, a, b):
    """NpArr <op> scalar / scalar <op> NpArr / NpArr ** 2 / comparisons."""
    import ast

    def lift(fn):
        if isinstance(a, NpArr):
            return NpArr(a.shape, lambda *idx: fn(a.at(*idx), R(b)), "op")
        return NpArr(b.shape, lambda *idx: fn(R(a), b.at(*idx)), "op")
    if isinstance(op, ast.Pow) and isinstance(a, NpArr) and isinstance(b, int) and b == 2:
        return NpArr(a.shape, lambda *idx: a.at(*idx) * a.at(*idx), "sq")
    if isinstance(op, ast.Mult):
        return lift(lambda x, y: x * y)
    if isinstance(op, ast.Add):
        return lift(lambda x, y: x + y)
    if isinstance(op, ast.Sub):
        return lift(lambda x, y: x - y)
    if isinstance(op, ast.Div):
        return lift(lambda x, y: x / y)
    raise Unsupported("array operation %s" % type(op).__name__)

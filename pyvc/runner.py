"""Run verification units in worker processes and bring back plain records."""
import importlib
import multiprocessing as mp
import os
import sys
import time
import traceback

ROOT = os.path.dirname(os.path.dirname(os.path.abspath(__file__)))


def _worker(job):
    module, unit, opts, tier, repo, second = job
    sys.path.insert(0, ROOT)
    t0 = time.time()
    try:
        from pyvc.harness import Session, CheckerError
        from pyvc import solve
        mod = importlib.import_module(module)
        sess = Session(tier=tier, repo=repo)
        ctx = mod.make_ctx(sess)
        u = mod.UNITS[unit](sess, ctx, opts)
        sess.discharge(u.obligations, second=second)
        obs = []
        samples = []
        for i, ob in enumerate(u.obligations):
            rec = {"name": ob.name, "props": list(ob.props), "status": ob.status, "time": round(ob.time, 4),
                   "backend": ob.backend, "path": ob.path, "where": ob.where}
            if ob.status == "sat":
                rec["model"] = solve.model_dict(ob.model)
            if getattr(ob, "second", None):
                rec["second"] = list(ob.second)
            if len(samples) < 2 and (i % 7 == 3 or ob.status == "sat"):
                samples.append({"obligation": ob.name, "smt2": solve.smt2_of(ob, 2500)})
            obs.append(rec)
        funcs = []
        for q in u.qualnames:
            fi = sess.func_info(q)
            funcs.append({"qualname": q, "file": os.path.relpath(fi.file, sess.prog.repo),
                          "lines": list(fi.span), "sha256": fi.sha256})
        return {"unit": unit, "title": u.name, "kind": u.kind, "functions": funcs, "paths": u.paths,
                "live_paths": u.feasible_exits, "time": round(time.time() - t0, 3), "obligations": obs,
                "noops": sorted(set(sess.noops)), "inlined": sorted(sess.inlined), "interpreted": sorted(sess.interpreted),
                "contracts_used": sorted(sess.used_contracts), "lib_used": sorted(sess.used_lib),
                "samples": samples, "notes": u.notes, "error": None}
    except Exception as e:   # checker error (exit 3), never a violation
        obs = []
        try:
            from pyvc import solve as _solve
            for ob in getattr(e, "partial", []) or []:
                if ob.status is None:
                    _solve.check(ob, second=False)
                rec = {"name": ob.name, "props": list(ob.props), "status": ob.status, "time": round(ob.time, 4),
                       "backend": ob.backend, "path": ob.path, "where": ob.where}
                if ob.status == "sat":
                    rec["model"] = _solve.model_dict(ob.model)
                    obs.append(rec)          # only refutations survive a unit that could not be completed
        except Exception:  # noqa
            obs = []
        return {"unit": unit, "title": unit, "kind": "error", "functions": [], "paths": 0, "live_paths": 0,
                "time": round(time.time() - t0, 3), "obligations": obs, "noops": [], "inlined": [],
                "interpreted": sorted(getattr(e, "interpreted", ())),
                "contracts_used": [], "lib_used": [], "samples": [], "notes": [],
                "error": "%s: %s\n%s" % (type(e).__name__, e, traceback.format_exc(limit=8))}


def run_units(jobs, procs=None):
    """jobs: list of (module, unit, opts, tier, repo, second)."""
    if not jobs:
        return []
    procs = procs or min(len(jobs), max(1, (os.cpu_count() or 4)))
    if procs == 1 or len(jobs) == 1:
        return [_worker(j) for j in jobs]
    ctx = mp.get_context("fork")
    with ctx.Pool(procs) as pool:
        return pool.map(_worker, jobs, chunksize=1)

"""Discharge obligations: z3 (Python API) first; whatever z3 leaves `unknown`
is dumped as SMT-LIB2 and given to cvc5 and to z3 4.8.12 (CLIs).

An obligation (hyps, goal) is *discharged* when  hyps /\\ not goal  is unsat.
`sat` yields a model (counterexample of the contract);  `unknown` on every back
end is `undecided` -- never mapped to a violation.
"""
import os
import subprocess
import tempfile
import time
import z3

def _z3_ms():
    return int(os.environ.get("VERIF_Z3_TIMEOUT_MS", "30000"))


def _cli_s():
    return int(os.environ.get("VERIF_CLI_TIMEOUT_S", "60"))


def check(ob, second=False):
    """Decide one obligation; sets ob.status/.model/.time/.backend."""
    t0 = time.time()
    s = z3.Solver()
    s.set("timeout", _z3_ms())
    for h in ob.hyps:
        s.add(h)
    s.add(z3.Not(ob.goal))
    r = s.check()
    ob.backend = "z3-%s(api)" % z3.get_version_string()
    if r == z3.unsat:
        ob.status = "unsat"
    elif r == z3.sat:
        ob.status = "sat"
        ob.model = s.model()
    else:
        ob.status = "unknown"
        smt = s.to_smt2()
        for be in ("cvc5", "z3old"):
            rr = run_cli(smt, be)
            if rr in ("unsat", "sat"):
                ob.status = rr
                ob.backend = {"cvc5": "cvc5-1.0.3(cli)", "z3old": "z3-4.8.12(cli)"}[be]
                break
    ob.time = time.time() - t0
    if second and ob.status == "unsat":
        smt = s.to_smt2()
        rr = run_cli(smt, "cvc5")
        if rr == "unknown":
            rr = run_cli(smt, "z3old")
            ob.second = ("z3-4.8.12(cli)", rr)
        else:
            ob.second = ("cvc5-1.0.3(cli)", rr)
    return ob.status


def run_cli(smt, which):
    CLI_TIMEOUT_S = _cli_s()
    d = tempfile.mkdtemp(prefix="pyvc-smt-")
    p = os.path.join(d, "q.smt2")
    try:
        if which == "cvc5":
            # cvc5 needs a logic; quantifier-free UF + linear/nonlinear int/real covers the VCs
            text = "(set-logic ALL)\n" + smt
            cmd = ["/usr/bin/cvc5", "--tlimit=%d" % (CLI_TIMEOUT_S * 1000), p]
        else:
            text = smt
            cmd = ["/usr/bin/z3", "-T:%d" % CLI_TIMEOUT_S, p]
        with open(p, "w") as f:
            f.write(text)
        try:
            out = subprocess.run(cmd, capture_output=True, text=True, timeout=CLI_TIMEOUT_S + 10).stdout
        except subprocess.TimeoutExpired:
            return "unknown"
        first = out.strip().splitlines()[0].strip() if out.strip() else "unknown"
        if first in ("sat", "unsat"):
            return first
        return "unknown"
    finally:
        try:
            os.remove(p)
            os.rmdir(d)
        except OSError:
            pass


def smt2_of(ob, maxlen=4000):
    s = z3.Solver()
    for h in ob.hyps:
        s.add(h)
    s.add(z3.Not(ob.goal))
    t = s.to_smt2()
    return t if len(t) <= maxlen else t[:maxlen] + "\n; ... truncated"


def model_dict(model, maxn=200):
    out = {}
    if model is None:
        return out
    for d in model.decls()[:maxn]:
        try:
            out[d.name()] = str(model[d])
        except Exception:
            pass
    return out

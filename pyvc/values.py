"""Symbolic values and the Python-semantics helper operations on them.

ints      : Python int (concrete) or z3 Int term
bools     : Python bool or z3 Bool term
floats    : `Fl` wrapping a z3 Real term ("real" float mode: + - * / are exact
            real arithmetic; int/round/floor/ceil are exact on that real)
None      : Python None
str/bytes : Python str/bytes when concrete, `Seq` when symbolic
list      : `Seq` (kind 'list')  -- a *value*: (length, index -> element)
tuple     : Python tuple of values
objects   : `Ref` into the path's heap
opaque    : `Opq` -- a z3 constant of an uninterpreted sort
"""
import fractions
import itertools
import z3

_ctr = itertools.count()


def fresh_name(p):
    return "%s!%d" % (p, next(_ctr))


IntS = z3.IntSort()
BoolS = z3.BoolSort()
RealS = z3.RealSort()
ValS = z3.DeclareSort("Val")     # frames and any other opaque Python object


def is_z3(x):
    return isinstance(x, z3.ExprRef)


def is_int(x):
    return (isinstance(x, int) and not isinstance(x, bool)) or (is_z3(x) and x.sort() == IntS)


def is_bool(x):
    return isinstance(x, bool) or (is_z3(x) and x.sort() == BoolS)


def I(x):
    """to z3 Int"""
    if isinstance(x, bool):
        return z3.IntVal(1 if x else 0)
    if isinstance(x, int):
        return z3.IntVal(x)
    if is_z3(x) and x.sort() == BoolS:
        return z3.If(x, z3.IntVal(1), z3.IntVal(0))
    return x


def B(x):
    """to z3 Bool"""
    if isinstance(x, bool):
        return z3.BoolVal(x)
    return x


class Fl:
    """Python float, 'real' mode."""
    __slots__ = ("t",)

    def __init__(self, t):
        if isinstance(t, float):
            fr = fractions.Fraction(t)
            t = z3.RealVal(fr.numerator) / z3.RealVal(fr.denominator) if fr.denominator != 1 else z3.RealVal(fr.numerator)
        elif isinstance(t, int):
            t = z3.RealVal(t)
        self.t = t

    def __repr__(self):
        return "Fl(%s)" % self.t


class FlQ(Fl):
    """A float known to be the exact rational num/den (den a positive Python
    int constant): lets round/floor/ceil/compare be stated in linear integer
    arithmetic (div/mod by the constant den)."""
    __slots__ = ("num", "den")

    def __init__(self, num, den):
        self.num = num if is_z3(num) else z3.IntVal(num)
        self.den = den
        self.t = z3.ToReal(self.num) / z3.RealVal(den) if den != 1 else z3.ToReal(self.num)

    def __repr__(self):
        return "FlQ(%s/%d)" % (self.num, self.den)


def fl_floor(v):
    if isinstance(v, FlQ):
        return v.num / z3.IntVal(v.den)
    return r_floor(v.t)


def fl_ceil(v):
    if isinstance(v, FlQ):
        return -((-v.num) / z3.IntVal(v.den))
    return r_ceil(v.t)


def fl_trunc(v):
    if isinstance(v, FlQ):
        return z3.If(v.num >= 0, v.num / z3.IntVal(v.den), -((-v.num) / z3.IntVal(v.den)))
    return r_trunc(v.t)


def fl_round(v):
    if isinstance(v, FlQ):
        d = z3.IntVal(v.den)
        f = v.num / d
        r2 = 2 * (v.num % d)
        return z3.If(r2 < d, f, z3.If(r2 > d, f + 1, z3.If(f % 2 == 0, f, f + 1)))
    return r_round_half_even(v.t)


def fl_abs(v):
    if isinstance(v, FlQ):
        return FlQ(z3.If(v.num >= 0, v.num, -v.num), v.den)
    return Fl(z3.If(v.t >= 0, v.t, -v.t))


def fl_sub_int(v, k):
    """FlQ minus an integer, as an exact rational."""
    return FlQ(v.num - I(k) * v.den, v.den)


def fl_cmp(op, a, b):
    """a <op> b for numeric a, b where at least one is an FlQ and the other an
    FlQ, an int, or a concrete rational constant: cross-multiplied integers."""
    import fractions

    def parts(x):
        if isinstance(x, FlQ):
            return x.num, x.den
        if isinstance(x, Fl):
            s_ = z3.simplify(x.t)
            if z3.is_rational_value(s_):
                return z3.IntVal(s_.numerator_as_long()), s_.denominator_as_long()
            return None
        if is_int(x):
            return I(x), 1
        return None
    pa, pb = parts(a), parts(b)
    if pa is None or pb is None:
        return None
    l = pa[0] * pb[1]
    r = pb[0] * pa[1]
    return {"<": l < r, "<=": l <= r, ">": l > r, ">=": l >= r, "==": l == r}[op]


def R(x):
    """numeric value -> z3 Real"""
    if isinstance(x, Fl):
        return x.t
    if isinstance(x, float):
        return Fl(x).t
    if isinstance(x, bool):
        return z3.RealVal(1 if x else 0)
    if isinstance(x, int):
        return z3.RealVal(x)
    if is_z3(x):
        if x.sort() == IntS:
            return z3.ToReal(x)
        if x.sort() == BoolS:
            return z3.If(x, z3.RealVal(1), z3.RealVal(0))
        return x
    raise TypeError("not numeric: %r" % (x,))


class Opq:
    """Opaque Python object (frame, message text, ...)."""
    __slots__ = ("t", "tag")

    def __init__(self, t=None, tag="obj"):
        self.t = t if t is not None else z3.Const(fresh_name(tag), ValS)
        self.tag = tag

    def __repr__(self):
        return "Opq(%s)" % self.t


class Ref:
    __slots__ = ("oid", "cls")

    def __init__(self, oid, cls):
        self.oid = oid
        self.cls = cls

    def __repr__(self):
        return "Ref(%s#%s)" % (self.cls, self.oid)

    def __eq__(self, o):
        return isinstance(o, Ref) and o.oid == self.oid

    def __hash__(self):
        return hash(self.oid)


class ClassVal:
    """A class object used as a value (exception classes, AudioIOError, ...)."""
    __slots__ = ("name",)

    def __init__(self, name):
        self.name = name

    def __repr__(self):
        return "Class(%s)" % self.name

    def __eq__(self, o):
        return isinstance(o, ClassVal) and o.name == self.name

    def __hash__(self):
        return hash(("cls", self.name))


class Seq:
    """list / bytes / str as a value: length + element function."""
    __slots__ = ("kind", "n", "at", "aid", "items")

    def __init__(self, kind, n, at, aid=None, items=None):
        self.kind = kind
        self.n = n
        self.at = at
        self.aid = aid
        self.items = items   # python list of element values when fully enumerated

    def __repr__(self):
        return "Seq(%s,n=%s)" % (self.kind, self.n)


def seq_lit(kind, elems, aid=None):
    elems = list(elems)

    def at(i, elems=elems):
        if isinstance(i, int):
            return elems[i]
        if not elems:
            return 0 if kind == "bytes" else Opq()
        r = elems[-1]
        for k in range(len(elems) - 2, -1, -1):
            r = vite(I(i) == k, elems[k], r)
        return r
    return Seq(kind, len(elems), at, aid, elems)


def as_seq(v):
    if isinstance(v, Seq):
        return v
    if isinstance(v, bytes):
        return seq_lit("bytes", list(v))
    if isinstance(v, str):
        return seq_lit("str", [ord(c) for c in v])
    if isinstance(v, (tuple, list)):
        return seq_lit("tuple" if isinstance(v, tuple) else "list", list(v))
    raise TypeError("not a sequence: %r" % (v,))


def fresh_seq(kind, name, elem="int"):
    """A fully symbolic sequence.  elem: 'int' (bytes), 'val' (opaque objects),
    or a callable idx_term -> value."""
    n = z3.Int(fresh_name(name + ".len"))
    if elem == "int":
        f = z3.Function(fresh_name(name + ".at"), IntS, IntS)
        at = lambda i: f(I(i))
    elif elem == "val":
        f = z3.Function(fresh_name(name + ".at"), IntS, ValS)
        at = lambda i: Opq(f(I(i)))
    else:
        at = elem
    return Seq(kind, n, at)


def vite(c, a, b):
    """if-then-else on values."""
    if isinstance(c, bool):
        return a if c else b
    if a is b:
        return a
    if isinstance(a, Fl) or isinstance(b, Fl):
        return Fl(z3.If(c, R(a), R(b)))
    if is_int(a) and is_int(b):
        if isinstance(a, int) and isinstance(b, int) and a == b:
            return a
        return z3.If(c, I(a), I(b))
    if is_bool(a) and is_bool(b):
        return z3.If(c, B(a), B(b))
    if isinstance(a, Opq) and isinstance(b, Opq):
        return Opq(z3.If(c, a.t, b.t))
    if isinstance(a, (Seq, bytes, str)) and isinstance(b, (Seq, bytes, str)):
        a, b = as_seq(a), as_seq(b)
        return Seq(a.kind, z3.If(c, I(a.n), I(b.n)), lambda i: vite(c, a.at(i), b.at(i)))
    if isinstance(a, tuple) and isinstance(b, tuple) and len(a) == len(b):
        return tuple(vite(c, x, y) for x, y in zip(a, b))
    if a is None and b is None:
        return None
    raise TypeError("vite on incompatible values %r / %r" % (a, b))


# ----------------------------------------------------------------------------
# integer arithmetic with Python semantics

ON_PRODUCT = [None]     # engine hook: called with (x, y, x*y) for symbolic*symbolic int products
ON_DIV = [None]         # engine hook: (a, b) -> (q, r) with a == q*b + r, for a symbolic divisor


def imul(a, b):
    """int * int; symbolic*symbolic products are reported to the engine so that
    it can add monotonicity lemma instances (z3's nonlinear integer reasoning
    does not find them unprompted)."""
    if isinstance(a, int) and isinstance(b, int):
        return a * b
    za, zb = I(a), I(b)
    if z3.is_int_value(za) or z3.is_int_value(zb):
        return za * zb
    from . import nl
    t = nl.norm_mul(za, zb)
    if t is None:
        t = za * zb
        if ON_PRODUCT[0] is not None:
            ON_PRODUCT[0](za, zb, t)
        return t
    if ON_PRODUCT[0] is not None:
        for pl in nl.leaves(nl.tree_of(t)):
            for m in pl.terms:
                if 2 <= len(m) <= 4:
                    fs = [pl.atoms[i] for i in m]
                    full = fs[0]
                    for f in fs[1:]:
                        full = full * f
                    for i in range(len(fs)):
                        rest = fs[:i] + fs[i + 1:]
                        B = rest[0]
                        for f in rest[1:]:
                            B = B * f
                        ON_PRODUCT[0](fs[i], B, full, one_way=True)
    return t


def py_floordiv(a, b):
    if isinstance(a, int) and isinstance(b, int):
        return a // b
    a, b = I(a), I(b)
    if z3.is_int_value(b):
        if b.as_long() > 0:
            return a / b
        return (-a) / (-b)
    if ON_DIV[0] is not None:
        return ON_DIV[0](a, b)[0]
    return z3.If(b > 0, a / b, (-a) / (-b))


def py_mod(a, b):
    if isinstance(a, int) and isinstance(b, int):
        return a % b
    a, b = I(a), I(b)
    if z3.is_int_value(b) and b.as_long() > 0:
        return a % b
    if ON_DIV[0] is not None:
        return ON_DIV[0](a, b)[1]
    return a - b * py_floordiv(a, b)


def imin(a, b):
    if isinstance(a, int) and isinstance(b, int):
        return min(a, b)
    return z3.If(I(a) <= I(b), I(a), I(b))


def imax(a, b):
    if isinstance(a, int) and isinstance(b, int):
        return max(a, b)
    return z3.If(I(a) >= I(b), I(a), I(b))


# real -> int conversions (exact on the real)

def r_floor(x):
    return z3.ToInt(x)


def r_ceil(x):
    return -z3.ToInt(-x)


def r_trunc(x):
    return z3.If(x >= 0, z3.ToInt(x), -z3.ToInt(-x))


def r_round_half_even(x):
    f = z3.ToInt(x)
    d = x - z3.ToReal(f)
    half = z3.RealVal(1) / 2
    return z3.If(d < half, f, z3.If(d > half, f + 1, z3.If(f % 2 == 0, f, f + 1)))


# ----------------------------------------------------------------------------
# sequences with Python semantics

def norm_index(x, n, default):
    """Python slice-bound normalisation for a sequence of length n."""
    if x is None:
        return default
    if isinstance(x, int) and isinstance(n, int):
        if x < 0:
            return max(x + n, 0)
        return min(x, n)
    x, n = I(x), I(n)
    return z3.If(x < 0, z3.If(x + n < 0, 0, x + n), z3.If(x < n, x, n))


def seq_slice(s, lo, hi):
    s = as_seq(s)
    n = s.n
    l = norm_index(lo, n, 0)
    h = norm_index(hi, n, n)
    if isinstance(l, int) and isinstance(h, int):
        ln = max(h - l, 0)
    else:
        ln = z3.If(I(h) - I(l) > 0, I(h) - I(l), 0)
    if s.items is not None and isinstance(l, int) and isinstance(ln, int):
        return seq_lit(s.kind, s.items[l:l + ln])

    def at(i, s=s, l=l):
        if isinstance(i, int) and isinstance(l, int):
            return s.at(i + l)
        return s.at(I(i) + I(l))
    return Seq(s.kind, ln, at)


def seq_concat(a, b):
    a, b = as_seq(a), as_seq(b)
    if a.items is not None and b.items is not None:
        return seq_lit(a.kind, a.items + b.items)
    if isinstance(a.n, int) and a.n == 0:
        return Seq(a.kind, b.n, b.at)
    if isinstance(b.n, int) and b.n == 0:
        return Seq(a.kind, a.n, a.at)
    n = a.n + b.n if isinstance(a.n, int) and isinstance(b.n, int) else I(a.n) + I(b.n)

    def at(i):
        if isinstance(i, int) and isinstance(a.n, int):
            return a.at(i) if i < a.n else b.at(i - a.n)
        return vite(I(i) < I(a.n), a.at(i), b.at(I(i) - I(a.n)))
    return Seq(a.kind, n, at)


def seq_append(s, x):
    s = as_seq(s)
    if s.items is not None:
        return seq_lit(s.kind, s.items + [x], s.aid)
    sn = s.n

    def at(i):
        if is_z3(i) and is_z3(sn) and i.eq(sn):
            return x
        return vite(I(i) == I(sn), x, s.at(i))
    n = sn + 1 if isinstance(sn, int) else I(sn) + 1
    return Seq(s.kind, n, at, s.aid)


def seq_repeat(s, k):
    s = as_seq(s)
    if s.items is not None and isinstance(k, int):
        return seq_lit(s.kind, s.items * k)
    kk = imax(k, 0)
    if isinstance(s.n, int) and isinstance(kk, int):
        n = s.n * kk
    else:
        n = imul(s.n, kk)

    def at(i):
        if isinstance(s.n, int) and s.n == 1:
            return s.at(0)
        return s.at(py_mod(i, s.n))
    return Seq(s.kind, n, at)


def seq_len(s):
    if isinstance(s, (bytes, str, tuple, list)):
        return len(s)
    return s.n


def v_eq_goal(a, b, skolems=None):
    """Equality of two values as a formula suitable for a GOAL position:
    sequence equality is length equality plus element equality at a fresh
    skolem index (sound for goals: the skolem is universally quantified once
    the goal is negated)."""
    if isinstance(a, (Seq, bytes, str)) and isinstance(b, (Seq, bytes, str)) and not (
            isinstance(a, (bytes, str)) and isinstance(b, (bytes, str))):
        a, b = as_seq(a), as_seq(b)
        k = z3.Int(fresh_name("sk"))
        if skolems is not None:
            skolems.append(k)
        return z3.And(I(a.n) == I(b.n),
                      z3.Implies(z3.And(k >= 0, k < I(a.n)), v_eq_goal(a.at(k), b.at(k), skolems)))
    return v_eq(a, b)


def v_eq(a, b):
    """Value equality as a term (no sequences with symbolic content)."""
    if a is None or b is None:
        return a is None and b is None
    if isinstance(a, Fl) or isinstance(b, Fl):
        if not ((isinstance(a, Fl) or is_int(a) or is_bool(a)) and (isinstance(b, Fl) or is_int(b) or is_bool(b))):
            return False
        return R(a) == R(b)
    if is_int(a) and is_int(b) or (is_bool(a) and is_int(b)) or (is_int(a) and is_bool(b)):
        if not is_z3(a) and not is_z3(b):
            return a == b
        return I(a) == I(b)
    if is_bool(a) and is_bool(b):
        if not is_z3(a) and not is_z3(b):
            return a == b
        return B(a) == B(b)
    if isinstance(a, Opq) and isinstance(b, Opq):
        return a.t == b.t
    if isinstance(a, Ref) or isinstance(b, Ref):
        return isinstance(a, Ref) and isinstance(b, Ref) and a.oid == b.oid
    if isinstance(a, ClassVal) or isinstance(b, ClassVal):
        return isinstance(a, ClassVal) and isinstance(b, ClassVal) and a.name == b.name
    if isinstance(a, (str, bytes)) and isinstance(b, (str, bytes)):
        return a == b
    if isinstance(a, tuple) and isinstance(b, tuple):
        if len(a) != len(b):
            return False
        cs = [v_eq(x, y) for x, y in zip(a, b)]
        if all(isinstance(c, bool) for c in cs):
            return all(cs)
        return z3.And(*[B(c) for c in cs])
    if isinstance(a, (Seq, str, bytes)) and isinstance(b, (Seq, str, bytes)):
        a2, b2 = as_seq(a), as_seq(b)
        if a2.kind != b2.kind and not ({a2.kind, b2.kind} <= {"list", "tuple"}):
            return False
        if a2.items is not None and b2.items is not None:
            if len(a2.items) != len(b2.items):
                return False
            cs = [v_eq(x, y) for x, y in zip(a2.items, b2.items)]
            if all(isinstance(c, bool) for c in cs):
                return all(cs)
            return z3.And(*[B(c) for c in cs])
        raise SeqEqNeeded(a2, b2)
    # values of different kinds (e.g. str vs tuple, bytes vs class) are unequal
    return False


class SeqEqNeeded(Exception):
    def __init__(self, a, b):
        self.a, self.b = a, b


def kind_of(v):
    if v is None:
        return "None"
    if isinstance(v, bool) or (is_z3(v) and v.sort() == BoolS):
        return "bool"
    if is_int(v):
        return "int"
    if isinstance(v, (Fl, float)):
        return "float"
    if isinstance(v, str):
        return "str"
    if isinstance(v, bytes):
        return "bytes"
    if isinstance(v, Seq):
        return v.kind
    if isinstance(v, tuple):
        return "tuple"
    if isinstance(v, Ref):
        return "obj:" + v.cls
    if isinstance(v, ClassVal):
        return "class"
    if isinstance(v, Opq):
        return "opaque:" + v.tag
    if isinstance(v, dict):
        return "dict"
    return type(v).__name__

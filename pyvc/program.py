"""Load the real source of the repository: modules, classes, functions.

Nothing is imported or executed; only `ast.parse` of the files as they are on
disk at the time of the run.  Each function under contract is identified by a
qualified name (`auditok.core.StreamTokenizer._process`) and its source text
hash is recorded for the evidence file.
"""
import ast
import hashlib
import os

REPO = os.environ.get("VERIF_REPO", "/repo")
PKG = "auditok"


class FuncInfo:
    def __init__(self, qualname, node, module, cls=None, src=""):
        self.qualname = qualname
        self.node = node
        self.module = module
        self.cls = cls
        self.src = src
        self.decorators = [ast.unparse(d) for d in node.decorator_list]
        self.is_generator = any(
            isinstance(n, (ast.Yield, ast.YieldFrom)) for n in _own_nodes(node)
        )

    @property
    def sha256(self):
        return hashlib.sha256(self.src.encode()).hexdigest()

    @property
    def span(self):
        return (self.node.lineno, self.node.end_lineno)

    @property
    def file(self):
        return self.module.path


def _own_nodes(fn):
    """Nodes of a function body, not descending into nested defs/lambdas."""
    stack = list(fn.body)
    while stack:
        n = stack.pop()
        yield n
        for c in ast.iter_child_nodes(n):
            if isinstance(c, (ast.FunctionDef, ast.AsyncFunctionDef, ast.Lambda, ast.ClassDef)):
                continue
            stack.append(c)


class ClassInfo:
    def __init__(self, name, node, module):
        self.name = name
        self.node = node
        self.module = module
        self.bases = [ast.unparse(b) for b in node.bases]
        self.decorators = [ast.unparse(d) for d in node.decorator_list]
        self.methods = {}      # name -> FuncInfo (plain methods)
        self.properties = {}   # name -> {"get": FuncInfo, "set": FuncInfo}
        self.classmethods = {}
        self.consts = {}       # name -> ast expr
        self.fields = []       # dataclass fields: (name, default ast or None)


class ModuleInfo:
    def __init__(self, name, path, src):
        self.name = name
        self.path = path
        self.src = src
        self.tree = ast.parse(src, filename=path)
        self.lines = src.splitlines()
        self.functions = {}
        self.classes = {}
        self.consts = {}     # module-level simple assignments name -> ast expr
        self.imports = {}    # local name -> dotted target
        self.alt_imports = {}
        self.alt_consts = {}

    def seg(self, node):
        return ast.get_source_segment(self.src, node) or ""


class Program:
    def __init__(self, repo=None):
        self.repo = repo or REPO
        self.modules = {}
        pkgdir = os.path.join(self.repo, PKG)
        for fn in sorted(os.listdir(pkgdir)):
            if fn.endswith(".py"):
                path = os.path.join(pkgdir, fn)
                with open(path) as f:
                    src = f.read()
                name = PKG + "." + fn[:-3] if fn != "__init__.py" else PKG
                self.modules[name] = self._load(name, path, src)
        for m in self.modules.values():
            for nm, tgt in list(m.imports.items()):
                if tgt.startswith(PKG + ".") and nm in m.alt_imports:
                    head = ".".join(tgt.split(".")[:2])
                    if head not in self.modules and tgt not in self.modules:
                        m.imports[nm] = m.alt_imports[nm]
        self.classes = {}
        for m in self.modules.values():
            for c in m.classes.values():
                # last definition wins on clash (none in this package)
                self.classes[c.name] = c

    def _load(self, name, path, src):
        m = ModuleInfo(name, path, src)
        m.unstable = set()
        for node in m.tree.body:
            self._top(m, node)
        # a module-level name that some function rebinds through `global` is not a constant either
        for n in ast.walk(m.tree):
            if isinstance(n, ast.Global):
                m.unstable |= set(n.names)
        for nm in m.unstable:
            m.consts.pop(nm, None)
        return m

    def _top(self, m, node):
        if isinstance(node, ast.FunctionDef):
            m.functions[node.name] = FuncInfo(
                m.name + "." + node.name, node, m, None, m.seg(node))
        elif isinstance(node, ast.ClassDef):
            c = ClassInfo(node.name, node, m)
            for b in node.body:
                if isinstance(b, ast.FunctionDef):
                    fi = FuncInfo(m.name + "." + c.name + "." + b.name, b, m, c, m.seg(b))
                    decs = fi.decorators
                    if "property" in decs:
                        c.properties.setdefault(b.name, {})["get"] = fi
                    elif any(d.endswith(".setter") for d in decs):
                        c.properties.setdefault(b.name, {})["set"] = fi
                        fi.qualname += ".setter"
                    elif "classmethod" in decs:
                        c.classmethods[b.name] = fi
                    else:
                        c.methods[b.name] = fi
                elif isinstance(b, ast.Assign) and len(b.targets) == 1 and isinstance(b.targets[0], ast.Name):
                    c.consts[b.targets[0].id] = b.value
                elif isinstance(b, ast.AnnAssign) and isinstance(b.target, ast.Name):
                    c.fields.append((b.target.id, b.value))
            m.classes[c.name] = c
        elif isinstance(node, ast.Assign) and len(node.targets) == 1 and isinstance(node.targets[0], ast.Name):
            m.consts[node.targets[0].id] = node.value
        elif isinstance(node, ast.AugAssign) and isinstance(node.target, ast.Name):
            # X += (...) at module level: the constant is the combined expression (fail closed if X is not a known constant)
            nm = node.target.id
            if nm in m.consts:
                m.consts[nm] = ast.copy_location(ast.BinOp(left=m.consts[nm], op=node.op, right=node.value), node)
            else:
                m.unstable.add(nm)
        elif isinstance(node, (ast.If, ast.For, ast.While, ast.With)):
            # names (re)bound conditionally or in a loop at module level are not constants
            for n in ast.walk(node):
                if isinstance(n, ast.Name) and isinstance(n.ctx, ast.Store):
                    m.unstable.add(n.id)
        elif isinstance(node, ast.ImportFrom):
            for a in node.names:
                mod = node.module or ""
                if node.level:
                    mod = PKG + ("." + mod if mod else "")
                m.imports[a.asname or a.name] = (mod + "." + a.name) if mod else a.name
        elif isinstance(node, ast.Import):
            for a in node.names:
                m.imports[a.asname or a.name.split(".")[0]] = a.name
        elif isinstance(node, ast.Try):
            for b in node.body:
                self._top(m, b)
            # `try: from . import x as y / except ImportError: from . import z as y`:
            # remember the fallback; it is used when the first target does not exist in the package
            for h in node.handlers:
                for b in h.body:
                    if isinstance(b, ast.ImportFrom):
                        for a in b.names:
                            mod = b.module or ""
                            if b.level:
                                mod = PKG + ("." + mod if mod else "")
                            m.alt_imports[a.asname or a.name] = (mod + "." + a.name) if mod else a.name
                    elif isinstance(b, ast.Assign) and len(b.targets) == 1 and isinstance(b.targets[0], ast.Name):
                        m.alt_consts[b.targets[0].id] = b.value

    # ------------------------------------------------------------------
    def func(self, qualname):
        """Look up `auditok.mod.func`, `auditok.mod.Class.method`, or
        `auditok.mod.Class.prop.setter` / `.getter`."""
        parts = qualname.split(".")
        for i in range(len(parts), 0, -1):
            mn = ".".join(parts[:i])
            if mn in self.modules:
                m = self.modules[mn]
                rest = parts[i:]
                if len(rest) == 1 and rest[0] in m.functions:
                    return m.functions[rest[0]]
                if len(rest) >= 2 and rest[0] in m.classes:
                    c = m.classes[rest[0]]
                    if len(rest) == 2:
                        if rest[1] in c.methods:
                            return c.methods[rest[1]]
                        if rest[1] in c.classmethods:
                            return c.classmethods[rest[1]]
                        if rest[1] in c.properties and "get" in c.properties[rest[1]]:
                            return c.properties[rest[1]]["get"]
                    if len(rest) == 3 and rest[1] in c.properties:
                        k = "set" if rest[2] == "setter" else "get"
                        if k in c.properties[rest[1]]:
                            return c.properties[rest[1]][k]
                break
        raise KeyError("no such function in repository source: " + qualname)

    def mro(self, clsname):
        """Linearised base-class list restricted to classes defined in the
        package (C3 is not needed: the package uses single inheritance except
        TokenizerWorker(Worker, AudioReader), handled left-to-right depth-first
        with duplicates removed keeping the last, which coincides with C3 here)."""
        out = []

        def visit(n):
            if n not in self.classes:
                return
            out.append(n)
            for b in self.classes[n].bases:
                visit(b.split(".")[-1])
        visit(clsname)
        res = []
        for i, n in enumerate(out):
            if n not in out[i + 1:]:
                res.append(n)
        return res

    def is_subclass(self, clsname, base):
        if clsname == base:
            return True
        if clsname in self.classes:
            return base in self.mro(clsname) or any(
                _builtin_sub(b.split(".")[-1], base) for n in self.mro(clsname) for b in self.classes[n].bases)
        return _builtin_sub(clsname, base)

    def find_method(self, clsname, name):
        for n in self.mro(clsname):
            c = self.classes[n]
            if name in c.methods:
                return ("method", c.methods[name])
            if name in c.classmethods:
                return ("classmethod", c.classmethods[name])
            if name in c.properties:
                return ("property", c.properties[name])
            if name in c.consts:
                return ("const", (c, c.consts[name]))
        return None


_BUILTIN_EXC = {
    "Exception": "BaseException", "KeyboardInterrupt": "BaseException",
    "ValueError": "Exception", "TypeError": "Exception", "IndexError": "LookupError",
    "LookupError": "Exception", "KeyError": "LookupError", "AttributeError": "Exception",
    "RuntimeError": "Exception", "OSError": "Exception", "IOError": "Exception",
    "FileExistsError": "OSError", "StopIteration": "Exception", "ZeroDivisionError": "ArithmeticError",
    "ArithmeticError": "Exception", "RuntimeWarning": "Warning", "Warning": "Exception",
    "Empty": "Exception", "NameError": "Exception", "ImportError": "Exception",
    "AssertionError": "Exception", "OverflowError": "ArithmeticError",
}


def _builtin_sub(name, base):
    if base == "IOError":
        base = "OSError"
    while name is not None:
        if name == "IOError":
            name = "OSError"
        if name == base:
            return True
        name = _BUILTIN_EXC.get(name)
    return False

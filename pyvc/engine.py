"""Path-by-path symbolic execution of real Python function ASTs.

One call of `Engine.explore(run)` enumerates every feasible path of `run`
(depth-first over the symbolic decisions taken during execution, replaying the
decision prefix each time).  Along a path the interpreter keeps a path
condition (assumptions) and records *obligations* (`prove`), each checked
against the assumptions current at that point.

Fail-closed: any construct without a rule raises `Unsupported`.
"""
import ast
import os
import time
import z3

from .values import *  # noqa: F401,F403
from . import values as V
from .program import Program, FuncInfo


class Unsupported(Exception):
    pass


class PathEnd(Exception):
    """Current path ends here (infeasible branch, end of a loop-body path)."""


class PyRaise(Exception):
    """A modelled Python exception propagating through the interpreted code."""

    def __init__(self, exc, args=(), node=None):
        self.exc = exc          # class name
        self.args_ = args
        self.node = node
        self.attrs = {}

    def __str__(self):
        return "PyRaise(%s)" % self.exc


class _Return(Exception):
    def __init__(self, v):
        self.v = v


class _Break(Exception):
    pass


class _Continue(Exception):
    pass


class Obligation:
    def __init__(self, name, props, hyps, goal, where="", detail=""):
        self.name = name
        self.props = props
        self.hyps = hyps
        self.goal = goal
        self.where = where
        self.detail = detail
        self.status = None      # 'unsat' (discharged) | 'sat' | 'unknown'
        self.model = None
        self.time = 0.0
        self.backend = None
        self.path = None


class Closure:
    def __init__(self, node, env, module, cls=None, name="<lambda>"):
        self.node, self.env, self.module, self.cls, self.name = node, env, module, cls, name


class BoundMethod:
    def __init__(self, self_val, fi):
        self.self_val, self.fi = self_val, fi


class Builtin:
    def __init__(self, name, fn=None):
        self.name, self.fn = name, fn

    def __repr__(self):
        return "<builtin %s>" % self.name


class ModuleVal:
    def __init__(self, name):
        self.name = name


class LibCallable:
    """A library / contract-implemented callable."""

    def __init__(self, name, fn):
        self.name, self.fn = name, fn


class GenVal:
    """A generator object: either the lazily-interpreted body of a generator
    expression over another iterable, or an abstract generator described by a
    contract (`next_fn`)."""

    def __init__(self, kind, **kw):
        self.kind = kind
        self.__dict__.update(kw)


class DictVal:
    """Finite-key dict model: literal keys -> (present, value)."""

    def __init__(self, entries=None, rest_absent=True):
        self.entries = dict(entries or {})   # key -> (present: bool|z3 Bool, value)
        self.rest_absent = rest_absent

    def copy(self):
        return DictVal(self.entries, self.rest_absent)


class State:
    def __init__(self):
        self.pc = []
        self.heap = {}
        self.next_oid = 1
        self.ghost = {}
        self.escaped = set()     # allocation ids of lists handed out
        self.noops = []

    def new_obj(self, cls, fields=None):
        oid = self.next_oid
        self.next_oid += 1
        self.heap[oid] = dict(fields or {})
        return Ref(oid, cls)


class PathResult:
    def __init__(self, decisions, outcome, value, state, exc=None):
        self.decisions = decisions
        self.outcome = outcome      # 'return' | 'raise' | 'end'
        self.value = value
        self.state = state
        self.exc = exc


_aid = [0]


def new_aid():
    _aid[0] += 1
    return _aid[0]


class Engine:
    def __init__(self, program=None, timeout_ms=20000):
        self.prog = program or Program()
        self.timeout_ms = timeout_ms
        self.contracts = {}       # qualname -> callable(engine, fi, self_val, args, kwargs) -> value
        self.inline = set()       # qualnames interpreted in place
        self.lib = {}             # dotted name -> callable(engine, args, kwargs)
        self.iface = {}           # (clsname, attr) -> callable(engine, ref, ...) for abstract objects
        self.attr_hooks = {}      # clsname -> callable(engine, ref, name) -> value or NotImplemented
        self.obligations = []
        self.float_mode = "real"
        self.float_strict = False
        self.concrete = False
        self.const_overrides = {}
        self.auto_inline = True
        self.abstract_isinstance = True
        self.float_rounding = os.environ.get("VERIF_FLOAT_REAL") != "1"
        self._inline_depth = 0
        self.ext_base_methods = {}
        self.modattrs = {}
        self.spec_mode = False
        self.st = None
        self._decisions = None
        self._dpos = 0
        self._work = None
        self.stats = {"paths": 0, "feasibility_checks": 0, "solver_time": 0.0}
        self.used_inline = set()
        self.interpreted = set()       # qualnames of every repository function whose body was interpreted
        self.used_contracts = set()
        self.used_lib = set()
        self.noops = []
        self.current_fn = None
        self._solver = z3.Solver()
        self._solver.set("timeout", 5000)
        self.yield_hook = None
        self.genexit_hook = None     # (engine, final_blocks, frame): a generator abandoned at a yield inside try/finally
        self.handling = []           # exceptions being handled (for a bare `raise`)
        self.in_memo = None          # qualname of the memoised function whose body is being interpreted
        self._frame_checked = set()
        self.iface_real = {}         # interface class -> the library class it models (attributes outside the model: Unsupported)
        self._ctor_assigns_cache = {}
        self.on_obligation = None
        self.assume_proved = True
        self.path_tag = ""

    # ------------------------------------------------------------------ paths
    def explore(self, run, max_paths=20000):
        """run(engine) executes one path; returns list of PathResult."""
        results = []
        work = [[]]
        while work:
            prefix = work.pop()
            self._decisions = list(prefix)
            self._dpos = 0
            self._work = work
            self.st = State()
            self.float_strict = False
            V.ON_PRODUCT[0] = self.note_product
            V.ON_DIV[0] = self.div_elim
            self.stats["paths"] += 1
            if self.stats["paths"] > max_paths:
                raise Unsupported("path explosion")
            try:
                v = run(self)
                results.append(PathResult(list(self._decisions), "return", v, self.st))
            except PathEnd:
                results.append(PathResult(list(self._decisions), "end", None, self.st))
            except PyRaise as e:
                results.append(PathResult(list(self._decisions), "raise", None, self.st, e))
        return results

    # ---------------------------------------------------- nonlinear arithmetic
    def note_product(self, x, y, t, one_way=False):
        """Lemma instances for a symbolic product t == x*y (valid facts of
        integer arithmetic): sign rules, and for two products sharing a factor B > 0,
        x1 < x2  <=>  x1*B < x2*B  (likewise ==)."""
        prods = self.st.ghost.setdefault("products", [])
        for (a, B) in (((x, y),) if one_way else ((x, y), (y, x))):
            key = (a.get_id(), B.get_id())
            if any(k == key for (k, _, _, _) in prods):
                continue
            self.st.pc.append(z3.Implies(B > 0, z3.And((a < 0) == (t < 0), (a == 0) == (t == 0), (a > 0) == (t > 0))))
            self.st.pc.append(z3.Implies(z3.Or(a == 0, B == 0), t == 0))
            self.st.pc.append(z3.Implies(B == 1, t == a))
            for (_, a2, B2, t2) in prods:
                if B2.eq(B):
                    self.st.pc.append(z3.Implies(B > 0, z3.And((a < a2) == (t < t2), (a == a2) == (t == t2),
                                                                (a < a2) == (t + B <= t2), (a2 < a) == (t2 + B <= t))))
            prods.append((key, a, B, t))

    def div_elim(self, a, b):
        """a // b and a % b for a symbolic divisor, without z3's div/mod:
        fresh q, r with a == q*b + r and r in [0,b) (b>0) / (b,0] (b<0)."""
        cache = self.st.ghost.setdefault("divs", {})
        key = (a.get_id(), b.get_id())
        if key in cache:
            return cache[key]
        from . import nl
        qx, ok = nl.exact_div(a, b)
        if ok:
            # a == qx*b syntactically: quotient qx, remainder 0 (b != 0 is checked by the caller)
            cache[key] = (qx, z3.IntVal(0))
            return cache[key]
        q = z3.Int(fresh_name("q"))
        r = z3.Int(fresh_name("r"))
        qb = q * b
        self.st.pc.append(a == qb + r)
        self.st.pc.append(z3.Implies(b > 0, z3.And(r >= 0, r < b)))
        self.st.pc.append(z3.Implies(b < 0, z3.And(r <= 0, r > b)))
        self.note_product(q, b, qb)
        cache[key] = (q, r)
        return q, r

    def feasible(self, extra=None):
        s = self._solver
        s.push()
        try:
            for c in self.st.pc:
                s.add(c)
            if extra is not None:
                s.add(extra)
            self.stats["feasibility_checks"] += 1
            t0 = time.time()
            r = s.check()
            self.stats["solver_time"] += time.time() - t0
            return r != z3.unsat
        finally:
            s.pop()

    def choose(self, n, conds=None, label=""):
        """Pick one of n alternatives on this path (conds[i]: z3 condition under
        which alternative i is taken; None for a free nondeterministic choice)."""
        if self._dpos < len(self._decisions):
            k = self._decisions[self._dpos]
            self._dpos += 1
            if conds is not None and conds[k] is not None:
                self.st.pc.append(conds[k])
            return k
        # new decision: find feasible alternatives
        feas = []
        for k in range(n):
            c = conds[k] if conds is not None else None
            if c is None or self.feasible(c):
                feas.append(k)
        if not feas:
            raise PathEnd()
        base = self._decisions[:self._dpos]
        for k in reversed(feas[1:]):
            self._work.append(base + [k])
        k = feas[0]
        self._decisions.append(k)
        self._dpos += 1
        if conds is not None and conds[k] is not None:
            self.st.pc.append(conds[k])
        return k

    def decide(self, cond):
        """Branch on a (possibly symbolic) boolean."""
        if isinstance(cond, bool):
            return cond
        cond = z3.simplify(B(cond))
        if z3.is_true(cond):
            return True
        if z3.is_false(cond):
            return False
        k = self.choose(2, [cond, z3.Not(cond)])
        return k == 0

    def assume(self, cond):
        if isinstance(cond, bool):
            if not cond:
                raise PathEnd()
            return
        self.st.pc.append(B(cond))

    def prove(self, name, goal, props=("*",), where="", detail=""):
        """Record an obligation: under the current assumptions `goal` holds."""
        if isinstance(goal, bool):
            goal = z3.BoolVal(goal)
        ob = Obligation(name, tuple(props), list(self.st.pc), goal, where, detail)
        ob.path = self.path_tag + ":" + ",".join(map(str, self._decisions[:self._dpos]))
        self.obligations.append(ob)
        if self.on_obligation:
            self.on_obligation(ob)
        if self.assume_proved and not z3.is_false(goal):
            # a goal that is literally false is a failed obligation already; assuming it would make the rest of the path
            # vacuous and hide the obligations of OTHER properties that fail on the same path
            self.st.pc.append(goal)
        return ob

    def force(self, v):
        while isinstance(v, MaybeVal):
            if getattr(v, "resolved", None) is None:
                v.resolved = ("a",) if self.decide(v.cond) else ("b",)
            v = v.a if v.resolved == ("a",) else v.b
        return v

    # ------------------------------------------------------------- truthiness
    def truth(self, v):
        v = self.force(v)
        if v is None:
            return False
        if isinstance(v, bool):
            return v
        if isinstance(v, (int, str, bytes, tuple, float)):
            return bool(v)
        if is_z3(v):
            if v.sort() == BoolS:
                return v
            if v.sort() == IntS:
                return v != 0
        if isinstance(v, Fl):
            return v.t != 0
        if isinstance(v, Seq):
            if isinstance(v.n, int):
                return v.n != 0
            return I(v.n) != 0
        if type(v).__name__ == "NpArr":
            if v.ndim == 0:
                t = v.at()
                return t if t.sort() == BoolS else (t != 0)
            if v.ndim == 1:
                if not self.decide(I(v.shape[0]) == 1):
                    raise PyRaise("ValueError", ("truth value of an array with more than one element is ambiguous",))
                t = v.at(0)
                return t if t.sort() == BoolS else (t != 0)
            raise Unsupported("truthiness of a 2-d array")
        if isinstance(v, DictVal):
            raise Unsupported("truthiness of dict")
        if isinstance(v, Ref):
            m = self.prog.find_method(v.cls, "__len__") or self.prog.find_method(v.cls, "__bool__")
            if m is None:
                return True
            r = self.call_value(BoundMethod(v, m[1]), [], {})
            return self.truth(r)
        if isinstance(v, (Closure, BoundMethod, Builtin, LibCallable, ClassVal, GenVal, ModuleVal)):
            return True
        if isinstance(v, Opq):
            h = self.ghost_truth(v)
            if h is not None:
                return h
            if v.tag in ("obj", "frame", "msg", "callback-result", "any"):
                # an arbitrary Python object may be falsy (0, "", b"", an empty container): its truth value is an
                # uninterpreted predicate of the object
                return _TRUTHY(v.t)
        raise Unsupported("truthiness of %r" % (v,))

    def ghost_truth(self, v):
        f = self.st.ghost.get("truth_fn")
        if f is not None:
            return f(v)
        return None

    # -------------------------------------------------------------- functions
    def run_function(self, fi, args, kwargs=None, self_val=None, extra_env=None):
        """Interpret the body of fi with the given actual arguments."""
        self.check_decorators(fi)
        self.interpreted.add(fi.qualname)
        self.frame_static_checks(fi)
        kwargs = dict(kwargs or {})
        env = self.bind_args(fi.node.args, args, kwargs, self_val, fi)
        if extra_env:
            env.update(extra_env)
        frame = Frame(fi, env)
        return self.exec_body(fi.node.body, frame)

    _MUTATORS = {"append", "add", "update", "setdefault", "pop", "clear", "extend", "insert", "popitem", "remove",
                 "appendleft", "move_to_end", "discard", "sort", "reverse"}

    @staticmethod
    def _is_container_display(e):
        if isinstance(e, (ast.List, ast.Dict, ast.Set, ast.ListComp, ast.DictComp, ast.SetComp)):
            return True
        if isinstance(e, ast.Call):
            f = ast.unparse(e.func).split(".")[-1]
            return f in ("list", "dict", "set", "OrderedDict", "defaultdict", "deque", "bytearray", "WeakValueDictionary", "Counter")
        return False

    def ctor_assigns(self, clsname, name):
        """Does the constructor chain of `clsname` assign self.<name>?  The chain: the first __init__ along the MRO, then the
        __init__s it reaches through super().__init__(...) / Base.__init__(self, ...); plus the first __post_init__."""
        key = (clsname, name)
        c_ = self._ctor_assigns_cache
        if key in c_:
            return c_[key]
        mro = self.prog.mro(clsname)

        def first_init(start):
            for k in range(start, len(mro)):
                c = self.prog.classes.get(mro[k])
                if c is not None and "__init__" in c.methods:
                    return k
            return None
        todo, seen, hit = [first_init(0)], set(), False
        nodes = []
        while todo:
            k = todo.pop()
            if k is None or k in seen:
                continue
            seen.add(k)
            m = self.prog.classes[mro[k]].methods["__init__"]
            nodes.append(m.node)
            for n in ast.walk(m.node):
                if isinstance(n, ast.Call) and isinstance(n.func, ast.Attribute) and n.func.attr == "__init__":
                    tgt = ast.unparse(n.func.value)
                    if tgt.startswith("super("):
                        todo.append(first_init(k + 1))
                    elif tgt.split(".")[-1] in mro:
                        kk = mro.index(tgt.split(".")[-1])
                        if "__init__" in self.prog.classes[mro[kk]].methods:
                            todo.append(kk)
        for cn in mro:
            c = self.prog.classes.get(cn)
            if c is not None and "__post_init__" in c.methods:
                nodes.append(c.methods["__post_init__"].node)
                break
        for nd in nodes:
            for n in ast.walk(nd):
                if isinstance(n, ast.Attribute) and isinstance(n.ctx, ast.Store) and n.attr == name and \
                        isinstance(n.value, ast.Name) and n.value.id == "self":
                    hit = True
                if isinstance(n, ast.Call) and ast.unparse(n.func) in ("object.__setattr__", "setattr") and len(n.args) == 3 and \
                        isinstance(n.args[1], ast.Constant) and n.args[1].value == name and ast.unparse(n.args[0]) == "self":
                    hit = True          # frozen dataclasses assign their fields this way
        c_[key] = hit
        return hit

    def derive_ctor_field(self, obj, name):
        """A field the real constructor creates but the contract's (hand-built) object lacks -- typically a value the
        constructor caches.  If the constructor chain assigns it exactly once, unconditionally at the top level of the
        constructor, from an expression that reads nothing but fields of `self` the object does have (and constants), the
        field is that expression over the object's fields: the object the contract describes is the object right after
        construction as far as those fields go.  Anything else is contract drift (NotImplemented)."""
        mro = self.prog.mro(obj.cls)
        found = []
        for cn in mro:
            c = self.prog.classes.get(cn)
            for mn in ("__init__", "__post_init__"):
                m = c.methods.get(mn) if c is not None else None
                if m is None:
                    continue
                for st_ in m.node.body:          # top level only: unconditional
                    rhs = None
                    if isinstance(st_, ast.Assign) and len(st_.targets) == 1:
                        t = st_.targets[0]
                        if isinstance(t, ast.Attribute) and isinstance(t.value, ast.Name) and t.value.id == "self" and t.attr == name:
                            rhs = st_.value
                    elif isinstance(st_, ast.Expr) and isinstance(st_.value, ast.Call) and \
                            ast.unparse(st_.value.func) == "object.__setattr__" and len(st_.value.args) == 3 and \
                            isinstance(st_.value.args[1], ast.Constant) and st_.value.args[1].value == name and \
                            ast.unparse(st_.value.args[0]) == "self":
                        rhs = st_.value.args[2]
                    if rhs is not None:
                        found.append((rhs, m))
                # assigned anywhere else in that method (nested / conditional)?  then not derivable
                if m is not None:
                    cnt = sum(1 for n in ast.walk(m.node) if isinstance(n, ast.Attribute) and isinstance(n.ctx, ast.Store)
                              and n.attr == name and isinstance(n.value, ast.Name) and n.value.id == "self")
                    top = sum(1 for r_, m_ in found if m_ is m and not isinstance(r_, type(None)))
                    if cnt > top:
                        return NotImplemented
        if len(found) != 1:
            return NotImplemented
        # only a field that nothing but the constructor ever writes: a field some method updates carries state of the
        # object's history, which the constructor's expression says nothing about
        for cn in mro:
            c = self.prog.classes.get(cn)
            if c is None:
                continue
            meths = list(c.methods.values()) + list(c.classmethods.values()) + \
                [f_ for pr in c.properties.values() for f_ in pr.values()]
            for f_ in meths:
                if f_.node.name in ("__init__", "__post_init__"):
                    continue
                for n in ast.walk(f_.node):
                    if isinstance(n, ast.Attribute) and isinstance(n.ctx, (ast.Store, ast.Del)) and n.attr == name:
                        return NotImplemented
                    if isinstance(n, ast.Call) and ast.unparse(n.func) in ("object.__setattr__", "setattr", "delattr", "object.__delattr__") \
                            and len(n.args) >= 2 and isinstance(n.args[1], ast.Constant) and n.args[1].value == name:
                        return NotImplemented
        rhs, m = found[0]
        flds = self.st.heap[obj.oid]
        for n in ast.walk(rhs):
            if isinstance(n, ast.Name) and n.id != "self" and n.id not in m.module.consts and n.id not in ("len", "int", "round", "float", "abs", "min", "max"):
                return NotImplemented                 # reads a constructor parameter or a local
            if isinstance(n, ast.Attribute) and isinstance(n.value, ast.Name) and n.value.id == "self" and n.attr not in flds \
                    and self.prog.find_method(obj.cls, n.attr) is None:
                return NotImplemented
            if isinstance(n, (ast.Call,)) and not (isinstance(n.func, ast.Name) and n.func.id in ("len", "int", "round", "float", "abs", "min", "max")):
                return NotImplemented
        try:
            v = self.eval(rhs, Frame(m, {"self": obj}))
        except (PyRaise, Unsupported):
            return NotImplemented
        self.used_inline.add("%s.%s (derived from the constructor's `%s`)" % (obj.cls, name, ast.unparse(rhs)[:60]))
        return v

    def frame_static_checks(self, fi):
        """Frame conditions that hold of every function of the repository on the pinned tree and on which every
        'for all histories' argument rests (a function's result is a function of its arguments and of the objects it is
        given): it does not keep state in a MODULE-LEVEL container, and it does not mutate in place a CLASS-LEVEL container
        through `self` that no constructor rebinds (one object shared by all instances)."""
        if fi.qualname in self._frame_checked:
            return
        self._frame_checked.add(fi.qualname)
        mod = fi.module
        params = {a.arg for a in fi.node.args.posonlyargs + fi.node.args.args + fi.node.args.kwonlyargs}
        local = set(params)
        for n in ast.walk(fi.node):
            if isinstance(n, ast.Name) and isinstance(n.ctx, ast.Store):
                local.add(n.id)
        globs = set()
        for n in ast.walk(fi.node):
            if isinstance(n, ast.Global):
                globs.update(n.names)
        mod_cont = {k for k, v in getattr(mod, "consts", {}).items() if self._is_container_display(v)}
        cls_cont = {}
        cinfo = getattr(fi, "cls", None)
        if cinfo is not None and not hasattr(cinfo, "consts"):
            cinfo = self.prog.classes.get(cinfo)
        if cinfo is not None:
            for cn in self.prog.mro(cinfo.name):
                c = self.prog.classes.get(cn)
                if c is None:
                    continue
                for k, v in list(c.consts.items()) + [(k_, v_) for k_, v_ in c.fields if v_ is not None]:
                    if self._is_container_display(v):
                        cls_cont.setdefault(k, cn)
            # a constructor that gives every instance its own container makes the class-level one a mere default
            for cn in self.prog.mro(cinfo.name):
                c = self.prog.classes.get(cn)
                init = c.methods.get("__init__") if c is not None else None
                if init is None:
                    continue
                for n in ast.walk(init.node):
                    if isinstance(n, ast.Attribute) and isinstance(n.ctx, ast.Store) and isinstance(n.value, ast.Name) and n.value.id == "self":
                        cls_cont.pop(n.attr, None)
        hits = []

        def base_of(e):
            # X, X[...] , self.X, self.X[...]
            while isinstance(e, ast.Subscript):
                e = e.value
            if isinstance(e, ast.Name):
                if (e.id in mod_cont and e.id not in local) or e.id in globs:
                    return "module-level " + e.id
            if isinstance(e, ast.Attribute) and isinstance(e.value, ast.Name) and e.value.id == "self" and e.attr in cls_cont:
                return "class-level %s.%s" % (cls_cont[e.attr], e.attr)
            return None
        for n in ast.walk(fi.node):
            if isinstance(n, ast.Subscript) and isinstance(n.ctx, (ast.Store, ast.Del)):
                b = base_of(n.value)
                if b:
                    hits.append(b)
            elif isinstance(n, ast.AugAssign):
                b = base_of(n.target)
                if b and not (isinstance(n.target, ast.Attribute)):      # self.X += ... rebinds on the instance for lists? no: in place
                    hits.append(b)
                elif b:
                    hits.append(b)
            elif isinstance(n, ast.Call) and isinstance(n.func, ast.Attribute) and n.func.attr in self._MUTATORS:
                b = base_of(n.func.value)
                if b:
                    hits.append(b)
            elif isinstance(n, ast.Name) and isinstance(n.ctx, ast.Store) and n.id in globs:
                hits.append("module-level " + n.id)
        for b in sorted(set(hits)):
            self.prove("frame:%s-keeps-no-state-outside-its-objects(it-writes-the-%s,-shared-by-every-call-and-instance)" % (
                fi.qualname.split(".", 1)[-1], b.replace(" ", "-")), False, props=("*",))

    def bind_args(self, a, args, kwargs, self_val, fi=None, closure_env=None):
        named = {p.arg for p in a.posonlyargs + a.args + a.kwonlyargs}
        for k_ in list(kwargs):
            v_ = kwargs[k_]
            if isinstance(v_, Absentable) and (k_ in named or a.kwarg is None):
                if self.decide(v_.present):
                    kwargs[k_] = v_.value
                else:
                    del kwargs[k_]
        env = {}
        params = [p.arg for p in a.posonlyargs + a.args]
        pos = list(args)
        if self_val is not None:
            pos = [self_val] + pos
        defaults = a.defaults
        ndef = len(defaults)
        frame0 = Frame(fi, closure_env or {}) if fi is not None else Frame(None, closure_env or {})
        for i, p in enumerate(params):
            if i < len(pos):
                env[p] = pos[i]
            elif p in kwargs:
                env[p] = kwargs.pop(p)
            else:
                di = i - (len(params) - ndef)
                if di < 0:
                    raise PyRaise("TypeError", ("missing argument " + p,))
                env[p] = self.eval(defaults[di], frame0)
        if len(pos) > len(params):
            if a.vararg is None:
                raise PyRaise("TypeError", ("too many positional arguments",))
            env[a.vararg.arg] = tuple(pos[len(params):])
        elif a.vararg is not None:
            env[a.vararg.arg] = ()
        for p, d in zip(a.kwonlyargs, a.kw_defaults):
            if p.arg in kwargs:
                env[p.arg] = kwargs.pop(p.arg)
            elif d is not None:
                env[p.arg] = self.eval(d, frame0)
            else:
                raise PyRaise("TypeError", ("missing kw-only argument " + p.arg,))
        if a.kwarg is not None:
            d = DictVal({k: ((v.present, v.value) if isinstance(v, Absentable) else (True, v)) for k, v in kwargs.items()})
            env[a.kwarg.arg] = d
        elif kwargs:
            raise PyRaise("TypeError", ("unexpected keyword argument(s) %s" % sorted(kwargs),))
        return env

    def exec_body(self, body, frame):
        try:
            self.exec_block(body, frame)
        except _Return as r:
            return r.v
        return None

    def exec_block(self, stmts, frame):
        for s in stmts:
            self.exec_stmt(s, frame)

    # ------------------------------------------------------------- statements
    def exec_stmt(self, s, fr):
        m = getattr(self, "s_" + type(s).__name__, None)
        if m is None:
            raise Unsupported("statement %s at %s:%d" % (type(s).__name__, fr.file, s.lineno))
        fr.line = s.lineno
        return m(s, fr)

    def s_Pass(self, s, fr):
        pass

    def s_Delete(self, s, fr):
        """`del lst[:]` -- empties a list IN PLACE: every holder of that list object sees it emptied.  Lists are modelled
        as values, so this is only faithful for a list nobody else holds: emptying one that has been handed out (returned,
        yielded) is an ownership failure, like appending to it."""
        for t in s.targets:
            if isinstance(t, ast.Subscript) and isinstance(t.slice, ast.Slice) and t.slice.lower is None and t.slice.upper is None \
                    and t.slice.step is None:
                tgt = self.eval(t.value, fr)
                if isinstance(tgt, Seq) and tgt.kind == "list":
                    if tgt.aid is not None and tgt.aid in self.st.escaped:
                        self.prove("ownership:%s:emptying-in-place-a-list-that-was-handed-out" % (fr.fi.qualname if fr.fi else "?"),
                                   False, props=("C01", "C20"), where="%s:%d" % (fr.file, s.lineno))
                    self.assign(_as_store(t.value), seq_lit("list", [], tgt.aid), fr)
                    continue
                if tgt is None:
                    raise PyRaise("TypeError", ("'NoneType' object does not support item deletion",), s)
            raise Unsupported("del of %s" % ast.unparse(t))

    def s_Expr(self, s, fr):
        if isinstance(s.value, ast.Constant) and isinstance(s.value.value, str):
            self.noop(fr, s, "docstring")
            return
        self.eval(s.value, fr)

    def noop(self, fr, s, why):
        self.noops.append((fr.fi.qualname if fr.fi else "?", getattr(s, "lineno", 0), why))

    def s_Return(self, s, fr):
        raise _Return(self.eval(s.value, fr) if s.value is not None else None)

    def s_Break(self, s, fr):
        raise _Break()

    def s_Continue(self, s, fr):
        raise _Continue()

    def s_If(self, s, fr):
        c = self.truth(self.eval(s.test, fr))
        if self.decide(c):
            self.exec_block(s.body, fr)
        else:
            self.exec_block(s.orelse, fr)

    def s_Assign(self, s, fr):
        v = self.eval(s.value, fr)
        for t in s.targets:
            self.assign(t, v, fr)

    def s_AnnAssign(self, s, fr):
        if s.value is not None:
            self.assign(s.target, self.eval(s.value, fr), fr)

    def s_AugAssign(self, s, fr):
        cur = self.eval(_as_load(s.target), fr)
        v = self.binop(s.op, cur, self.eval(s.value, fr), s)
        self.assign(s.target, v, fr)

    def s_Raise(self, s, fr):
        if s.exc is None:
            # re-raise the exception being handled
            if not self.handling:
                raise PyRaise("RuntimeError", ("No active exception to reraise",), s)
            raise self.handling[-1]
        v = self.eval(s.exc, fr)
        raise self.to_raise(v, s)

    def to_raise(self, v, node=None):
        if isinstance(v, ClassVal):
            return PyRaise(v.name, (), node)
        if isinstance(v, Ref):
            e = PyRaise(v.cls, (), node)
            e.attrs = dict(self.st.heap.get(v.oid, {}))
            e.ref = v
            return e
        raise Unsupported("raise of %r" % (v,))

    def s_Try(self, s, fr):
        if not s.finalbody:
            return self._try_except(s, fr)
        # try/finally: the final block runs however the protected part is left (normally, by an exception, by
        # return / break / continue); a path the harness ends (PathEnd) is not an exit of the program.
        # A `yield` inside the protected part is a point where the consumer may abandon the generator; the final
        # block then runs at the generator's finalisation -- at an arbitrary LATER time (see e_Yield).
        stack = getattr(fr, "finally_stack", None)
        if stack is None:
            stack = fr.finally_stack = []
        stack.append(s.finalbody)
        try:
            self._try_except(s, fr)
        except (PathEnd, Unsupported):
            raise
        except BaseException as ex:
            stack.pop()
            if not isinstance(ex, (PyRaise, _Return, _Break, _Continue)):
                raise
            self.exec_block(s.finalbody, fr)      # an exit of its own (return / raise in the final block) wins
            raise
        stack.pop()
        self.exec_block(s.finalbody, fr)

    def _try_except(self, s, fr):
        try:
            self.exec_block(s.body, fr)
        except PyRaise as e:
            for h in s.handlers:
                if self.handler_matches(h, e, fr):
                    if h.name:
                        fr.env[h.name] = self.exc_value(e)
                    self.handling.append(e)
                    try:
                        self.exec_block(h.body, fr)
                    finally:
                        self.handling.pop()
                    return
            raise
        else:
            self.exec_block(s.orelse, fr)

    def exc_value(self, e):
        if getattr(e, "ref", None) is not None:
            return e.ref
        r = self.st.new_obj(e.exc, dict(e.attrs))
        e.ref = r
        return r

    def handler_matches(self, h, e, fr):
        if h.type is None:
            return True
        names = []
        t = h.type
        if isinstance(t, ast.Tuple):
            names = [ast.unparse(x) for x in t.elts]
        else:
            names = [ast.unparse(t)]
        for n in names:
            n = n.split(".")[-1]
            if self.prog.is_subclass(e.exc, n):
                return True
        return False

    def s_While(self, s, fr):
        spec = self.loop_spec(fr, s)
        if spec is None:
            if self.concrete:
                # concrete mode (CPython cross-check): the condition is a concrete bool, just run the loop
                for _ in range(100000):
                    c = self.truth(self.eval(s.test, fr))
                    if not isinstance(c, bool):
                        raise Unsupported("symbolic loop condition in concrete mode")
                    if not c:
                        self.exec_block(s.orelse, fr)
                        return
                    try:
                        self.exec_block(s.body, fr)
                    except _Continue:
                        continue
                    except _Break:
                        return
                raise Unsupported("concrete loop did not terminate")
            raise Unsupported("loop without invariant at %s:%d" % (fr.file, s.lineno))
        if not hasattr(spec, "run_while"):
            raise Unsupported("contract drift: the loop contract at this position is for a `for` loop, the code has a `while` (%s:%d)" % (fr.file, s.lineno))
        spec.run_while(self, s, fr)

    def s_For(self, s, fr):
        # literal tuple / list: exact unrolling
        if isinstance(s.iter, (ast.Tuple, ast.List)):
            for el in s.iter.elts:
                self.assign(s.target, self.eval(el, fr), fr)
                try:
                    self.exec_block(s.body, fr)
                except _Continue:
                    continue
                except _Break:
                    return
            self.exec_block(s.orelse, fr)
            return
        it = self.force(self.eval(s.iter, fr))
        if self.concrete and isinstance(it, GenVal) and it.kind == "enumerate":
            src = self.force(it.src)
            items0 = list(src) if isinstance(src, (tuple, list, str)) else list(src.items)
            it = [(it.start + i, x) for i, x in enumerate(items0)]
        if self.concrete and isinstance(it, GenVal) and it.kind == "map":
            srcs = self.iter_concrete(self.force(it.src))
            outs = []
            for x in srcs:
                self.assign(it.target, x, it.frame)
                outs.append(self.eval(it.elt, it.frame))
            it = outs
        if isinstance(it, (tuple, list)) or (isinstance(it, Seq) and it.items is not None):
            items = it if isinstance(it, (tuple, list)) else it.items
            for el in items:
                self.assign(s.target, el, fr)
                try:
                    self.exec_block(s.body, fr)
                except _Continue:
                    continue
                except _Break:
                    return
            self.exec_block(s.orelse, fr)
            return
        spec = self.loop_spec(fr, s)
        if spec is None:
            raise Unsupported("for-loop without invariant at %s:%d" % (fr.file, s.lineno))
        if not hasattr(spec, "run_for"):
            raise Unsupported("contract drift: the loop contract at this position is for a `while` loop, the code has a `for` (%s:%d)" % (fr.file, s.lineno))
        spec.run_for(self, s, fr, it)

    def loop_spec(self, fr, s):
        specs = getattr(self, "loop_specs", {})
        q = fr.fi.qualname if fr.fi else None
        # ordinal of this loop in the function
        if q is None:
            return None
        loops = [n for n in ast.walk(fr.fi.node) if isinstance(n, (ast.While, ast.For))]
        loops.sort(key=lambda n: (n.lineno, n.col_offset))
        k = loops.index(s)
        return specs.get((q, k))

    def s_With(self, s, fr):
        if len(s.items) != 1:
            raise Unsupported("with: multiple items")
        it = s.items[0]
        cm = self.eval(it.context_expr, fr)
        v = self.call_method(cm, "__enter__", [], {})
        if it.optional_vars is not None:
            self.assign(it.optional_vars, v, fr)
        try:
            self.exec_block(s.body, fr)
        except (PyRaise, _Return, _Break, _Continue):
            self.call_method(cm, "__exit__", [None, None, None], {})
            raise
        self.call_method(cm, "__exit__", [None, None, None], {})

    def s_FunctionDef(self, s, fr):
        fr.env[s.name] = Closure(s, fr.env, fr.module, name=s.name)

    def s_Import(self, s, fr):
        for a in s.names:
            fr.env[a.asname or a.name.split(".")[0]] = ModuleVal(a.name)

    def s_ImportFrom(self, s, fr):
        for a in s.names:
            mod = s.module or ""
            if s.level:
                mod = "auditok" + ("." + mod if mod else "")
            fr.env[a.asname or a.name] = self.resolve_dotted(mod + "." + a.name)

    # ------------------------------------------------------------- assignment
    def assign(self, t, v, fr):
        if isinstance(t, ast.Name):
            fr.env[t.id] = v
        elif isinstance(t, (ast.Tuple, ast.List)):
            vals = self.unpack(v, len(t.elts))
            for x, y in zip(t.elts, vals):
                self.assign(x, y, fr)
        elif isinstance(t, ast.Attribute):
            obj = self.eval(t.value, fr)
            self.setattr(obj, t.attr, v, fr)
        elif isinstance(t, ast.Subscript):
            obj = self.eval(t.value, fr)
            key = self.eval(t.slice, fr)
            if isinstance(obj, DictVal) and isinstance(key, str):
                obj.entries[key] = (True, v)
            else:
                raise Unsupported("subscript assignment on %r" % (obj,))
        else:
            raise Unsupported("assignment target %s" % type(t).__name__)

    def unpack(self, v, n):
        v = self.force(v)
        if isinstance(v, (tuple, list)):
            if len(v) != n:
                raise PyRaise("ValueError", ("unpack",))
            return list(v)
        if isinstance(v, Seq) and v.items is not None:
            if len(v.items) != n:
                raise PyRaise("ValueError", ("unpack",))
            return list(v.items)
        raise Unsupported("unpack of %r" % (v,))

    def setattr(self, obj, name, v, fr=None):
        if isinstance(obj, Ref):
            hook = self.attr_hooks.get(("set", obj.cls))
            if hook is not None:
                r = hook(self, obj, name, v)
                if r is not NotImplemented:
                    return
            m = self.prog.find_method(obj.cls, name) if obj.cls in self.prog.classes else None
            if m is not None and m[0] == "property":
                if "set" not in m[1]:
                    raise PyRaise("AttributeError", ("can't set attribute",))
                self.call_value(BoundMethod(obj, m[1]["set"]), [v], {})
                return
            if obj.cls in self.prog.classes and self.class_frozen(obj.cls) and not self.st.ghost.get("in_init", {}).get(obj.oid):
                raise PyRaise("FrozenInstanceError", ("cannot assign to field",))
            if obj.cls in self.prog.classes:
                sa = self.prog.find_method(obj.cls, "__setattr__")
                if sa is not None:
                    raise Unsupported("__setattr__ on " + obj.cls)
            fld = self.st.heap[obj.oid]
            fld[name] = v
            w = self.st.ghost.setdefault("written", set())
            w.add((obj.oid, name))
            return
        raise Unsupported("setattr on %r" % (obj,))

    def class_frozen(self, cls):
        c = self.prog.classes.get(cls)
        return c is not None and any("frozen=True" in d for d in c.decorators)

    # ------------------------------------------------------------ expressions
    def eval(self, e, fr):
        m = getattr(self, "e_" + type(e).__name__, None)
        if m is None:
            raise Unsupported("expression %s at %s:%d" % (type(e).__name__, fr.file, getattr(e, "lineno", 0)))
        return m(e, fr)

    def e_Constant(self, e, fr):
        v = e.value
        if isinstance(v, float):
            return Fl(v)
        if v is Ellipsis:
            raise Unsupported("Ellipsis")
        return v

    def e_Name(self, e, fr):
        return self.lookup(e.id, fr)

    def loop_guard_holds(self, s, fr, props=("*",)):
        """For a loop whose contract says it is left only by break / return (written `while True:` on the pinned tree): at
        the head of the generic iteration the guard must hold.  A guard that can be false there is an exit the contract does
        not know -- a failed obligation."""
        t = s.test
        if isinstance(t, ast.Constant) and t.value is True:
            return
        c = self.truth(self.eval(t, fr))
        if not self.decide(c if not isinstance(c, bool) else z3.BoolVal(c)):
            self.prove("loop:%s:left-only-by-break-or-return(the-guard-`%s`-can-be-false)" % (
                fr.fi.qualname.split(".", 1)[-1] if fr.fi else "?", ast.unparse(t)[:60]), False, props=props,
                where="%s:%d" % (fr.file, s.lineno))
            raise PathEnd()

    def havoc_loop_locals(self, s, fr, keep=()):
        """Start of the generic loop iteration: every local assigned in the body
        (and not given a value by the invariant) is unknown."""
        names = set()
        for n in ast.walk(ast.Module(body=list(s.body), type_ignores=[])):
            if isinstance(n, ast.Name) and isinstance(n.ctx, ast.Store):
                names.add(n.id)
        if isinstance(s, ast.For):
            for n in ast.walk(s.target):
                if isinstance(n, ast.Name):
                    names.discard(n.id)
        for nm in names:
            if nm not in keep:
                fr.env[nm] = Havoc(nm)

    def lookup(self, name, fr):
        env = fr.env
        if name in env:
            v = env[name]
            if isinstance(v, Havoc):
                # a local carried over from an earlier iteration that no invariant describes: ANY value.  It is an opaque
                # value of unknown kind -- passing it on, comparing or testing it is fine (and a contract clause that
                # needs it to be something definite fails); arithmetic on it is outside what can be decided (Unsupported ->
                # checker error, never an alarm by itself).
                v = env[name] = Opq(tag="carried-over:" + name)
                self.used_carried = getattr(self, "used_carried", set()) | {name}
            return v
        if fr.spec_env is not None and name in fr.spec_env:
            return fr.spec_env[name]
        mod = fr.module
        if mod is not None:
            if name in mod.functions:
                return mod.functions[name]
            if name in mod.classes:
                return ClassVal(name)
            ov = self.const_overrides.get((mod.name, name))
            if ov is not None:
                return ov(self)
            if name in mod.consts:
                return self.eval(mod.consts[name], Frame(None, {}, mod))
            if name in mod.imports:
                return self.resolve_dotted(mod.imports[name])
        if name in _BUILTIN_NAMES:
            return Builtin(name)
        if name in _EXC_NAMES:
            return ClassVal(name)
        raise Unsupported("unresolved name %r at %s:%d" % (name, fr.file, fr.line))

    def resolve_dotted(self, dotted):
        parts = dotted.split(".")
        if dotted in self.lib:
            return LibCallable(dotted, self.lib[dotted])
        for i in range(len(parts), 0, -1):
            mn = ".".join(parts[:i])
            if mn in self.prog.modules:
                m = self.prog.modules[mn]
                rest = parts[i:]
                if not rest:
                    return ModuleVal(mn)
                if len(rest) == 1:
                    n = rest[0]
                    if n in m.functions:
                        return m.functions[n]
                    if n in m.classes:
                        return ClassVal(n)
                    if n in m.consts:
                        return self.eval(m.consts[n], Frame(None, {}, m))
                    if n in m.imports:
                        return self.resolve_dotted(m.imports[n])
                    if mn + "." + n in self.prog.modules:
                        return ModuleVal(mn + "." + n)
                break
        last = parts[-1]
        if last in _EXC_NAMES or last in self.prog.classes:
            return ClassVal(last)
        if len(parts) > 1 and last[:1].isupper() and parts[0] not in ("auditok",):
            return ClassVal(last)        # a class of an external module (pathlib.Path, queue.Queue, ...)
        return ModuleVal(dotted)

    def e_Attribute(self, e, fr):
        obj = self.eval(e.value, fr)
        return self.getattr(obj, e.attr, fr, e)

    def getattr(self, obj, name, fr=None, node=None):
        obj = self.force(obj)
        if isinstance(obj, Ref):
            return self.getattr_ref(obj, name)
        if isinstance(obj, SuperVal):
            mro = self.prog.mro(obj.self_val.cls if isinstance(obj.self_val, Ref) and obj.self_val.cls in self.prog.classes else obj.clsname)
            if obj.clsname in mro:
                rest = mro[mro.index(obj.clsname) + 1:]
            else:
                rest = self.prog.mro(obj.clsname)[1:]
            for cn in rest:
                c = self.prog.classes[cn]
                if name in c.methods:
                    return BoundMethod(obj.self_val, c.methods[name])
                if name in c.properties:
                    return self.call_value(BoundMethod(obj.self_val, c.properties[name]["get"]), [], {})
            # base classes outside the package (Exception, Thread, object, dict, ABC)
            k = ("super", obj.clsname, name)
            if k in self.lib:
                return LibCallable("super()." + name, lambda e, a, kw, _f=self.lib[k], _o=obj: _f(e, _o.self_val, a, kw))
            if name == "__init__":
                return LibCallable("object.__init__", lambda e, a, kw: None)
            raise Unsupported("super().%s from %s" % (name, obj.clsname))
        if isinstance(obj, Builtin) and obj.name == "object" and name == "__setattr__":
            def _osa(e, a, kw):
                o, n, v = a
                e.st.heap[o.oid][n] = v
                e.st.ghost.setdefault("written", set()).add((o.oid, n))
                return None
            return LibCallable("object.__setattr__", _osa)
        if isinstance(obj, ModuleVal):
            d = obj.name + "." + name
            if d in self.modattrs:
                return self.modattrs[d]
            if obj.name == "numpy" and name in ("int8", "int16", "int32", "int64", "uint8", "uint16", "uint32", "float64", "float32"):
                return ClassVal(name)
            if d in self.lib:
                return LibCallable(d, self.lib[d])
            return self.resolve_dotted(d)
        if type(obj).__name__ == "NpArr":
            return BoundLib(obj, name)
        if isinstance(obj, ClassVal):
            if obj.name in self.prog.classes:
                m = self.prog.find_method(obj.name, name)
                if m is not None:
                    if m[0] == "const":
                        c, ex = m[1]
                        return self.eval(ex, Frame(None, {}, c.module))
                    if m[0] == "classmethod":
                        return BoundMethod(obj, m[1])
                    if m[0] == "method":
                        return m[1]       # unbound function
            d = obj.name + "." + name
            if d in self.lib:
                return LibCallable(d, self.lib[d])
            hm = self.ext_base_methods.get(obj.name, {})
            if name in hm:
                return LibCallable(d, lambda e, a, k, _f=hm[name]: _f(e, a[0], list(a[1:]), k))
            raise Unsupported("class attribute %s.%s" % (obj.name, name))
        if isinstance(obj, tuple) and hasattr(obj, "_fields"):
            return getattr(obj, name)
        if isinstance(obj, SliceVal):
            return getattr(obj, name)
        if isinstance(obj, (Seq, bytes, str, DictVal, GenVal, Fl, Opq, tuple)) or is_int(obj):
            return BoundLib(obj, name)
        if isinstance(obj, NS):
            if name in obj.d:
                return obj.d[name]
            raise PyRaise("AttributeError", (name,))
        if obj is None:
            raise PyRaise("AttributeError", ("'NoneType' object has no attribute %r" % name,), node)
        raise Unsupported("getattr %s on %r" % (name, obj))

    def _fld(self, v, obj):
        if isinstance(v, Stale):
            self.prove("stale-field:%s.%s-%s" % (obj.cls, v.name, v.why.replace(" ", "-")), False, props=v.props)
            raise PathEnd()
        return v

    def getattr_ref(self, obj, name):
        hook = self.attr_hooks.get(("get", obj.cls))
        if hook is not None:
            r = hook(self, obj, name)
            if r is not NotImplemented:
                return r
        flds = self.st.heap[obj.oid]
        if obj.cls in self.prog.classes:
            m = self.prog.find_method(obj.cls, name)
            # data descriptors (properties) take precedence over instance dict
            if m is not None and m[0] == "property":
                try:
                    return self.call_value(BoundMethod(obj, m[1]["get"]), [], {})
                except PyRaise as e:
                    # Python: an AttributeError raised by the property getter makes the lookup fall back to __getattr__
                    ga = self.prog.find_method(obj.cls, "__getattr__")
                    if e.exc != "AttributeError" or ga is None:
                        raise
                    return self.call_value(BoundMethod(obj, ga[1]), [name], {})
            if name in flds:
                return self._fld(flds[name], obj)
            if m is not None:
                if m[0] == "method":
                    if any(d.split(".")[-1] == "staticmethod" for d in m[1].decorators):
                        return m[1]           # a static method: the plain function, nothing bound
                    return BoundMethod(obj, m[1])
                if m[0] == "classmethod":
                    return BoundMethod(ClassVal(obj.cls), m[1])
                if m[0] == "const":
                    c, ex = m[1]
                    return self.eval(ex, Frame(None, {}, c.module))
            # methods inherited from a base class outside the package (threading.Thread, ...)
            for cn in self.prog.mro(obj.cls):
                for b in self.prog.classes[cn].bases:
                    hm = self.ext_base_methods.get(b.split(".")[-1], {})
                    if name in hm:
                        return IfaceMethod(obj, name, hm[name])
            if self.ctor_assigns(obj.cls, name) and not self.st.ghost.get("in_init", {}).get(obj.oid):
                dv = self.derive_ctor_field(obj, name)
                if dv is not NotImplemented:
                    flds[name] = dv
                    return dv
                # the real constructor creates this field, the object the harness built does not have it: the harness is
                # out of date with the class (contract drift) -- not an AttributeError of the program
                raise Unsupported("contract drift: %s.__init__ creates the field %r, which the contract's object does not know" % (obj.cls, name))
            ga = self.prog.find_method(obj.cls, "__getattr__")
            if ga is not None:
                return self.call_value(BoundMethod(obj, ga[1]), [name], {})
            raise PyRaise("AttributeError", ("%s has no attribute %s" % (obj.cls, name),))
        if name in flds:
            return flds[name]
        k = (obj.cls, name)
        if k in self.iface:
            return IfaceMethod(obj, name, self.iface[k])
        real = self.iface_real.get(obj.cls)
        if real is not None and hasattr(real, name):
            # the library class this interface object stands for HAS the attribute; the model just does not cover it
            raise Unsupported("%s.%s is not part of the library model %s" % (getattr(real, "__name__", type(real).__name__), name, obj.cls))
        raise PyRaise("AttributeError", ("%s has no attribute %s" % (obj.cls, name),))

    def e_Tuple(self, e, fr):
        out = []
        for x in e.elts:
            if isinstance(x, ast.Starred):
                out.extend(self.iter_concrete(self.eval(x.value, fr)))
            else:
                out.append(self.eval(x, fr))
        return tuple(out)

    def e_List(self, e, fr):
        return seq_lit("list", [self.eval(x, fr) for x in e.elts], new_aid())

    def e_Dict(self, e, fr):
        d = DictVal()
        for k, v in zip(e.keys, e.values):
            if k is None:
                src = self.eval(v, fr)
                if not isinstance(src, DictVal):
                    raise Unsupported("** of non-dict")
                d.entries.update(src.entries)
                continue
            kv = self.eval(k, fr)
            if not isinstance(kv, (str, int)):
                raise Unsupported("dict key %r" % (kv,))
            d.entries[kv] = (True, self.eval(v, fr))
        return d

    def e_JoinedStr(self, e, fr):
        parts = []
        conc = True
        tpl, fargs, plain = [], [], True
        for p in e.values:
            if isinstance(p, ast.Constant):
                parts.append(p.value)
                tpl.append(str(p.value).replace("{", "{{").replace("}", "}}"))
            else:
                v = self.eval(p.value, fr)
                spec = None
                if p.format_spec is not None:
                    if all(isinstance(x, ast.Constant) for x in p.format_spec.values):
                        spec = "".join(str(x.value) for x in p.format_spec.values)
                    else:
                        plain = False
                tpl.append("{" + ("!" + chr(p.conversion) if p.conversion != -1 else "") + (":" + spec if spec else "") + "}")
                fargs.append(v)
                if isinstance(v, (str, int)) and not isinstance(v, bool) and p.conversion == -1 and p.format_spec is None:
                    parts.append(str(v))
                else:
                    conc = False
        if conc:
            return "".join(parts)
        # an f-string is the same formatting as str.format on the equivalent template with its expressions as positional
        # arguments: a unit that observes formatting (ghost hook `str_format`) sees it in that form
        h = self.st.ghost.get("str_format") if self.st is not None else None
        if h is not None and plain:
            return h(self, "".join(tpl), fargs, {})
        return Opq(tag="str")

    def e_Lambda(self, e, fr):
        return Closure(e, fr.env, fr.module, name="<lambda>")

    def e_IfExp(self, e, fr):
        c = self.truth(self.eval(e.test, fr))
        if self.spec_mode and not isinstance(c, bool):
            a = self.eval(e.body, fr)
            b = self.eval(e.orelse, fr)
            return vite(c, a, b)
        if self.decide(c):
            return self.eval(e.body, fr)
        return self.eval(e.orelse, fr)

    def e_BoolOp(self, e, fr):
        is_and = isinstance(e.op, ast.And)
        if self.spec_mode:
            vals = [self.truth(self.eval(x, fr)) for x in e.values]
            if all(isinstance(v, bool) for v in vals):
                return all(vals) if is_and else any(vals)
            vs = [B(v) for v in vals]
            return z3.And(*vs) if is_and else z3.Or(*vs)
        v = None
        for i, x in enumerate(e.values):
            v = self.eval(x, fr)
            if i == len(e.values) - 1:
                return v
            t = self.decide(self.truth(v))
            if is_and and not t:
                return v
            if (not is_and) and t:
                return v
        return v

    def e_UnaryOp(self, e, fr):
        v = self.force(self.eval(e.operand, fr))
        if isinstance(e.op, ast.Not):
            t = self.truth(v)
            return (not t) if isinstance(t, bool) else z3.Not(t)
        if isinstance(e.op, ast.USub):
            if isinstance(v, Fl):
                return Fl(-v.t)
            if isinstance(v, bool):
                return -int(v)
            if is_int(v):
                return -v
            if is_bool(v):
                return -I(v)
        if isinstance(e.op, ast.UAdd) and (is_int(v) or isinstance(v, Fl)):
            return v
        raise Unsupported("unary %s on %r" % (type(e.op).__name__, v))

    def e_BinOp(self, e, fr):
        return self.binop(e.op, self.eval(e.left, fr), self.eval(e.right, fr), e)

    @staticmethod
    def _carried(v):
        return isinstance(v, Opq) and isinstance(v.tag, str) and v.tag.startswith("carried-over:")

    def binop(self, op, a, b, node=None):
        a, b = self.force(a), self.force(b)
        if self._carried(a) or self._carried(b):
            # arithmetic on a value carried over from an earlier loop iteration that no invariant describes: some value
            return Opq(tag="carried-over:derived")
        if type(a).__name__ == "NpArr" or type(b).__name__ == "NpArr":
            from . import npmodel
            return npmodel.arr_binop(self, op, a, b)
        if isinstance(a, (float,)):
            a = Fl(a)
        if isinstance(b, (float,)):
            b = Fl(b)
        if is_bool(a) and not isinstance(a, bool):
            a = I(a)
        if is_bool(b) and not isinstance(b, bool):
            b = I(b)
        if isinstance(a, bool):
            a = int(a)
        if isinstance(b, bool):
            b = int(b)
        num_a = is_int(a) or isinstance(a, Fl)
        num_b = is_int(b) or isinstance(b, Fl)
        if num_a and num_b:
            fl = isinstance(a, Fl) or isinstance(b, Fl)
            if fl and self.float_strict and not isinstance(op, (ast.Sub, ast.Div)):
                raise Unsupported("float %s in a function verified with exact binary64 semantics "
                                  "(only division, subtraction-with-representability, comparisons and "
                                  "integer conversions are encoded)" % type(op).__name__)
            if isinstance(op, ast.Add):
                return Fl(self.frnd("+", a, b, R(a) + R(b))) if fl else a + b
            if isinstance(op, ast.Sub):
                if fl:
                    h = self.st.ghost.get("fsub")
                    if h is not None:
                        r_ = h(a, b)
                        return r_ if isinstance(r_, Fl) else Fl(r_)
                    if self.float_strict:
                        raise Unsupported("float subtraction without a representability hook")
                return Fl(self.frnd("-", a, b, R(a) - R(b))) if fl else a - b
            if isinstance(op, ast.Mult):
                if fl:
                    return Fl(self.fmul(a, b))
                return imul(a, b)
            if isinstance(op, ast.Div):
                if self.decide(self.num_eq0(b)):
                    raise PyRaise("ZeroDivisionError", (), node)
                r_ = self.fdiv(a, b)
                return r_ if isinstance(r_, Fl) else Fl(r_)
            if isinstance(op, ast.FloorDiv):
                if fl:
                    raise Unsupported("float floor division")
                if self.decide(self.num_eq0(b)):
                    raise PyRaise("ZeroDivisionError", (), node)
                return py_floordiv(a, b)
            if isinstance(op, ast.Mod):
                if fl:
                    raise Unsupported("float modulo")
                if self.decide(self.num_eq0(b)):
                    raise PyRaise("ZeroDivisionError", (), node)
                return py_mod(a, b)
            if isinstance(op, (ast.BitOr, ast.BitAnd, ast.BitXor)) and not fl:
                if isinstance(a, int) and isinstance(b, int):
                    return (a | b) if isinstance(op, ast.BitOr) else (a & b) if isinstance(op, ast.BitAnd) else (a ^ b)
                if isinstance(op, ast.BitXor):
                    # x ^ m == (x | m) - (x & m)   (exact for all Python ints)
                    return self.bitop(ast.BitOr(), a, b) - self.bitop(ast.BitAnd(), a, b)
                return self.bitop(op, a, b)
            if isinstance(op, ast.Pow) and isinstance(b, int) and b >= 0 and not fl:
                r = 1
                for _ in range(b):
                    r = r * a
                return r
        sa = isinstance(a, (Seq, bytes, str))
        sb = isinstance(b, (Seq, bytes, str))
        if isinstance(op, ast.Add) and sa and sb:
            if isinstance(a, (bytes, str)) and type(a) == type(b):
                return a + b
            ka, kb = as_seq(a).kind, as_seq(b).kind
            if ka != kb:
                raise PyRaise("TypeError", ("can't concat %s to %s" % (kb, ka),), node)
            r = seq_concat(a, b)
            if r.kind == "list":
                r.aid = new_aid()
            return r
        if isinstance(op, ast.Add) and isinstance(a, tuple) and isinstance(b, tuple):
            return a + b
        if isinstance(op, ast.Add) and isinstance(a, Seq) and a.kind == "list" and isinstance(b, Opq) and node is not None \
                and isinstance(node, ast.AugAssign):
            # list += <opaque object>: extends the list by whatever iterating that object yields -- an unknown
            # number of unknown elements (sound over-approximation)
            return Seq("list", I(a.n) + z3.Int(fresh_name("extended_by")), lambda i: Opq(), a.aid)
        if isinstance(op, ast.Mult) and sa and is_int(b):
            if isinstance(a, (bytes, str)) and isinstance(b, int):
                return a * b
            return seq_repeat(a, b)
        if isinstance(op, ast.Mult) and sb and is_int(a):
            if isinstance(b, (bytes, str)) and isinstance(a, int):
                return b * a
            return seq_repeat(b, a)
        if isinstance(op, ast.Mod) and isinstance(a, str):
            return Opq(tag="str")
        if isinstance(op, ast.Add) and (isinstance(a, Opq) and a.tag == "str" or isinstance(b, Opq) and b.tag == "str"):
            return Opq(tag="str")
        # operator overloading on objects
        if isinstance(a, Ref):
            nm = _DUNDER.get(type(op))
            if nm and a.cls in self.prog.classes:
                m = self.prog.find_method(a.cls, nm)
                if m is not None:
                    return self.call_value(BoundMethod(a, m[1]), [b], {})
        if isinstance(b, Ref):
            nm = _RDUNDER.get(type(op))
            if nm and b.cls in self.prog.classes:
                m = self.prog.find_method(b.cls, nm)
                if m is not None:
                    return self.call_value(BoundMethod(b, m[1]), [a], {})
        if isinstance(a, Opq) and a.tag == "time" or isinstance(b, Opq) and b.tag == "time":
            return Opq(tag="time")
        if a is None or b is None or (sa and num_b) or (sb and num_a):
            raise PyRaise("TypeError", ("unsupported operand type(s)",), node)
        raise Unsupported("binop %s on %r, %r" % (type(op).__name__, a, b))

    def bitop(self, op, a, b):
        """x & 2**k and x | 2**k for symbolic x (exact for all Python ints:
        bit k of x is floor(x / 2**k) mod 2 in infinite two's complement)."""
        if isinstance(a, int) and not isinstance(b, int):
            a, b = b, a
        if isinstance(b, int) and b == 0:
            return 0 if isinstance(op, ast.BitAnd) else a
        if isinstance(b, int) and b > 0:
            # constant mask: handle it bit by bit
            r_and, r_or = z3.IntVal(0), I(a)
            k = 1
            while k <= b:
                if b & k:
                    bit = (I(a) / k) % 2 == 1
                    r_and = r_and + z3.If(bit, z3.IntVal(k), z3.IntVal(0))
                    r_or = r_or + z3.If(bit, z3.IntVal(0), z3.IntVal(k))
                k <<= 1
            return r_and if isinstance(op, ast.BitAnd) else r_or
        raise Unsupported("symbolic bit operation %r %r" % (a, b))

    def num_eq0(self, b):
        if isinstance(b, int):
            return b == 0
        if isinstance(b, Fl):
            return z3.simplify(b.t == 0)
        return I(b) == 0

    def frnd(self, op, a, b, exact):
        """Result of the binary64 operation `a op b` whose exact real value is `exact`.

        Concrete operands: the IEEE result itself (computed by CPython on the same doubles).  Symbolic operands: RND(exact),
        RND an uninterpreted function Real -> Real of which only this is assumed (instantiated at every application):
        it preserves sign (no underflow to zero), is the identity on 0, and never crosses an integer in [-2**53, 2**53]
        that the exact value does not cross -- stated for floor(exact), ceil(exact) and +-2**53 (monotonicity of correct
        rounding + exact representability of those integers).  Two float expressions are therefore equal only if they are the same
        computation, or can be shown equal from these facts -- algebraic identities of the reals such as (n / r) * r == n
        are NOT available.  Overflow to infinity and underflow to zero are not modelled (assumption)."""
        if not self.float_rounding:
            return exact
        ca, cb = _as_double(a), _as_double(b)
        if ca is not None and cb is not None:
            try:
                r = {"+": ca + cb, "-": ca - cb, "*": ca * cb, "/": (ca / cb) if cb != 0 else None}[op]
            except OverflowError:
                r = None
            if r is not None and r == r and r not in (float("inf"), float("-inf")):
                return Fl(r).t
        # name the exact value (it is usually a nonlinear term): the facts below are then linear in that name
        memo = self.st.ghost.setdefault("frnd_memo", {})
        key = exact.sexpr()
        if key in memo:
            return memo[key]
        ex = z3.Real(fresh_name("fl.exact"))
        self.assume(ex == exact)
        exact = ex
        t = _RND(exact)
        memo[key] = t
        lo = z3.ToReal(z3.ToInt(exact))            # floor(exact)
        hi = z3.If(lo == exact, lo, lo + 1)        # ceil(exact)
        self.assume(z3.And(z3.Implies(exact > 0, t > 0), z3.Implies(exact < 0, t < 0), z3.Implies(exact == 0, t == 0)))
        big = z3.RealVal(2 ** 53)
        self.assume(z3.Implies(z3.And(exact >= -big, exact <= big), z3.And(lo <= t, t <= hi)))
        # consequences of the line above, spelled out for the integer parts (the solver does not derive them when the
        # path condition also holds nonlinear terms): floor(exact) <= floor(t) <= floor(exact) + 1, and for the negations
        fe, ft, fne, fnt = z3.ToInt(exact), z3.ToInt(t), z3.ToInt(-exact), z3.ToInt(-t)
        self.assume(z3.Implies(z3.And(exact >= -big, exact <= big),
                               z3.And(ft >= fe, ft <= fe + 1, fnt <= -fe, fnt >= -fe - 1, fnt >= fne, fnt <= fne + 1)))
        self.assume(z3.And(z3.Implies(exact >= big, t >= big), z3.Implies(exact <= -big, t <= -big)))
        return t

    def fmul(self, a, b):
        ra, rb = R(a), R(b)
        return self.frnd("*", a, b, ra * rb)

    # the same operations for use in SPECIFICATIONS: a spec that speaks about "t * rate" means the float product the
    # code computes, so it has to be built with the same rounding function
    def spec_mul(self, a, b):
        """Real term of the Python product a * b (int * int exact, otherwise the binary64 product)."""
        if is_int(a) and is_int(b):
            return R(imul(a, b))
        return self.fmul(a, b)

    def spec_div(self, a, b):
        """Real term of the Python true division a / b (always a float)."""
        return self.frnd("/", a, b, R(a) / R(b))

    def fdiv(self, a, b):
        h = self.st.ghost.get("fdiv")
        if h is not None:
            return h(a, b)
        if self.float_strict:
            raise Unsupported("float division without a quotient hook")
        return self.frnd("/", a, b, R(a) / R(b))

    def e_Compare(self, e, fr):
        left = self.eval(e.left, fr)
        res = None
        for op, rx in zip(e.ops, e.comparators):
            right = self.eval(rx, fr)
            c = self.compare(op, left, right, e)
            if res is None:
                res = c
            else:
                if isinstance(res, bool) and isinstance(c, bool):
                    res = res and c
                else:
                    res = z3.And(B(res), B(c))
            if not self.spec_mode and len(e.ops) > 1:
                if not self.decide(self.truth(res)):
                    return False
                res = True
            left = right
        return res

    def compare(self, op, a, b, node=None):
        a, b = self.force(a), self.force(b)
        if (self._carried(a) or self._carried(b)) and not isinstance(op, (ast.Is, ast.IsNot)):
            # ... and a comparison with it may come out either way
            return z3.Bool(fresh_name("carried.cmp"))
        if type(a).__name__ == "NpArr" and not type(b).__name__ == "NpArr":
            from . import npmodel
            fn = {ast.GtE: lambda x, y: x >= y, ast.Gt: lambda x, y: x > y, ast.LtE: lambda x, y: x <= y,
                  ast.Lt: lambda x, y: x < y}.get(type(op))
            if fn is None:
                raise Unsupported("array comparison %s" % type(op).__name__)
            return npmodel.NpArr(a.shape, lambda *idx: fn(a.at(*idx), R(b)), "cmp")
        if isinstance(op, ast.Is):
            return self.is_same(a, b)
        if isinstance(op, ast.IsNot):
            r = self.is_same(a, b)
            return (not r) if isinstance(r, bool) else z3.Not(r)
        if isinstance(op, (ast.In, ast.NotIn)):
            r = self.contains(b, a)
            if isinstance(op, ast.NotIn):
                r = (not r) if isinstance(r, bool) else z3.Not(r)
            return r
        if isinstance(op, (ast.Eq, ast.NotEq)):
            r = self.equals(a, b)
            if isinstance(op, ast.NotEq):
                r = (not r) if isinstance(r, bool) else z3.Not(B(r))
            return r
        # ordering
        if isinstance(a, bool):
            a = int(a)
        if isinstance(b, bool):
            b = int(b)
        num_a = is_int(a) or isinstance(a, Fl) or is_bool(a)
        num_b = is_int(b) or isinstance(b, Fl) or is_bool(b)
        if num_a and num_b:
            if isinstance(a, FlQ) or isinstance(b, FlQ):
                sym = {ast.Lt: "<", ast.LtE: "<=", ast.Gt: ">", ast.GtE: ">="}.get(type(op))
                c = fl_cmp(sym, a, b) if sym else None
                if c is not None:
                    return c
            if isinstance(a, Fl) or isinstance(b, Fl):
                x, y = R(a), R(b)
            elif isinstance(a, int) and isinstance(b, int):
                x, y = a, b
            else:
                x, y = I(a), I(b)
            if isinstance(op, ast.Lt):
                return x < y
            if isinstance(op, ast.LtE):
                return x <= y
            if isinstance(op, ast.Gt):
                return x > y
            if isinstance(op, ast.GtE):
                return x >= y
        if a is None or b is None or isinstance(a, (str, Opq, Ref)) != isinstance(b, (str, Opq, Ref)):
            if (a is None or b is None) or (num_a != num_b):
                raise PyRaise("TypeError", ("'%s' not supported between %s and %s" % (type(op).__name__, kind_of(a), kind_of(b)),), node)
        raise Unsupported("comparison %s on %r, %r" % (type(op).__name__, a, b))

    def is_same(self, a, b):
        if a is None or b is None:
            return a is None and b is None
        if isinstance(a, Ref) and isinstance(b, Ref):
            return a.oid == b.oid
        if isinstance(a, ClassVal) and isinstance(b, ClassVal):
            return a.name == b.name
        if isinstance(a, bool) and isinstance(b, bool):
            return a == b
        if kind_of(a) != kind_of(b):
            return False
        if is_int(a) and is_int(b) and not isinstance(a, bool) and not isinstance(b, bool):
            # identity of int objects: different values are never the same object; equal values may or may not be
            # (CPython shares only small ints) -- an arbitrary Boolean below equality
            return z3.And(I(a) == I(b), z3.Bool(fresh_name("same_int_object")))
        raise Unsupported("`is` on %r, %r" % (a, b))

    def equals(self, a, b):
        if isinstance(a, Ref) and a.cls in self.prog.classes:
            m = self.prog.find_method(a.cls, "__eq__")
            if m is not None and m[0] == "method":
                return self.truth(self.call_value(BoundMethod(a, m[1]), [b], {}))
        if isinstance(b, Ref) and b.cls in self.prog.classes and not isinstance(a, Ref):
            m = self.prog.find_method(b.cls, "__eq__")
            if m is not None and m[0] == "method":
                return self.truth(self.call_value(BoundMethod(b, m[1]), [a], {}))
        try:
            return v_eq(a, b)
        except SeqEqNeeded as s:
            return self.seq_eq_term(s.a, s.b)

    def seq_eq_term(self, a, b):
        """Extensional equality of two symbolic sequences as a fresh Bool `e`
        with: e => lengths equal (element equalities are instantiated on demand
        through st.ghost['seq_eqs']); not e => lengths differ or a witness index
        holds different elements."""
        e = z3.Bool(fresh_name("seqeq"))
        w = z3.Int(fresh_name("w"))
        diff = z3.Or(I(a.n) != I(b.n), z3.And(w >= 0, w < I(a.n), z3.Not(B(self.equals(a.at(w), b.at(w))))))
        self.st.pc.append(z3.Implies(e, I(a.n) == I(b.n)))
        self.st.pc.append(z3.Implies(z3.Not(e), diff))
        self.st.ghost.setdefault("seq_eqs", []).append((e, a, b))
        return e

    def contains(self, container, x):
        if isinstance(container, (tuple, list)) or (isinstance(container, Seq) and container.items is not None):
            items = container if isinstance(container, (tuple, list)) else container.items
            cs = []
            for it in items:
                c = self.equals(x, it)
                if isinstance(c, bool):
                    if c:
                        return True
                    continue
                cs.append(B(c))
            if not cs:
                return False
            return z3.Or(*cs)
        if isinstance(container, DictVal):
            if isinstance(x, str):
                if x in container.entries:
                    return container.entries[x][0]
                if container.rest_absent:
                    return False
            raise Unsupported("`in` on dict with key %r" % (x,))
        if isinstance(container, str) and isinstance(x, str):
            return x in container
        raise Unsupported("`in` on %r" % (container,))

    def e_Subscript(self, e, fr):
        obj = self.eval(e.value, fr)
        if isinstance(e.slice, ast.Slice):
            lo = self.eval(e.slice.lower, fr) if e.slice.lower is not None else None
            hi = self.eval(e.slice.upper, fr) if e.slice.upper is not None else None
            st = self.eval(e.slice.step, fr) if e.slice.step is not None else None
            return self.getslice(obj, lo, hi, st, e)
        idx = self.eval(e.slice, fr)
        return self.getitem(obj, idx, e)

    def getslice(self, obj, lo, hi, step, node=None):
        obj, lo, hi, step = self.force(obj), self.force(lo), self.force(hi), self.force(step)
        if type(obj).__name__ == "NpArr" and obj.ndim == 1 and hi is None and (step is None or is_int(step)):
            from . import npmodel
            n = I(obj.shape[0])
            st = I(step) if step is not None else z3.IntVal(1)
            if not self.decide(st > 0):
                raise Unsupported("array slice with a non-positive step")
            s0 = I(norm_index(lo, n, 0))
            cnt = py_floordiv(n - s0 + st - 1, st)
            return npmodel.NpArr((z3.If(cnt > 0, cnt, 0),), lambda i: obj.at(s0 + I(i) * st), "slice")
        if isinstance(obj, Ref):
            return self.getitem(obj, SliceVal(lo, hi, step), node)
        if step is not None:
            raise Unsupported("slice step")
        if obj is None:
            raise PyRaise("TypeError", ("'NoneType' object is not subscriptable",), node)
        for x in (lo, hi):
            if x is not None and not is_int(x):
                if is_bool(x):
                    continue
                raise PyRaise("TypeError", ("slice indices must be integers",), node)
        if isinstance(obj, (bytes, str, tuple)) and (lo is None or isinstance(lo, int)) and (hi is None or isinstance(hi, int)):
            return obj[lo:hi]
        if isinstance(obj, (Seq, bytes, str, tuple)):
            r = seq_slice(obj, lo, hi)
            if r.kind == "list":
                r.aid = new_aid()
            return r
        raise Unsupported("slice of %r" % (obj,))

    def getitem(self, obj, idx, node=None):
        obj, idx = self.force(obj), self.force(idx)
        if type(obj).__name__ == "NpArr":
            from . import npmodel
            if not is_int(idx):
                raise Unsupported("array index %r" % (idx,))
            n0 = I(obj.shape[0])
            if not self.decide(z3.And(I(idx) >= -n0, I(idx) < n0)):
                raise PyRaise("IndexError", (), node)
            k = z3.simplify(I(idx) + n0) if self.decide(I(idx) < 0) else z3.simplify(I(idx))
            if obj.ndim == 2:
                return npmodel.NpArr(obj.shape[1:], lambda i: obj.at(k, i), "row")
            if obj.ndim == 1:
                return Fl(obj.at(k))
            raise PyRaise("IndexError", (), node)
        if obj is None:
            raise PyRaise("TypeError", ("'NoneType' object is not subscriptable",), node)
        if isinstance(obj, Ref):
            if obj.cls in self.prog.classes:
                m = self.prog.find_method(obj.cls, "__getitem__")
                if m is not None:
                    return self.call_value(BoundMethod(obj, m[1]), [idx], {})
            k = (obj.cls, "__getitem__")
            if k in self.iface:
                return self.iface[k](self, obj, [idx], {})
            raise PyRaise("TypeError", ("not subscriptable",), node)
        if isinstance(obj, DictVal):
            if isinstance(idx, str) or isinstance(idx, int):
                if idx in obj.entries:
                    p, v = obj.entries[idx]
                    if self.decide(p):
                        return v
                    raise PyRaise("KeyError", (idx,), node)
                if obj.rest_absent:
                    raise PyRaise("KeyError", (idx,), node)
            raise Unsupported("dict lookup of %r" % (idx,))
        if isinstance(obj, (tuple, list)) and isinstance(idx, int):
            try:
                return obj[idx]
            except IndexError:
                raise PyRaise("IndexError", (), node)
        if isinstance(obj, (Seq, bytes, str, tuple)):
            if isinstance(obj, (bytes, str)) and isinstance(idx, int):
                try:
                    return obj[idx]
                except IndexError:
                    raise PyRaise("IndexError", (), node)
            s = as_seq(obj)
            if not is_int(idx):
                raise PyRaise("TypeError", ("indices must be integers",), node)
            n = s.n
            inr = z3.And(I(idx) >= -I(n), I(idx) < I(n))
            if not self.decide(inr):
                raise PyRaise("IndexError", (), node)
            j = vite(I(idx) < 0, I(idx) + I(n), I(idx))
            return s.at(z3.simplify(j) if is_z3(j) else j)
        raise Unsupported("subscript of %r" % (obj,))

    def e_GeneratorExp(self, e, fr):
        if len(e.generators) != 1 or e.generators[0].ifs:
            raise Unsupported("generator expression shape")
        g = e.generators[0]
        src = self.eval(g.iter, fr)
        return GenVal("map", src=src, target=g.target, elt=e.elt, frame=fr.child(), engine=self)

    def e_ListComp(self, e, fr):
        if len(e.generators) != 1:
            raise Unsupported("list comprehension shape")
        g = e.generators[0]
        src = self.eval(g.iter, fr)
        items = self.iter_concrete(src)
        out = []
        f2 = fr.child()
        for it in items:
            self.assign(g.target, it, f2)
            keep = True
            for cond in g.ifs:          # filters over a concrete iterable: each condition is decided (forks if symbolic)
                c = self.truth(self.eval(cond, f2))
                if not (c if isinstance(c, bool) else self.decide(c)):
                    keep = False
                    break
            if keep:
                out.append(self.eval(e.elt, f2))
        return seq_lit("list", out, new_aid())

    def e_DictComp(self, e, fr):
        if len(e.generators) != 1:
            raise Unsupported("dict comprehension shape")
        g = e.generators[0]
        items = self.iter_concrete(self.force(self.eval(g.iter, fr)))
        d = DictVal()
        f2 = fr.child()
        for it in items:
            self.assign(g.target, it, f2)
            if not all(self.decide(self.truth(self.eval(c, f2))) for c in g.ifs):
                continue
            kv = self.eval(e.key, f2)
            if not isinstance(kv, (str, int)) or isinstance(kv, bool):
                raise Unsupported("dict comprehension key %r" % (kv,))
            d.entries[kv] = (True, self.eval(e.value, f2))
        return d

    def b_any(self, args, kwargs, node, fr):
        return self._anyall(args, True)

    def b_all(self, args, kwargs, node, fr):
        return self._anyall(args, False)

    def _anyall(self, args, is_any):
        (v,) = args
        v = self.force(v)
        if isinstance(v, GenVal) and v.kind == "map":
            src = self.force(v.src)
            if isinstance(src, (tuple, list)) or (isinstance(src, Seq) and src.items is not None):
                # lazily, in order, with short circuit (Python semantics)
                for x in (src if isinstance(src, (tuple, list)) else src.items):
                    self.assign(v.target, x, v.frame)
                    t = self.decide(self.truth(self.eval(v.elt, v.frame)))
                    if t == is_any:
                        return is_any
                return not is_any
            raise Unsupported("any()/all() over a generator expression on a symbolic iterable")
        if isinstance(v, (tuple, list, bytes)) or (isinstance(v, Seq) and v.items is not None):
            for x in (v if isinstance(v, (tuple, list, bytes)) else v.items):
                t = self.decide(self.truth(x))
                if t == is_any:
                    return is_any
            return not is_any
        if isinstance(v, Seq) and v.kind == "bytes":
            # symbolic bytes: any(data) <=> some byte is non-zero.  One direction carries a witness index; the other
            # (all bytes zero) is recorded as a quantified fact for instantiation by models that ask for it.
            b = z3.Bool(fresh_name("any_nonzero" if is_any else "all_nonzero"))
            k = z3.Int(fresh_name("k"))
            el = I(v.at(k))
            if is_any:
                self.assume(z3.Implies(b, z3.And(0 <= k, k < I(v.n), el != 0)))
                self.st.ghost.setdefault("all_zero_facts", []).append((z3.Not(b), v))
            else:
                self.assume(z3.Implies(z3.Not(b), z3.And(0 <= k, k < I(v.n), el == 0)))
            return b
        raise Unsupported("any()/all() over %r" % (v,))

    def iter_concrete(self, v):
        if isinstance(v, (tuple, list)):
            return list(v)
        if isinstance(v, Seq) and v.items is not None:
            return list(v.items)
        raise Unsupported("iteration over symbolic-length %r" % (v,))

    def e_Starred(self, e, fr):
        raise Unsupported("starred expression")

    def e_Yield(self, e, fr):
        v = self.eval(e.value, fr) if e.value is not None else None
        if self.yield_hook is None:
            raise Unsupported("yield without a generator contract")
        pending = getattr(fr, "finally_stack", None)
        if pending:
            # the consumer may drop the generator here; its final blocks then run when it is finalised
            if self.genexit_hook is None:
                raise Unsupported("yield inside try/finally: finalisation of an abandoned generator has no contract here")
            self.genexit_hook(self, list(reversed(pending)), fr)
        return self.yield_hook(self, v, fr, e)

    # ------------------------------------------------------------------ calls
    def e_Call(self, e, fr):
        # special forms
        if isinstance(e.func, ast.Name):
            nm = e.func.id
            if nm == "super" and not e.args:
                return SuperVal(fr.env.get("self"), fr.fi.cls.name)
            if self.spec_mode and nm in ("forall", "exists", "old", "implies", "let"):
                return self.spec_form(nm, e, fr)
        if isinstance(e.func, ast.Attribute) and e.func.attr == "append" and len(e.args) == 1 and not e.keywords:
            tgt = self.eval(e.func.value, fr)
            if isinstance(tgt, Seq) and tgt.kind == "list":
                x = self.eval(e.args[0], fr)
                # lists are modelled as values: a list that has been handed out
                # (returned / yielded) must not be mutated in place afterwards
                if tgt.aid is not None and tgt.aid in self.st.escaped:
                    self.prove("ownership:%s:append-to-escaped-list" % (fr.fi.qualname if fr.fi else "?"),
                               False, props=("C01", "C20"), where="%s:%d" % (fr.file, e.lineno))
                new = seq_append(tgt, x)
                hk = self.st.ghost.get("on_append")
                if hk is not None:
                    new = hk(self, tgt, x, new)
                self.assign(_as_store(e.func.value), new, fr)
                return None
            if tgt is None:
                raise PyRaise("AttributeError", ("'NoneType' object has no attribute 'append'",), e)
        f = self.eval(e.func, fr)
        args = []
        for a in e.args:
            if isinstance(a, ast.Starred):
                args.extend(self.iter_concrete(self.eval(a.value, fr)))
            else:
                args.append(self.eval(a, fr))
        kwargs = {}
        for k in e.keywords:
            if k.arg is None:
                d = self.eval(k.value, fr)
                if isinstance(d, dict):
                    kwargs.update(d)
                    continue
                if not isinstance(d, DictVal):
                    raise Unsupported("** of %r" % (d,))
                for key, (p, v) in d.entries.items():
                    if isinstance(p, bool):
                        if p:
                            kwargs[key] = v
                    else:
                        kwargs[key] = Absentable(p, v)
            else:
                kwargs[k.arg] = self.eval(k.value, fr)
        return self.call_value(f, args, kwargs, e, fr)

    def call_value(self, f, args, kwargs, node=None, fr=None):
        f = self.force(f)
        if isinstance(f, BoundLib) and isinstance(self.force(f.obj), DictVal) and f.name == "get":
            args = [self.force(args[0])] + list(args[1:])
        elif isinstance(f, (Builtin, BoundLib)):
            args = [self.force(a) for a in args]
            kwargs = {k: self.force(v) for k, v in kwargs.items()}
        if isinstance(f, FuncInfo):
            return self.call_func(f, args, kwargs, None)
        if isinstance(f, BoundMethod):
            return self.call_func(f.fi, args, kwargs, f.self_val)
        if isinstance(f, Closure):
            return self.call_closure(f, args, kwargs)
        if isinstance(f, Builtin):
            h = getattr(self, "b_" + f.name, None)
            if h is None:
                raise Unsupported("builtin %s" % f.name)
            return h(args, kwargs, node, fr)
        if isinstance(f, LibCallable):
            self.used_lib.add(f.name)
            if self.in_memo and (f.name in ("builtin.open", "wave.open", "time.sleep", "datetime.datetime.now")
                                 or f.name.startswith(("os.path.exists", "os.path.isfile", "os.path.getsize", "os.stat"))):
                self.prove("memoised:%s-answers-from-its-arguments-alone(it-consults-%s)" % (self.in_memo.split(".")[-1], f.name),
                           False, props=("*",))
            return f.fn(self, args, kwargs)
        if isinstance(f, BoundLib):
            return self.call_lib_method(f.obj, f.name, args, kwargs, node)
        if isinstance(f, IfaceMethod):
            self.used_contracts.add("%s.%s" % (f.obj.cls, f.name))
            if self.in_memo:
                self.prove("memoised:%s-answers-from-its-arguments-alone(it-uses-the-object-%s.%s)" % (
                    self.in_memo.split(".")[-1], f.obj.cls, f.name), False, props=("*",))
            return f.fn(self, f.obj, args, kwargs)
        if isinstance(f, ClassVal):
            return self.instantiate(f.name, args, kwargs, node)
        if isinstance(f, PartialVal):
            kw = dict(f.kwargs)
            kw.update(kwargs)
            return self.call_value(f.f, list(f.args) + list(args), kw, node, fr)
        if f is None:
            raise PyRaise("TypeError", ("'NoneType' object is not callable",), node)
        raise Unsupported("call of %r" % (f,))

    _KNOWN_DECORATORS = ("property", "classmethod", "staticmethod", "abstractmethod", "abc.abstractmethod")

    def memo_info(self, d, fi):
        """Is decorator text `d` a memoising decorator?  functools.lru_cache / functools.cache, bare or called, or a decorator
        DEFINED IN THE REPOSITORY whose own body builds on one of those.  Returns None or {"typed": bool}."""
        import re as _re
        head = d.split("(")[0].strip()
        base = head.split(".")[-1]
        if base in ("lru_cache", "cache") and head in ("lru_cache", "cache", "functools.lru_cache", "functools.cache"):
            return {"typed": bool(_re.search(r"typed\s*=\s*True", d))}
        mod = fi.module
        f2 = getattr(mod, "functions", {}).get(base) if head == base else None
        if f2 is not None:
            src = ast.unparse(f2.node)
            if _re.search(r"\b(lru_cache|cache)\b", src):
                return {"typed": bool(_re.search(r"typed\s*=\s*True", src))}
        return None

    def check_decorators(self, fi):
        memo = None
        for d in getattr(fi, "decorators", ()):
            if d in self._KNOWN_DECORATORS or d.endswith(".setter") or d.endswith(".getter"):
                continue
            m = self.memo_info(d, fi)
            if m is not None:
                memo = m
                continue
            raise Unsupported("function %s is wrapped by decorator @%s, whose effect (caching, wrapping, ...) is not modelled"
                              % (fi.qualname, d))
        return memo

    def call_memoised(self, fi, args, kwargs, self_val, memo):
        """A memoised function (lru_cache semantics).  Every call may be a miss, so the body is interpreted on the actual
        arguments; what memoisation ADDS is modelled as obligations and nondeterminism:
          * the body may not consult anything but its arguments (files, streams, the clock): a later call with equal
            arguments is answered from the cache whatever the world looks like by then  -> obligation;
          * an object it returns may be the very object an EARLIER call returned (ghost `maybe_shared`), so a caller that
            needs an object of its own has an obligation it can no longer meet;
          * typed=False: keys compare with ==, so 100.0 hits the entry stored for 100: for every numeric argument the
            answer may be the one computed for the equal number of the other type."""
        args = list(args)
        numeric = [a for a in map(self.force, args) if (isinstance(a, Fl) or is_int(a)) and not isinstance(a, bool)
                   and not (z3.is_expr(a) and z3.is_bool(a))]
        # (explored for functions with at most two numeric parameters: one fork per parameter)
        if not memo.get("typed") and len(numeric) <= 2:
            for i, a in enumerate(args):
                a = self.force(a)
                if isinstance(a, Fl) and not isinstance(a, bool):
                    if self.choose(2, None, "memoised %s: own entry / hit on the entry of the equal int" % fi.qualname.split(".")[-1]) == 1:
                        k = z3.Int(fresh_name("memo.int"))
                        self.assume(z3.ToReal(k) == a.t)
                        args[i] = k
                elif is_int(a) and not isinstance(a, bool) and not z3.is_bool(a) if z3.is_expr(a) else (isinstance(a, int) and not isinstance(a, bool)):
                    if self.choose(2, None, "memoised %s: own entry / hit on the entry of the equal float" % fi.qualname.split(".")[-1]) == 1:
                        args[i] = Fl(z3.ToReal(I(a)))
        prev = self.in_memo
        self.in_memo = fi.qualname
        try:
            res = self.run_function(fi, args, kwargs, self_val)
        finally:
            self.in_memo = prev
        for r in (res if isinstance(res, tuple) else (res,)):
            if isinstance(r, Ref):
                self.st.ghost.setdefault("maybe_shared", {})[r.oid] = fi.qualname
        return res

    def call_func(self, fi, args, kwargs, self_val):
        memo = self.check_decorators(fi)
        q = fi.qualname
        if memo is not None and q not in self.contracts and not self.concrete:
            self.used_inline.add(q + " (memoised)")
            return self.call_memoised(fi, args, kwargs, self_val, memo)
        if q in self.contracts:
            self.used_contracts.add(q)
            return self.contracts[q](self, fi, self_val, args, kwargs)
        if q in self.inline or self.concrete:
            self.used_inline.add(q)
            if fi.is_generator:
                if not self.concrete:
                    raise Unsupported("inline generator " + q)
                # concrete mode: run the generator body eagerly, collecting what it yields
                out = []
                old_hook = self.yield_hook
                self.yield_hook = lambda e, v, f_, n_: out.append(v)
                try:
                    self.run_function(fi, args, kwargs, self_val)
                finally:
                    self.yield_hook = old_hook
                return seq_lit("list", out, new_aid())
            return self.run_function(fi, args, kwargs, self_val)
        # auto-inline: a helper of the repository that the unit did not anticipate (e.g. after a refactoring) is
        # interpreted in place when that is possible without further specification: no generator, and every loop it
        # contains is either over a literal tuple or has a loop spec.  Interpreting the real body is always sound;
        # the function is listed in evidence as inlined.
        if self.auto_inline and not fi.is_generator and self._inline_depth < 6 and self._loops_ok(fi):
            self.used_inline.add(q + " (auto)")
            self._inline_depth += 1
            try:
                return self.run_function(fi, args, kwargs, self_val)
            finally:
                self._inline_depth -= 1
        raise Unsupported("call to %s: no contract and not declared inline" % q)

    def _loops_ok(self, fi):
        loops = [n for n in ast.walk(fi.node) if isinstance(n, (ast.While, ast.For))]
        loops.sort(key=lambda n: (n.lineno, n.col_offset))
        specs = getattr(self, "loop_specs", {})
        for k, n in enumerate(loops):
            if isinstance(n, ast.For) and isinstance(n.iter, (ast.Tuple, ast.List)):
                continue
            if (fi.qualname, k) not in specs:
                return False
        return True

    def call_closure(self, c, args, kwargs):
        if isinstance(c.node, ast.Lambda):
            env = dict(c.env)
            env.update(self.bind_args(c.node.args, args, dict(kwargs), None, None, c.env))
            fr = Frame(None, env, c.module)
            return self.eval(c.node.body, fr)
        env = dict(c.env)
        env.update(self.bind_args(c.node.args, args, dict(kwargs), None, None, c.env))
        fr = Frame(None, env, c.module)
        fr.fi = self.current_fn
        return self.exec_body(c.node.body, fr)

    def call_method(self, obj, name, args, kwargs):
        f = self.getattr(obj, name)
        return self.call_value(f, args, kwargs)

    def instantiate(self, cls, args, kwargs, node=None):
        if cls in _EXC_NAMES or (cls in self.prog.classes and self.prog.is_subclass(cls, "Exception")):
            r = self.st.new_obj(cls, {"args": tuple(args)})
            if cls in self.prog.classes:
                m = self.prog.find_method(cls, "__init__")
                if m is not None:
                    fi = m[1]
                    env = self.bind_args(fi.node.args, args, dict(kwargs), r, fi)
                    frame = Frame(fi, env)
                    # exception __init__ bodies here only set attributes and call super().__init__
                    self.exec_body(fi.node.body, frame)
            return r
        q = cls + ".__new__"
        if cls in self.ctor_contracts:
            self.used_contracts.add(cls + "()")
            return self.ctor_contracts[cls](self, args, kwargs)
        if cls not in self.prog.classes:
            raise Unsupported("instantiation of unknown class %s" % cls)
        c = self.prog.classes[cls]
        r = self.st.new_obj(cls)
        if any(d.startswith("dataclass") for d in c.decorators):
            names = [f for f, _ in c.fields]
            vals = {}
            for i, a in enumerate(args):
                vals[names[i]] = a
            for k, v in kwargs.items():
                if k not in names:
                    raise PyRaise("TypeError", ("unexpected keyword " + k,), node)
                vals[k] = v
            for f, d in c.fields:
                if f not in vals:
                    if d is None:
                        raise PyRaise("TypeError", ("missing field " + f,), node)
                    vals[f] = self.dataclass_default(d, c)
            self.st.heap[r.oid].update(vals)
            pi = self.prog.find_method(cls, "__post_init__")
            if pi is not None:
                self.st.ghost.setdefault("in_init", {})[r.oid] = True
                self.call_func(pi[1], [], {}, r)
                self.st.ghost["in_init"][r.oid] = False
            return r
        m = self.prog.find_method(cls, "__init__")
        if m is not None:
            self.call_func(m[1], args, kwargs, r)
        elif args or kwargs:
            raise PyRaise("TypeError", ("takes no arguments",), node)
        return r

    ctor_contracts = {}

    def dataclass_default(self, d, c):
        if isinstance(d, ast.Call) and ast.unparse(d.func) == "field":
            for k in d.keywords:
                if k.arg == "default":
                    return self.eval(k.value, Frame(None, {}, c.module))
            raise Unsupported("dataclass field without default")
        return self.eval(d, Frame(None, {}, c.module))

    # --------------------------------------------------------------- builtins
    def b_len(self, args, kwargs, node, fr):
        (v,) = args
        if isinstance(v, (bytes, str, tuple, list)):
            return len(v)
        if isinstance(v, Seq):
            return v.n
        if isinstance(v, Ref):
            if v.cls in self.prog.classes:
                m = self.prog.find_method(v.cls, "__len__")
                if m is not None:
                    return self.call_value(BoundMethod(v, m[1]), [], {})
            k = (v.cls, "__len__")
            if k in self.iface:
                return self.iface[k](self, v, [], {})
        if v is None or is_int(v) or isinstance(v, Fl):
            raise PyRaise("TypeError", ("object of type '%s' has no len()" % kind_of(v),), node)
        raise Unsupported("len of %r" % (v,))

    def b_min(self, args, kwargs, node, fr):
        return self._minmax(args, True)

    def b_max(self, args, kwargs, node, fr):
        return self._minmax(args, False)

    def _minmax(self, args, is_min):
        if len(args) == 1:
            args = self.iter_concrete(args[0])
        r = args[0]
        for x in args[1:]:
            if isinstance(r, Fl) or isinstance(x, Fl):
                c = (R(x) < R(r)) if is_min else (R(x) > R(r))
                r = vite(c, x if isinstance(x, Fl) else Fl(R(x)), r if isinstance(r, Fl) else Fl(R(r)))
            elif is_int(r) and is_int(x):
                r = imin(r, x) if is_min else imax(r, x)
            else:
                raise Unsupported("min/max of %r,%r" % (r, x))
        return r

    def b_abs(self, args, kwargs, node, fr):
        (v,) = args
        if isinstance(v, Fl):
            return fl_abs(v)
        if isinstance(v, int):
            return abs(v)
        if is_int(v):
            return z3.If(v >= 0, v, -v)
        raise Unsupported("abs of %r" % (v,))

    def b_int(self, args, kwargs, node, fr):
        (v,) = args
        if isinstance(v, bool):
            return int(v)
        if is_int(v):
            return v
        if is_bool(v):
            return I(v)
        if isinstance(v, Fl):
            return fl_trunc(v)
        if isinstance(v, str):
            try:
                return int(v)
            except ValueError:
                raise PyRaise("ValueError", ("invalid literal for int()",), node)
        if v is None or isinstance(v, (Seq, tuple, Ref, DictVal)):
            raise PyRaise("TypeError", ("int() argument",), node)
        if isinstance(v, Opq):
            h = self.st.ghost.get("int_of_opaque")
            if h is not None:
                return h(self, v, node)
        raise Unsupported("int() of %r" % (v,))

    def b_float(self, args, kwargs, node, fr):
        (v,) = args
        if isinstance(v, Fl):
            return v
        if is_int(v):
            return Fl(R(v))
        if isinstance(v, (str, bytes)):
            try:
                return Fl(z3.RealVal(repr(float(v)))) if float(v) == float(v) and abs(float(v)) != float("inf") else Fl(z3.Real(fresh_name("nonfinite")))
            except ValueError:
                raise PyRaise("ValueError", ("could not convert string to float",), node)
        if v is None or isinstance(v, (Seq, Ref, Opq, tuple, list, DictVal)):
            raise PyRaise("TypeError" if not (isinstance(v, Opq) and v.tag == "str") else "ValueError", ("float() argument",), node)
        raise Unsupported("float() of %r" % (v,))

    def b_round(self, args, kwargs, node, fr):
        if len(args) == 2 or "ndigits" in kwargs:
            v = self.force(args[0])
            nd = args[1] if len(args) == 2 else kwargs["ndigits"]
            if nd is None:
                return self.b_round([v], {}, node, fr)
            if is_int(v):
                if isinstance(nd, int) and nd >= 0:
                    return v
                raise Unsupported("round(int, negative ndigits)")
            if isinstance(v, Fl) and is_int(nd):
                # the decimal rounding of a double to ndigits places: SOME double near v -- an uninterpreted function of
                # (v, ndigits) of which nothing else is known (in particular it need not equal v)
                f = z3.Function("py.round_ndigits", z3.RealSort(), z3.IntSort(), z3.RealSort())
                return Fl(f(v.t, I(nd)))
            raise Unsupported("round(%r, %r)" % (v, nd))
        if len(args) != 1:
            raise Unsupported("round arguments")
        (v,) = args
        if is_int(v):
            return v
        if isinstance(v, Fl):
            return fl_round(v)
        raise Unsupported("round of %r" % (v,))

    def b_divmod(self, args, kwargs, node, fr):
        a, b = args
        if isinstance(a, Fl) or isinstance(b, Fl):
            # real-mode float divmod by a positive constant: q = floor(a/b) (as a float), r = a - q*b
            bz = z3.simplify(R(b))
            if z3.is_rational_value(bz) and bz.numerator_as_long() > 0 and not self.float_strict:
                q = z3.ToInt(R(a) / bz)
                return (Fl(z3.ToReal(q)), Fl(R(a) - z3.ToReal(q) * bz))
            raise Unsupported("float divmod")
        if self.decide(self.num_eq0(b)):
            raise PyRaise("ZeroDivisionError", (), node)
        return (py_floordiv(a, b), py_mod(a, b))

    def b_bool(self, args, kwargs, node, fr):
        return self.truth(args[0])

    def b_callable(self, args, kwargs, node, fr):
        (v,) = args
        if isinstance(v, (Closure, BoundMethod, Builtin, LibCallable, FuncInfo, ClassVal, PartialVal, IfaceMethod, BoundLib)):
            return True
        if isinstance(v, Ref):
            cs = self.st.ghost.get("callable_refs", {})
            if v.oid in cs:
                return cs[v.oid]
            if v.cls in self.prog.classes:
                return self.prog.find_method(v.cls, "__call__") is not None
            return False
        if isinstance(v, Opq):
            f = self.st.ghost.get("callable_fn")
            if f is not None:
                return f(v)
        return False

    def b_isinstance(self, args, kwargs, node, fr):
        v, t = args
        ts = t if isinstance(t, tuple) else (t,)
        res = False
        for tt in ts:
            r = self.isinstance1(v, tt)
            if r is True:
                return True
            if r is not False:
                res = r if res is False else z3.Or(res, r)
        return res

    def isinstance1(self, v, t):
        name = t.name if isinstance(t, (ClassVal, Builtin)) else None
        if name is None:
            raise Unsupported("isinstance with %r" % (t,))
        k = kind_of(v)
        if name == "int":
            return k in ("int", "bool")
        if name == "float":
            return k == "float"
        if name == "bool":
            return k == "bool"
        if name == "str":
            return k == "str" or (isinstance(v, Opq) and v.tag == "str")
        if name == "bytes":
            return k == "bytes"
        if name == "slice":
            return isinstance(v, SliceVal)
        if name in ("list", "tuple", "dict"):
            return k == name
        if isinstance(v, Ref):
            if v.cls in self.prog.classes:
                isa = self.st.ghost.get("isa", {}).get(v.oid)
                if isa is not None and name in isa:
                    return isa[name]
                return self.prog.is_subclass(v.cls, name)
            isa = self.st.ghost.get("isa", {}).get(v.oid)
            if isa is not None and name in isa:
                return isa[name]
            if name in self.prog.classes and self.abstract_isinstance:
                # an abstract (interface-typed) object stands for ANY implementation of the interface: whether it is an
                # instance of a concrete repository class is unknown -- a symbolic Boolean, consistent with what is
                # already known about it (subclass => superclass)
                known = isa or {}
                for other, val in known.items():
                    if other in self.prog.classes:
                        if val is True and self.prog.is_subclass(other, name):
                            return True
                        if val is False and self.prog.is_subclass(name, other):
                            return False
                b = z3.Bool(fresh_name("isa.%s.%s" % (v.cls, name)))
                for other, val in known.items():
                    if other in self.prog.classes and z3.is_expr(val):
                        if self.prog.is_subclass(other, name):
                            self.assume(z3.Implies(val, b))
                        if self.prog.is_subclass(name, other):
                            self.assume(z3.Implies(b, val))
                self.st.ghost.setdefault("isa", {}).setdefault(v.oid, {})[name] = b
                return b
            return False
        if isinstance(v, Opq):
            f = self.st.ghost.get("isinstance_fn")
            if f is not None:
                return f(v, name)
            return False
        if name == "Path":
            return False
        return False

    def b_bytes(self, args, kwargs, node, fr):
        (v,) = args
        if isinstance(v, (bytes,)):
            return v
        if isinstance(v, Seq) and v.kind == "bytes":
            return v
        if isinstance(v, Ref) and v.cls in self.prog.classes:
            m = self.prog.find_method(v.cls, "__bytes__")
            if m is not None:
                return self.call_value(BoundMethod(v, m[1]), [], {})
        if isinstance(v, GenVal) and v.kind == "map":
            src = self.force(v.src)
            if isinstance(src, (bytes, range, list, tuple)):
                # concrete source: the element expression is evaluated item by item
                out = []
                for x in src:
                    self.assign(v.target, x, v.frame)
                    y = self.eval(v.elt, v.frame)
                    if not (isinstance(y, int) and not isinstance(y, bool)):
                        raise Unsupported("bytes(generator) with a symbolic element over a concrete source")
                    if not 0 <= y < 256:
                        raise PyRaise("ValueError", ("bytes must be in range(0, 256)",), node)
                    out.append(y)
                return bytes(out)
            if isinstance(src, Seq) and src.kind == "bytes" and isinstance(v.target, ast.Name):
                # bytes(f(b) for b in data): same length, element i is f(data[i]); each element must be a byte
                eng, frame, elt, tname = self, v.frame, v.elt, v.target.id
                j = z3.Int(fresh_name("bytes.gen.idx"))
                frame.env[tname] = src.at(j)
                yj = self.eval(elt, frame)
                if not is_int(yj):
                    raise Unsupported("bytes(generator): element is not an int")
                self.prove("bytes(generator):every-element-is-a-byte", z3.Implies(z3.And(j >= 0, j < I(src.n), src.at(j) >= 0, src.at(j) < 256),
                                                                             z3.And(I(yj) >= 0, I(yj) < 256)), props=("*",))

                def at(i, _src=src):
                    frame.env[tname] = _src.at(I(i))
                    return I(eng.eval(elt, frame))
                return Seq("bytes", src.n, at)
        raise Unsupported("bytes() of %r" % (v,))

    def b_str(self, args, kwargs, node, fr):
        (v,) = args
        if isinstance(v, str):
            return v
        if isinstance(v, int) and not isinstance(v, bool):
            return str(v)
        return Opq(tag="str")

    def b_type(self, args, kwargs, node, fr):
        return Opq(tag="type")

    def b_list(self, args, kwargs, node, fr):
        if not args:
            return seq_lit("list", [], new_aid())
        (v,) = args
        if isinstance(v, GenVal):
            return self.gen_to_list(v)
        if isinstance(v, Seq):
            return Seq("list", v.n, v.at, new_aid(), v.items)
        if isinstance(v, tuple):
            return seq_lit("list", list(v), new_aid())
        raise Unsupported("list() of %r" % (v,))

    def gen_to_list(self, g):
        h = self.st.ghost.get("gen_to_list")
        if h is not None:
            return h(self, g)
        if self.concrete and isinstance(g, GenVal) and g.kind == "map":
            outs = []
            for x in self.iter_concrete(self.force(g.src)):
                self.assign(g.target, x, g.frame)
                outs.append(self.eval(g.elt, g.frame))
            return seq_lit("list", outs, new_aid())
        raise Unsupported("list() of a generator without a contract")

    def b_next(self, args, kwargs, node, fr):
        g = args[0]
        if isinstance(g, GenVal) and g.kind == "abstract":
            return g.next_fn(self, g)
        raise Unsupported("next() of %r" % (g,))

    def b_print(self, args, kwargs, node, fr):
        self.st.ghost.setdefault("stdout", []).append((tuple(args), dict(kwargs)))
        return None

    def b_getattr(self, args, kwargs, node, fr):
        if len(args) == 2:
            obj, name = args
            if not isinstance(name, str):
                raise Unsupported("getattr with symbolic name")
            return self.getattr(obj, name)
        obj, name, default = args
        try:
            return self.getattr(obj, name)
        except PyRaise as e:
            if e.exc == "AttributeError":
                return default
            raise

    def b_hasattr(self, args, kwargs, node, fr):
        obj, name = args
        try:
            self.getattr(obj, name)
            return True
        except PyRaise as e:
            if e.exc == "AttributeError":
                return False
            raise

    def b_enumerate(self, args, kwargs, node, fr):
        start = kwargs.get("start", args[1] if len(args) > 1 else 0)
        return GenVal("enumerate", src=args[0], start=start)

    def b_range(self, args, kwargs, node, fr):
        if all(isinstance(a, int) for a in args):
            return tuple(range(*args))
        raise Unsupported("symbolic range")

    def b_slice(self, args, kwargs, node, fr):
        if len(args) == 1:
            return SliceVal(None, args[0], None)
        if len(args) == 2:
            return SliceVal(args[0], args[1], None)
        return SliceVal(*args)

    def b_open(self, args, kwargs, node, fr):
        h = self.lib.get("builtin.open")
        if h is None:
            raise Unsupported("open() without a file-system model")
        self.used_lib.add("builtin.open")
        return h(self, args, kwargs)

    def b_object(self, args, kwargs, node, fr):
        raise Unsupported("object()")

    # ------------------------------------------------------------ lib methods
    def call_lib_method(self, obj, name, args, kwargs, node=None):
        obj = self.force(obj)
        if isinstance(obj, Seq) and obj.kind == "list":
            if name == "append":
                raise Unsupported("list.append must be applied through a location (handled in e_Call)")
        if isinstance(obj, (Seq, bytes)) and as_seq(obj).kind == "bytes" and name == "join":
            return self.bytes_join(obj, args[0])
        if isinstance(obj, (Seq, bytes)) and as_seq(obj).kind == "bytes" and name == "translate" and len(args) == 1 and not kwargs:
            table = self.force(args[0])
            if table is None:
                return obj
            if not (isinstance(table, bytes) and len(table) == 256):
                raise Unsupported("bytes.translate with a symbolic table")
            if isinstance(obj, bytes):
                return obj.translate(table)
            arr = z3.K(z3.IntSort(), z3.IntVal(0))
            for k_, v_ in enumerate(table):
                arr = z3.Store(arr, k_, v_)
            src = obj
            return Seq("bytes", src.n, lambda i, _s=src, _a=arr: z3.Select(_a, _s.at(I(i))))
        if isinstance(obj, str):
            if name == "format":
                # a literal template: the fields it names must exist among the arguments (str.format raises IndexError /
                # KeyError otherwise, whatever the values are)
                import string as _string
                try:
                    auto = 0
                    for _lit, fld, _spec, _conv in _string.Formatter().parse(obj):
                        if fld is None:
                            continue
                        head = fld.split(".")[0].split("[")[0]
                        if head == "":
                            idx, auto = auto, auto + 1
                        elif head.isdigit():
                            idx = int(head)
                        else:
                            idx = None
                        if idx is not None and idx >= len(args):
                            raise PyRaise("IndexError", ("Replacement index %d out of range for positional args tuple" % idx,), node)
                        if idx is None and head not in kwargs:
                            raise PyRaise("KeyError", (head,), node)
                except ValueError as _e:
                    raise PyRaise("ValueError", (str(_e),), node)
                if all(isinstance(a, (str, int)) and not isinstance(a, bool) for a in list(args) + list(kwargs.values())):
                    try:
                        return obj.format(*args, **kwargs)
                    except (IndexError, KeyError, ValueError) as _e:
                        raise PyRaise(type(_e).__name__, (str(_e),), node)
                    except Exception:
                        pass
                h = self.st.ghost.get("str_format")
                if h is not None:
                    return h(self, obj, args, kwargs)
                return Opq(tag="str")
            if name in ("lower", "upper", "strip", "isupper", "islower", "isdigit") and not args:
                return getattr(obj, name)()
            if name == "replace" and all(isinstance(a, str) for a in args):
                return obj.replace(*args)
            if name == "index" and all(isinstance(a, str) for a in args):
                try:
                    return obj.index(*args)
                except ValueError:
                    raise PyRaise("ValueError", ("substring not found",), node)
            if name == "join":
                return Opq(tag="str")
        if isinstance(obj, Seq) and obj.kind == "str" and name in ("strip", "lstrip", "rstrip", "lower", "upper", "replace", "expandtabs", "casefold"):
            # a string of symbolic content: the result is SOME string, not longer than the original for the strip family
            n2 = z3.Int(fresh_name("str.len"))
            self.assume(z3.And(n2 >= 0, n2 <= I(obj.n)) if name.endswith("strip") else n2 >= 0)
            return Seq("str", n2, lambda i: Opq())
        if isinstance(obj, Opq) and obj.tag == "str":
            if name in ("format", "lower", "replace", "strip", "upper"):
                h = self.st.ghost.get("opq_str_method")
                if h is not None:
                    return h(self, obj, name, args, kwargs)
                return Opq(tag="str")
        if isinstance(obj, DictVal):
            if name == "get":
                key = args[0]
                default = args[1] if len(args) > 1 else None
                if not isinstance(key, (str, int)) or isinstance(key, bool):
                    raise Unsupported("dict.get with non-literal key")
                if key in obj.entries:
                    p, v = obj.entries[key]
                    if isinstance(p, bool):
                        return v if p else default
                    return lazy_ite(p, v, default)
                if obj.rest_absent:
                    return default
                raise Unsupported("dict.get of unmodelled key %r" % key)
            if name == "copy":
                return obj.copy()
            if name == "pop":
                key = args[0]
                has_default = len(args) > 1
                default = args[1] if has_default else None
                if not isinstance(key, (str, int)) or isinstance(key, bool):
                    raise Unsupported("dict.pop with non-literal key")
                if key in obj.entries:
                    p, v = obj.entries[key]
                    if has_default:
                        r = (v if p else default) if isinstance(p, bool) else lazy_ite(p, v, default)
                    else:
                        if not self.decide(p):
                            raise PyRaise("KeyError", (key,))
                        r = v
                    obj.entries[key] = (False, None)
                    return r
                if obj.rest_absent:
                    if has_default:
                        return default
                    raise PyRaise("KeyError", (key,))
                raise Unsupported("dict.pop of unmodelled key %r" % key)
            if name == "update":
                for a_ in args:
                    a_ = self.force(a_)
                    if not isinstance(a_, DictVal):
                        raise Unsupported("dict.update with %r" % (a_,))
                    obj.entries.update(a_.entries)
                for k_, v_ in kwargs.items():
                    obj.entries[k_] = (True, v_)
                return None
            if name == "items":
                raise Unsupported("dict.items")
        h = self.lib.get("method:" + kind_of(obj).split(":")[0] + "." + name)
        if h is not None:
            return h(self, obj, args, kwargs)
        raise Unsupported("method %s on %s" % (name, kind_of(obj)))

    def bytes_join(self, sep, parts):
        h = self.st.ghost.get("bytes_join_any")
        if h is not None:
            r = h(self, sep, parts)
            if r is not NotImplemented:
                return r
        if parts is None or is_int(parts) or isinstance(parts, Fl):
            raise PyRaise("TypeError", ("can only join an iterable",))
        if isinstance(parts, GenVal):
            parts = self.gen_to_list(parts)
        if isinstance(parts, (tuple, list)):
            parts = seq_lit("list", list(parts))
        if isinstance(parts, Seq) and parts.items is not None:
            r = None
            for i, p in enumerate(parts.items):
                if not isinstance(p, (Seq, bytes)) or as_seq(p).kind != "bytes":
                    raise PyRaise("TypeError", ("sequence item %d: expected a bytes-like object" % i,))
                r = p if r is None else seq_concat(seq_concat(r, sep), p)
            return r if r is not None else b""
        h = self.st.ghost.get("bytes_join")
        if h is not None:
            return h(self, sep, parts)
        raise Unsupported("bytes.join over a symbolic-length sequence without a join model")

    # ------------------------------------------------------------------ specs
    def spec(self, src, env, fr=None):
        """Evaluate a spec expression (Python syntax) to a value / formula."""
        tree = _parse_expr(src)
        old = self.spec_mode
        self.spec_mode = True
        try:
            f = Frame(fr.fi if fr else None, dict(env), fr.module if fr else None)
            f.spec_env = self.spec_globals
            return self.eval(tree, f)
        finally:
            self.spec_mode = old

    spec_globals = {}

    def spec_form(self, nm, e, fr):
        if nm == "implies":
            a = self.truth(self.eval(e.args[0], fr))
            if isinstance(a, bool):
                if not a:
                    return True
                return self.truth(self.eval(e.args[1], fr))
            b = self.truth(self.eval(e.args[1], fr))
            return z3.Implies(B(a), B(b))
        if nm in ("forall", "exists"):
            var = e.args[0]
            if not isinstance(var, ast.Name):
                raise Unsupported("forall: first argument must be a name")
            lo = self.eval(e.args[1], fr)
            hi = self.eval(e.args[2], fr)
            k = z3.Int(fresh_name(var.id))
            f2 = fr.child()
            f2.env[var.id] = k
            body = B(self.truth(self.eval(e.args[3], f2)))
            rng = z3.And(k >= I(lo), k < I(hi))
            if nm == "forall":
                return z3.ForAll([k], z3.Implies(rng, body))
            return z3.Exists([k], z3.And(rng, body))
        if nm == "old":
            oldenv = fr.env.get("__old__")
            if oldenv is None:
                raise Unsupported("old() outside a postcondition")
            f2 = Frame(fr.fi, dict(oldenv), fr.module)
            f2.spec_env = fr.spec_env
            saved = self.st.heap
            self.st.heap = fr.env["__oldheap__"]
            try:
                return self.eval(e.args[0], f2)
            finally:
                self.st.heap = saved
        raise Unsupported("spec form " + nm)


class MaybeVal:
    """Lazy if-then-else between values of different kinds (e.g. a float or
    None): resolved by forking only where the code inspects the value."""

    def __init__(self, cond, a, b):
        self.cond, self.a, self.b = cond, a, b

    def __repr__(self):
        return "Maybe(%s ? %r : %r)" % (self.cond, self.a, self.b)


class Absentable:
    """A keyword argument that may be absent (symbolic presence flag)."""

    def __init__(self, present, value):
        self.present, self.value = present, value

    def __repr__(self):
        return "Absentable(%s, %r)" % (self.present, self.value)


def lazy_ite(c, a, b):
    if isinstance(c, bool):
        return a if c else b
    if isinstance(a, MaybeVal) or isinstance(b, MaybeVal):
        return MaybeVal(c, a, b)
    try:
        return vite(c, a, b)
    except TypeError:
        return MaybeVal(c, a, b)


class Havoc:
    """Value of a local that is assigned inside a loop body, at the start of the
    generic iteration: unknown unless the loop invariant says what it is."""

    def __init__(self, name):
        self.name = name


_RND = z3.Function("fl.rnd", z3.RealSort(), z3.RealSort())
_TRUTHY = z3.Function("py.truthy", ValS, z3.BoolSort())


def _as_double(v):
    """The Python float a numeric VALUE denotes, when it is a concrete number that a double holds exactly."""
    if isinstance(v, bool):
        return None
    if isinstance(v, int):
        return float(v) if abs(v) <= 2 ** 53 else None
    t = v.t if isinstance(v, Fl) else (v if is_z3(v) else None)
    if t is None:
        return None
    t = z3.simplify(t)
    if z3.is_int_value(t):
        k = t.as_long()
        return float(k) if abs(k) <= 2 ** 53 else None
    if z3.is_rational_value(t):
        import fractions as _fr
        q = _fr.Fraction(t.numerator_as_long(), t.denominator_as_long())
        try:
            f = float(q)
        except OverflowError:
            return None
        return f if _fr.Fraction(f) == q else None
    return None


class Stale:
    """Value of an object field that holds whatever an earlier use of the object left there.  Reading it (before it is
    written) is an obligation failure: the result would depend on the object's history."""

    def __init__(self, name, props=("*",), why="is not reset and is read before being written"):
        self.name, self.props, self.why = name, tuple(props), why


class SliceVal:
    def __init__(self, start, stop, step):
        self.start, self.stop, self.step = start, stop, step

    def __repr__(self):
        return "slice(%r,%r,%r)" % (self.start, self.stop, self.step)


class NS:
    """Plain namespace object (argparse.Namespace and the like)."""

    def __init__(self, d):
        self.d = d


class PartialVal:
    def __init__(self, f, args, kwargs):
        self.f, self.args, self.kwargs = f, args, kwargs


class BoundLib:
    def __init__(self, obj, name):
        self.obj, self.name = obj, name


class IfaceMethod:
    def __init__(self, obj, name, fn):
        self.obj, self.name, self.fn = obj, name, fn


class SuperVal:
    def __init__(self, self_val, clsname):
        self.self_val, self.clsname = self_val, clsname


class Frame:
    def __init__(self, fi, env, module=None):
        self.fi = fi
        self.env = env
        self.module = module if module is not None else (fi.module if fi is not None else None)
        self.line = 0
        self.spec_env = None

    @property
    def file(self):
        return self.module.path if self.module is not None else "?"

    def child(self):
        f = Frame(self.fi, dict(self.env), self.module)
        f.spec_env = self.spec_env
        return f


_expr_cache = {}


def _parse_expr(src):
    t = _expr_cache.get(src)
    if t is None:
        t = ast.parse(src.strip(), mode="eval").body
        _expr_cache[src] = t
    return t


def _as_load(t):
    import copy
    t2 = copy.copy(t)
    t2.ctx = ast.Load()
    return t2


def _as_store(t):
    import copy
    t2 = copy.copy(t)
    t2.ctx = ast.Store()
    return t2


_BUILTIN_NAMES = {
    "len", "min", "max", "abs", "int", "float", "round", "divmod", "bool", "callable", "isinstance",
    "bytes", "str", "type", "list", "next", "print", "getattr", "hasattr", "enumerate", "range",
    "slice", "object", "super", "open", "tuple", "dict", "sum", "any", "all",
}
_EXC_NAMES = {
    "Exception", "ValueError", "TypeError", "IndexError", "KeyError", "AttributeError", "RuntimeError",
    "IOError", "OSError", "FileExistsError", "StopIteration", "ZeroDivisionError", "RuntimeWarning",
    "KeyboardInterrupt", "Empty", "NameError", "FrozenInstanceError", "LookupError", "BaseException",
    "DeprecationWarning", "UserWarning", "Warning", "NotImplementedError", "ImportError",
}
_DUNDER = {ast.Add: "__add__", ast.Mult: "__mul__", ast.Div: "__truediv__", ast.Sub: "__sub__"}
_RDUNDER = {ast.Add: "__radd__", ast.Mult: "__rmul__"}

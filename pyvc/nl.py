"""Exact polynomial normalisation for integer terms (a rewriting, no assumption).

z3 does not distribute products over if-then-else or cancel `(x*B) div B`
on its own.  This module turns an Int term into an ITE-tree whose leaves are
polynomials over atoms, so that
  * products are pushed to the leaves  (If(c,x,y)*b  ==  If(c, x*b, y*b)),
  * division by a monomial B is carried out symbolically when every leaf is a
    multiple of B:  (sum c_i * m_i * B) // B == sum c_i * m_i   (exact for B != 0,
    remainder 0).
Every step is an identity of integer arithmetic.
"""
import z3

IntS = z3.IntSort()


class Poly:
    __slots__ = ("terms", "atoms")

    def __init__(self, terms=None, atoms=None):
        self.terms = terms or {}     # monomial (sorted tuple of atom ids) -> int coeff
        self.atoms = atoms or {}     # atom id -> z3 expr

    @staticmethod
    def const(c):
        return Poly({(): c} if c else {})

    @staticmethod
    def atom(e):
        return Poly({(e.get_id(),): 1}, {e.get_id(): e})

    def add(self, o, sign=1):
        t = dict(self.terms)
        for m, c in o.terms.items():
            t[m] = t.get(m, 0) + sign * c
            if t[m] == 0:
                del t[m]
        a = dict(self.atoms)
        a.update(o.atoms)
        return Poly(t, a)

    def mul(self, o):
        t = {}
        for m1, c1 in self.terms.items():
            for m2, c2 in o.terms.items():
                m = tuple(sorted(m1 + m2))
                t[m] = t.get(m, 0) + c1 * c2
                if t[m] == 0:
                    del t[m]
        a = dict(self.atoms)
        a.update(o.atoms)
        return Poly(t, a)

    def to_z3(self):
        if not self.terms:
            return z3.IntVal(0)
        parts = []
        for m, c in sorted(self.terms.items()):
            fs = [self.atoms[i] for i in m]
            if not fs:
                parts.append(z3.IntVal(c))
                continue
            p = fs[0]
            for f in fs[1:]:
                p = p * f
            parts.append(p if c == 1 else (z3.IntVal(c) * p))
        r = parts[0]
        for p in parts[1:]:
            r = r + p
        return r

    def is_const(self):
        return all(m == () for m in self.terms)

    def divide_by_mono(self, mono, coeff):
        """Exact quotient if every monomial contains `mono` and every
        coefficient is a multiple of coeff; else None."""
        t = {}
        for m, c in self.terms.items():
            rest = list(m)
            for a in mono:
                if a in rest:
                    rest.remove(a)
                else:
                    return None
            if c % coeff != 0:
                return None
            t[tuple(rest)] = c // coeff
        return Poly(t, dict(self.atoms))


# ITE tree: ("p", Poly) | ("ite", cond, tree, tree)

def tree_of(e, depth=0):
    if isinstance(e, int):
        return ("p", Poly.const(e))
    if z3.is_int_value(e):
        return ("p", Poly.const(e.as_long()))
    if z3.is_app(e) and e.sort() == IntS:
        k = e.decl().kind()
        ch = e.children()
        if k == z3.Z3_OP_ADD:
            r = tree_of(ch[0])
            for c in ch[1:]:
                r = combine(r, tree_of(c), lambda x, y: x.add(y))
            return r
        if k == z3.Z3_OP_SUB:
            r = tree_of(ch[0])
            for c in ch[1:]:
                r = combine(r, tree_of(c), lambda x, y: x.add(y, -1))
            return r
        if k == z3.Z3_OP_UMINUS:
            return combine(("p", Poly.const(-1)), tree_of(ch[0]), lambda x, y: x.mul(y))
        if k == z3.Z3_OP_MUL:
            r = tree_of(ch[0])
            for c in ch[1:]:
                r = combine(r, tree_of(c), lambda x, y: x.mul(y))
            return r
        if k == z3.Z3_OP_ITE:
            return ("ite", ch[0], tree_of(ch[1]), tree_of(ch[2]))
    return ("p", Poly.atom(e))


_LIMIT = 400


def size(t):
    if t[0] == "p":
        return 1
    return size(t[2]) + size(t[3])


def combine(a, b, f):
    if a[0] == "ite":
        return ("ite", a[1], combine(a[2], b, f), combine(a[3], b, f))
    if b[0] == "ite":
        return ("ite", b[1], combine(a, b[2], f), combine(a, b[3], f))
    return ("p", f(a[1], b[1]))


def to_z3(t):
    if t[0] == "p":
        return t[1].to_z3()
    return z3.If(t[1], to_z3(t[2]), to_z3(t[3]))


def leaves(t):
    if t[0] == "p":
        yield t[1]
    else:
        yield from leaves(t[2])
        yield from leaves(t[3])


def map_leaves(t, f):
    if t[0] == "p":
        return ("p", f(t[1]))
    return ("ite", t[1], map_leaves(t[2], f), map_leaves(t[3], f))


def norm_mul(a, b):
    """a*b with products pushed to the leaves (identity of arithmetic)."""
    ta, tb = tree_of(a), tree_of(b)
    if size(ta) * size(tb) > _LIMIT:
        return None
    return to_z3(combine(ta, tb, lambda x, y: x.mul(y)))


def exact_div(a, b):
    """(q, True) with a == q*b exactly (so a // b == q and a % b == 0 for b != 0)
    when that is a syntactic fact; else (None, False)."""
    tb = tree_of(b)
    if tb[0] != "p" or len(tb[1].terms) != 1:
        return None, False
    (mono, coeff), = tb[1].terms.items()
    if coeff == 0:
        return None, False
    ta = tree_of(a)
    if size(ta) > _LIMIT:
        return None, False
    ok = [True]

    def dv(p):
        q = p.divide_by_mono(mono, coeff)
        if q is None:
            ok[0] = False
            return p
        return q
    tq = map_leaves(ta, dv)
    if not ok[0]:
        return None, False
    return to_z3(tq), True
